"""Helpers of the str2-q strengthening pass (C38, C43).

Everything here works on `ast` only -- nothing imports or runs SQLAlchemy.

* `PyModel`      a small *concrete* interpreter for the Python subset the collection instrumentation wrappers of
                 orm/collections.py are written in (assignments, if / for / while / break / continue / return / raise,
                 comprehensions, calls of closures and module functions, subscripts, slices, the builtin container
                 types).  A wrapper is run on a model collection (`CollModel`: a builtin list/set/dict plus an event log)
                 where the underlying method `fn(self, ..)` IS the builtin method and the event helpers only log.  With
                 it a wrapper is *model-checked* against the builtin type of the analysing interpreter over a bounded
                 domain of collection states and arguments (the property's own quantifier) instead of matching the shape
                 of its statements: any behaviour-preserving rewrite gives the same verdict, any rewrite that changes
                 contents / return value / exception / event accounting for some small input is shown with that input.
                 Constructs outside the subset raise `Unsupported` (-> exit 2), never a verdict.
* `flows_into`   which 'source' expressions can reach an expression (through local assignments, attribute stores on a
                 local, generative method chains, augmented assignment) on some CFG path -- a small, flow-ordered taint
                 closure used by C43-R6.
"""

from __future__ import annotations

import ast
import builtins as _b
import contextlib
import copy
import operator as _op
import types
from collections import Counter
from typing import Callable, Dict, List, Optional, Sequence

from ..astutil import unparse, walk_local


class Unsupported(Exception):
    pass


class NonTermination(Unsupported):
    """the interpreted wrapper exceeded every bound on this (tiny) input: step budget, size of the collection, recursion
    depth, memory.  Reported as a divergence from the builtin (which returns), not as an unknown construct."""


class _Return(Exception):
    def __init__(self, value):
        self.value = value


class _Break(Exception):
    pass


class _Continue(Exception):
    pass


class Sent:
    """an imported module-level marker object (NO_ARG, NO_KEY): only its identity matters"""

    def __init__(self, name):
        self.name = name

    def __repr__(self):
        return self.name


class FuncVal:
    """an interpreted function: its FunctionDef / Lambda plus the environments it closes over"""

    def __init__(self, node, envs):
        self.node = node
        self.envs = envs  # list of dicts, innermost first

    def __repr__(self):
        return f"<function {getattr(self.node, 'name', 'lambda')}>"


class Underlying:
    """the method the decorator wraps: the builtin method of the modelled type"""

    def __init__(self, mname):
        self.mname = mname


class EventHelper:
    def __init__(self, kind):
        self.kind = kind


_ITER_CAP = 2000


def _bounded(it):
    n = 0
    for x in it:
        n += 1
        if n > _ITER_CAP:
            raise NonTermination("unbounded iteration over the collection while it grows (non-terminating wrapper)")
        yield x


@contextlib.contextmanager
def memory_guard(extra: int = 256 << 20):
    """While active, the address space of this process may grow by at most `extra` bytes: a wrapper variant that makes a
    builtin consume an ever growing container ends in MemoryError (-> Unsupported) instead of exhausting the machine."""
    try:
        import resource
        soft, hard = resource.getrlimit(resource.RLIMIT_AS)
        vm = None
        with open("/proc/self/status") as f:
            for line in f:
                if line.startswith("VmSize:"):
                    vm = int(line.split()[1]) * 1024
        if vm is None:
            raise OSError("no VmSize")
        lim = vm + extra
        if hard != resource.RLIM_INFINITY:
            lim = min(lim, hard)
        if soft != resource.RLIM_INFINITY:
            lim = min(lim, soft)
        resource.setrlimit(resource.RLIMIT_AS, (lim, hard))
    except Exception:
        yield
        return
    try:
        yield
    finally:
        resource.setrlimit(resource.RLIMIT_AS, (soft, hard))


class CollModel:
    """a collection under instrumentation: the builtin container + the events announced so far.  Reading it behaves
    like the builtin (iteration, len, membership, subscript, the non-mutating methods); every mutation has to go
    through the interpreter, which routes it to the wrapper under test."""

    def __init__(self, data, mutators):
        object.__setattr__(self, "data", data)
        object.__setattr__(self, "log", [])
        object.__setattr__(self, "_mutators", frozenset(mutators))

    def __iter__(self):
        # bounded: a wrapper that hands the collection to a native consumer which also grows it (list.extend(data,
        # <the collection>)) would otherwise iterate for ever and exhaust memory inside the builtin
        return _bounded(self.data)

    def __len__(self):
        return len(self.data)

    def __contains__(self, x):
        return x in self.data

    def __getitem__(self, k):
        return self.data[k]

    def __getattr__(self, name):
        if name.startswith("__") or name in self._mutators:
            raise AttributeError(name)
        return getattr(self.data, name)

    def __reversed__(self):
        return _bounded(reversed(self.data))

    def __repr__(self):
        return f"<coll {self.data!r}>"


_SAFE_BUILTINS = (
    "len range list set frozenset tuple dict iter next enumerate zip isinstance slice hasattr getattr sorted reversed "
    "int bool str min max abs any all sum repr type callable id map filter "
    "ValueError KeyError IndexError TypeError AttributeError StopIteration NotImplementedError Exception "
    "NotImplemented True False None"
).split()
_SAFE_TYPES = (list, set, frozenset, tuple, dict, str, int, bool, slice, range, type(None), type({}.keys()),
               type({}.values()), type({}.items()), BaseException)

_SAFE_CALLABLES = {getattr(_b, n) for n in _SAFE_BUILTINS if isinstance(getattr(_b, n), type)}

_BINOPS = {ast.Add: _op.add, ast.Sub: _op.sub, ast.Mult: _op.mul, ast.Div: _op.truediv, ast.FloorDiv: _op.floordiv,
           ast.Mod: _op.mod, ast.BitOr: _op.or_, ast.BitAnd: _op.and_, ast.BitXor: _op.xor, ast.Pow: _op.pow,
           ast.LShift: _op.lshift, ast.RShift: _op.rshift}
_CMPOPS = {ast.Eq: _op.eq, ast.NotEq: _op.ne, ast.Lt: _op.lt, ast.LtE: _op.le, ast.Gt: _op.gt, ast.GtE: _op.ge,
           ast.Is: _op.is_, ast.IsNot: _op.is_not, ast.In: lambda a, b: a in b, ast.NotIn: lambda a, b: a not in b}


class PyModel:
    """interpreter; `wrappers` = {mutator name: FuncVal} of the type under test, `module_env(name)` resolves a module
    level name to a value (or raises Unsupported)."""

    def __init__(self, module_env: Callable[[str], object], budget: int = 200000):
        self.module_env = module_env
        self.wrappers: Dict[str, FuncVal] = {}
        self.budget = budget
        self.builtin_type = None

    # -------------------------------------------------------------------------------- names
    def lookup(self, name, envs):
        for env in envs:
            if name in env:
                return env[name]
        try:
            return self.module_env(name)
        except KeyError:
            pass
        if name in _SAFE_BUILTINS:
            return getattr(_b, name)
        raise Unsupported(f"name `{name}`")

    def _tick(self):
        self.budget -= 1
        if self.budget < 0:
            raise NonTermination("step budget exhausted (non-terminating wrapper?)")

    # -------------------------------------------------------------------------------- calls
    def call(self, f, args, kw):
        self._tick()
        if isinstance(f, FuncVal):
            return self._call_funcval(f, args, kw)
        if isinstance(f, Underlying):
            if not args or not isinstance(args[0], CollModel):
                raise Unsupported(f"underlying {f.mname} called on something that is not the collection")
            recv = args[0]
            # the real collection IS a list/set/dict: the builtin sees the container itself when it is its own operand
            rest = [a.data if isinstance(a, CollModel) else a for a in args[1:]]
            res = getattr(type(recv.data), f.mname)(recv.data, *rest, **kw)
            if len(recv.data) > _ITER_CAP or len(recv.log) > 10 * _ITER_CAP:
                raise NonTermination("the collection grows without bound (non-terminating wrapper)")
            return res
        if isinstance(f, EventHelper):
            if not args or not isinstance(args[0], CollModel):
                raise Unsupported("event helper called without the collection")
            item = args[1] if len(args) > 1 else kw.get("item")
            args[0].log.append((f.kind, item))
            return item if f.kind == "set" else None
        if isinstance(f, (types.BuiltinFunctionType, types.BuiltinMethodType, types.MethodWrapperType, types.MethodType)) \
                or (isinstance(f, type) and (f in _SAFE_TYPES or f in _SAFE_CALLABLES or issubclass(f, BaseException) or f is CollModel)) \
                or isinstance(f, (types.MethodDescriptorType, types.WrapperDescriptorType)):
            return f(*args, **kw)
        raise Unsupported(f"call of {f!r}")

    def _call_funcval(self, f: FuncVal, args, kw):
        node = f.node
        a = node.args
        env: Dict[str, object] = {}
        pos = a.posonlyargs + a.args
        args = list(args)
        kw = dict(kw)
        if len(args) > len(pos) and not a.vararg:
            raise TypeError(f"{getattr(node, 'name', 'lambda')}() takes {len(pos)} positional arguments but {len(args)} were given")
        ndef = len(a.defaults)
        for i, p in enumerate(pos):
            if i < len(args):
                env[p.arg] = args[i]
                if p.arg in kw and p not in a.posonlyargs:
                    raise TypeError(f"got multiple values for argument '{p.arg}'")
            elif p.arg in kw and p not in a.posonlyargs:
                env[p.arg] = kw.pop(p.arg)
            elif i >= len(pos) - ndef:
                env[p.arg] = self.ev(a.defaults[i - (len(pos) - ndef)], f.envs)
            else:
                raise TypeError(f"missing required positional argument '{p.arg}'")
        if a.vararg:
            env[a.vararg.arg] = tuple(args[len(pos):])
        for p, d in zip(a.kwonlyargs, a.kw_defaults):
            if p.arg in kw:
                env[p.arg] = kw.pop(p.arg)
            elif d is not None:
                env[p.arg] = self.ev(d, f.envs)
            else:
                raise TypeError(f"missing keyword-only argument '{p.arg}'")
        if a.kwarg:
            env[a.kwarg.arg] = kw
        elif kw:
            raise TypeError(f"got an unexpected keyword argument '{next(iter(kw))}'")
        envs = [env] + f.envs
        if isinstance(node, ast.Lambda):
            return self.ev(node.body, envs)
        if any(isinstance(n, (ast.Yield, ast.YieldFrom, ast.Await)) for n in walk_local(node)):
            raise Unsupported(f"generator / coroutine {node.name}")
        try:
            self.run(node.body, envs)
        except _Return as r:
            return r.value
        return None

    def method(self, recv: CollModel, name, args, kw):
        """`recv.name(*args)` on the collection under test"""
        if name in self.wrappers:
            return self.call(self.wrappers[name], [recv] + list(args), kw)
        # no wrapper: the builtin runs as is (a mutator then changes the contents with no event)
        args = [a.data if isinstance(a, CollModel) else a for a in args]
        res = getattr(type(recv.data), name)(recv.data, *args, **kw)
        if hasattr(res, "__next__"):
            res = _bounded(res)  # self.__iter__() & co.: a live iterator over the container
        return res

    # -------------------------------------------------------------------------------- expressions
    def ev(self, e, envs):
        self._tick()
        if isinstance(e, ast.Constant):
            return e.value
        if isinstance(e, ast.Name):
            return self.lookup(e.id, envs)
        if isinstance(e, ast.Attribute):
            v = self.ev(e.value, envs)
            if isinstance(v, (CollModel,) + _SAFE_TYPES) or (isinstance(v, type) and v in _SAFE_TYPES):
                return getattr(v, e.attr)
            raise Unsupported(f"attribute `{unparse(e)}` of {type(v).__name__}")
        if isinstance(e, ast.Subscript):
            v = self.ev(e.value, envs)
            k = self.ev(e.slice, envs)
            return v[k]
        if isinstance(e, ast.Slice):
            return slice(*(self.ev(x, envs) if x is not None else None for x in (e.lower, e.upper, e.step)))
        if isinstance(e, ast.Tuple):
            return tuple(self._elts(e.elts, envs))
        if isinstance(e, ast.List):
            return list(self._elts(e.elts, envs))
        if isinstance(e, ast.Set):
            return set(self._elts(e.elts, envs))
        if isinstance(e, ast.Dict):
            out = {}
            for k, v in zip(e.keys, e.values):
                if k is None:
                    out.update(self.ev(v, envs))
                else:
                    out[self.ev(k, envs)] = self.ev(v, envs)
            return out
        if isinstance(e, ast.UnaryOp):
            v = self.ev(e.operand, envs)
            if isinstance(e.op, ast.Not):
                return not v
            if isinstance(e.op, ast.USub):
                return -v
            if isinstance(e.op, ast.UAdd):
                return +v
            return ~v
        if isinstance(e, ast.BinOp):
            if type(e.op) not in _BINOPS:
                raise Unsupported(unparse(e))
            return _BINOPS[type(e.op)](self.ev(e.left, envs), self.ev(e.right, envs))
        if isinstance(e, ast.BoolOp):
            v = None
            for x in e.values:
                v = self.ev(x, envs)
                if isinstance(e.op, ast.And) and not v:
                    return v
                if isinstance(e.op, ast.Or) and v:
                    return v
            return v
        if isinstance(e, ast.Compare):
            left = self.ev(e.left, envs)
            for op, c in zip(e.ops, e.comparators):
                right = self.ev(c, envs)
                if not _CMPOPS[type(op)](left, right):
                    return False
                left = right
            return True
        if isinstance(e, ast.IfExp):
            return self.ev(e.body if self.ev(e.test, envs) else e.orelse, envs)
        if isinstance(e, ast.NamedExpr) and isinstance(e.target, ast.Name):
            v = self.ev(e.value, envs)
            envs[0][e.target.id] = v
            return v
        if isinstance(e, ast.Lambda):
            return FuncVal(e, envs)
        if isinstance(e, (ast.ListComp, ast.SetComp, ast.GeneratorExp, ast.DictComp)):
            return self._comp(e, envs)
        if isinstance(e, ast.JoinedStr):
            return "".join(str(self.ev(v.value, envs)) if isinstance(v, ast.FormattedValue) else v.value for v in e.values)
        if isinstance(e, ast.Starred):
            raise Unsupported("starred expression outside a call / display")
        if isinstance(e, ast.Call):
            return self._ev_call(e, envs)
        raise Unsupported(f"expression `{unparse(e)[:60]}`")

    def _elts(self, elts, envs):
        out = []
        for x in elts:
            if isinstance(x, ast.Starred):
                out.extend(self.ev(x.value, envs))
            else:
                out.append(self.ev(x, envs))
        return out

    def _comp(self, e, envs):
        out: list = []
        is_dict = isinstance(e, ast.DictComp)

        def rec(i, envs2):
            if i == len(e.generators):
                out.append((self.ev(e.key, envs2), self.ev(e.value, envs2)) if is_dict else self.ev(e.elt, envs2))
                return
            gen = e.generators[i]
            for x in self.ev(gen.iter, envs2):
                self._tick()
                env3 = [dict(envs2[0])] + envs2[1:]
                self._bind(gen.target, x, env3)
                if all(self.ev(c, env3) for c in gen.ifs):
                    rec(i + 1, env3)

        rec(0, [dict()] + list(envs))
        if is_dict:
            return dict(out)
        if isinstance(e, ast.SetComp):
            return set(out)
        return iter(out) if isinstance(e, ast.GeneratorExp) else out

    def _ev_call(self, e, envs):
        args = self._elts(e.args, envs)
        kw = {}
        for k in e.keywords:
            if k.arg is None:
                kw.update(self.ev(k.value, envs))
            else:
                kw[k.arg] = self.ev(k.value, envs)
        if isinstance(e.func, ast.Attribute):
            recv = self.ev(e.func.value, envs)
            if isinstance(recv, CollModel):
                self._tick()
                return self.method(recv, e.func.attr, args, kw)
            if isinstance(recv, _SAFE_TYPES) or (isinstance(recv, type) and recv in _SAFE_TYPES):
                return self.call(getattr(recv, e.func.attr), args, kw)
            raise Unsupported(f"method call `{unparse(e)[:60]}` on {type(recv).__name__}")
        return self.call(self.ev(e.func, envs), args, kw)

    # -------------------------------------------------------------------------------- statements
    def _bind(self, target, value, envs):
        if isinstance(target, ast.Name):
            envs[0][target.id] = value
        elif isinstance(target, (ast.Tuple, ast.List)):
            vals = list(value)
            if any(isinstance(t, ast.Starred) for t in target.elts):
                raise Unsupported("starred assignment target")
            if len(vals) != len(target.elts):
                raise ValueError(f"cannot unpack {len(vals)} values into {len(target.elts)} targets")
            for t, v in zip(target.elts, vals):
                self._bind(t, v, envs)
        elif isinstance(target, ast.Subscript):
            recv = self.ev(target.value, envs)
            k = self.ev(target.slice, envs)
            if isinstance(recv, CollModel):
                self.method(recv, "__setitem__", [k, value], {})
            elif isinstance(recv, (list, dict)):
                recv[k] = value
            else:
                raise Unsupported(f"subscript store on {type(recv).__name__}")
        else:
            raise Unsupported(f"assignment target `{unparse(target)}`")

    def run(self, body: Sequence[ast.stmt], envs):
        for st in body:
            self._tick()
            if isinstance(st, ast.Expr):
                if not isinstance(st.value, ast.Constant):
                    self.ev(st.value, envs)
            elif isinstance(st, ast.Assign):
                v = self.ev(st.value, envs)
                for t in st.targets:
                    self._bind(t, v, envs)
            elif isinstance(st, ast.AnnAssign):
                if st.value is not None:
                    self._bind(st.target, self.ev(st.value, envs), envs)
            elif isinstance(st, ast.AugAssign):
                if type(st.op) not in _BINOPS:
                    raise Unsupported(unparse(st))
                load = copy.copy(st.target)
                load.ctx = ast.Load()
                cur = self.ev(load, envs)
                rhs = self.ev(st.value, envs)
                if isinstance(cur, CollModel):
                    raise Unsupported("augmented assignment with the collection on the left")
                if isinstance(cur, (list, set, dict)):
                    iop = getattr(_op, "i" + _BINOPS[type(st.op)].__name__.strip("_"), None)
                    new = iop(cur, rhs) if iop else _BINOPS[type(st.op)](cur, rhs)
                else:
                    new = _BINOPS[type(st.op)](cur, rhs)
                self._bind(st.target, new, envs)
            elif isinstance(st, ast.Return):
                raise _Return(self.ev(st.value, envs) if st.value is not None else None)
            elif isinstance(st, ast.If):
                self.run(st.body if self.ev(st.test, envs) else st.orelse, envs)
            elif isinstance(st, ast.For):
                broke = False
                for x in self.ev(st.iter, envs):
                    self._tick()
                    self._bind(st.target, x, envs)
                    try:
                        self.run(st.body, envs)
                    except _Break:
                        broke = True
                        break
                    except _Continue:
                        continue
                if not broke:
                    self.run(st.orelse, envs)
            elif isinstance(st, ast.While):
                broke = False
                while self.ev(st.test, envs):
                    self._tick()
                    try:
                        self.run(st.body, envs)
                    except _Break:
                        broke = True
                        break
                    except _Continue:
                        continue
                if not broke:
                    self.run(st.orelse, envs)
            elif isinstance(st, ast.Pass):
                pass
            elif isinstance(st, ast.Break):
                raise _Break()
            elif isinstance(st, ast.Continue):
                raise _Continue()
            elif isinstance(st, ast.Raise):
                if st.exc is None:
                    raise Unsupported("bare raise")
                exc = self.ev(st.exc, envs)
                if isinstance(exc, type) and issubclass(exc, BaseException):
                    exc = exc()
                if not isinstance(exc, BaseException):
                    raise Unsupported(f"raise of {exc!r}")
                raise exc
            elif isinstance(st, ast.Delete):
                for t in st.targets:
                    if isinstance(t, ast.Subscript):
                        recv = self.ev(t.value, envs)
                        k = self.ev(t.slice, envs)
                        if isinstance(recv, CollModel):
                            self.method(recv, "__delitem__", [k], {})
                        elif isinstance(recv, (list, dict)):
                            del recv[k]
                        else:
                            raise Unsupported(f"del on {type(recv).__name__}")
                    elif isinstance(t, ast.Name):
                        envs[0].pop(t.id, None)
                    else:
                        raise Unsupported(unparse(st))
            elif isinstance(st, ast.Assert):
                if not self.ev(st.test, envs):
                    raise AssertionError(unparse(st.test))
            elif isinstance(st, (ast.FunctionDef,)):
                if st.decorator_list:
                    raise Unsupported(f"decorated local function {st.name}")
                envs[0][st.name] = FuncVal(st, envs)
            elif isinstance(st, ast.Try):
                self._try(st, envs)
            else:
                raise Unsupported(f"statement `{unparse(st).splitlines()[0][:60]}`")

    def _try(self, st, envs):
        try:
            try:
                self.run(st.body, envs)
            except (_Return, _Break, _Continue, Unsupported):
                raise
            except Exception as exc:
                for h in st.handlers:
                    t = self.ev(h.type, envs) if h.type is not None else Exception
                    if isinstance(exc, t):
                        if h.name:
                            envs[0][h.name] = exc
                        self.run(h.body, envs)
                        break
                else:
                    raise
            else:
                self.run(st.orelse, envs)
        finally:
            self.run(st.finalbody, envs)


# ------------------------------------------------------------------------------------------ bounded domains
def _fmt(v):
    if isinstance(v, CollModel):
        return "<the collection itself>"
    if isinstance(v, type(iter([]))) or isinstance(v, type(iter(()))):
        return "iter(..)"
    return repr(v)


class Case:
    """one input: a mutator, an initial state, and a factory of fresh arguments (`mk(receiver) -> (args, kw)`; the
    receiver is passed so that the collection itself can be an argument).  `aspect` separates families of inputs of
    one mutator into rule instances of their own (list subscripts: index / slice; the collection as its own argument)."""

    def __init__(self, mname, init, mk, show, aspect=""):
        self.mname, self.init, self.mk, self.show, self.aspect = mname, init, mk, show, aspect


def _c(mname, init, *args, **kw):
    shown = ", ".join([repr(a) for a in args] + [f"{k}={v!r}" for k, v in kw.items()])
    aspect = ""
    if mname in ("__setitem__", "__delitem__") and isinstance(init, list):
        aspect = "slice" if args and isinstance(args[0], slice) else "index"
    return Case(mname, init, lambda recv: (list(args), dict(kw)), f"{mname}({shown})", aspect)


def _it(mname, init, seq, *pre):
    aspect = "slice" if pre and isinstance(pre[0], slice) else ""
    return Case(mname, init, lambda recv: (list(pre) + [iter(list(seq))], {}),
                f"{mname}({', '.join([repr(p) for p in pre] + ['iter(' + repr(list(seq)) + ')'])})", aspect)


def _selfarg(mname, init, *pre):
    return Case(mname, init, lambda recv: (list(pre) + [recv], {}),
                f"{mname}({', '.join([repr(p) for p in pre] + ['<the collection itself>'])})", "self-argument")


def set_cases(thorough=False):
    states = [set(), {0}, {0, 1}, {0, 1, 2}]
    operands = [[], [0], [1, 1], [0, 3], [3, 3], [1, 3, 1, 3], (0, 1), set(), {0}, {1, 3}, frozenset({0, 2, 3}), {0, 1, 2}]
    if thorough:
        operands += [[2, 2, 0], [0, 1, 2, 3], {3}, frozenset(), (3,)]
    out = []
    for s in states:
        for x in (0, 1, 3):
            for m in ("add", "discard", "remove"):
                out.append(_c(m, s, x))
        out.append(_c("pop", s))
        out.append(_c("clear", s))
        for m in ("update", "difference_update", "intersection_update", "symmetric_difference_update",
                  "__ior__", "__isub__", "__iand__", "__ixor__"):
            for o in operands:
                out.append(_c(m, s, o))
            out.append(_it(m, s, [1, 3]))
            out.append(_selfarg(m, s))
    return out


def dict_cases(thorough=False):
    states = [{}, {"a": 1}, {"a": 1, "b": 2}]
    out = []
    for s in states:
        for k in ("a", "c"):
            for v in (1, 9):
                out.append(_c("__setitem__", s, k, v))
                out.append(_c("setdefault", s, k, v))
                out.append(_c("pop", s, k, v))
            out.append(_c("__delitem__", s, k))
            out.append(_c("pop", s, k))
            out.append(_c("pop", s, k, None))
            out.append(_c("setdefault", s, k))
        out.append(_c("clear", s))
        out.append(_c("popitem", s))
        maps = [{}, {"a": 1}, {"a": 11}, {"c": 13}, {"a": 11, "c": 13}]
        pairs = [[], [("a", 1)], [("a", 11), ("c", 13)], [("c", 13), ("c", 14)], (("b", 7),)]
        kws = [{}, {"a": 21}, {"d": 14}, {"a": 1, "d": 14}]
        out.append(_c("update", s))
        for kw in kws:
            if kw:
                out.append(_c("update", s, **kw))
            for o in maps + pairs:
                out.append(_c("update", s, o, **kw))
        out.append(_it("update", s, [("a", 5), ("c", 6)]))
        out.append(_selfarg("update", s))
        for o in maps + pairs:
            out.append(_c("__ior__", s, o))
        out.append(_selfarg("__ior__", s))
    return out


def list_cases(thorough=False):
    states = [[], [0], [0, 1], [0, 1, 2], [0, 1, 0, 2]]
    idx = [-5, -2, -1, 0, 1, 3, 5]
    out = []
    for s in states:
        out.append(_c("append", s, 7))
        out.append(_c("pop", s))
        out.append(_c("clear", s))
        for x in (0, 2, 7):
            out.append(_c("remove", s, x))
        for i in idx:
            out.append(_c("insert", s, i, 7))
            out.append(_c("pop", s, i))
            out.append(_c("__setitem__", s, i, 7))
            out.append(_c("__delitem__", s, i))
        for m in ("extend", "__iadd__"):
            for v in ([], [7, 8], (7,), {7}):
                out.append(_c(m, s, v))
            out.append(_it(m, s, [7, 8]))
            out.append(_selfarg(m, s))
    if thorough:
        sl_states = states
        bounds = [None, -6, -5, -3, -1, 0, 1, 2, 4, 5, 7]
        steps = [None, 1, 2, 3, -1, -2, -3]
        values = [[], [7], [7, 8], (7, 8, 9), [7, 8, 9, 6]]
    else:
        sl_states = [[], [0, 1, 2]]
        bounds = [None, -5, -1, 1, 5]
        steps = [None, 2, -1]
        values = [[], [7], (7, 8)]
    for s in sl_states:
        for a in bounds:
            for b in bounds:
                for st in steps:
                    sl = slice(a, b, st)
                    out.append(_c("__delitem__", s, sl))
                    for v in values:
                        out.append(_c("__setitem__", s, sl, v))
                    out.append(_it("__setitem__", s, [7, 8], sl))
        for sl in (slice(None), slice(1, 1), slice(0, 1), slice(None, None, 2), slice(1, None)):
            out.append(_selfarg("__setitem__", s, sl))
    return out


CASES = {"set": set_cases, "dict": dict_cases, "list": list_cases}


def _contents(data):
    if isinstance(data, dict):
        return list(data.items())
    if isinstance(data, set):
        return sorted(data, key=repr)
    return list(data)


def _members(data):
    return Counter(map(repr, data.values() if isinstance(data, dict) else data))


def _copy(data):
    return type(data)(data)


def run_builtin(typ, case: Case):
    data = _copy(case.init)
    args, kw = case.mk(data)
    try:
        ret = getattr(typ, case.mname)(data, *args, **kw)
        exc = None
    except Exception as e:
        ret, exc = None, type(e).__name__
    if ret is data:
        ret = "<the collection itself>"
    return exc, ret, _contents(data), data


def run_model(interp: PyModel, typ, mutators, case: Case):
    model = CollModel(_copy(case.init), mutators)
    args, kw = case.mk(model)
    try:
        ret = interp.method(model, case.mname, args, kw)
        exc = None
    except (Unsupported, _Return, _Break, _Continue):
        raise
    except RecursionError:
        raise NonTermination("recursion limit (non-terminating wrapper?)")
    except MemoryError:
        model.data.clear()
        raise NonTermination("memory limit (the wrapper makes the collection grow without bound)")
    except Exception as e:
        ret, exc = None, type(e).__name__
    if len(model.data) > _ITER_CAP:
        raise NonTermination("the collection grows without bound (non-terminating wrapper)")
    if ret is model:
        ret = "<the collection itself>"
    return exc, ret, _contents(model.data), model


def compare(interp, tname, mutators, case: Case) -> Optional[str]:
    """None if the wrapper of case.mname behaves like the builtin on this input, else a one-line counterexample"""
    typ = {"list": list, "set": set, "dict": dict}[tname]
    bexc, bret, bcont, _bd = run_builtin(typ, case)
    where = f"on {tname}({case.init!r}) `{case.show}`"
    try:
        mexc, mret, mcont, model = run_model(interp, typ, mutators, case)
    except NonTermination as e:
        return f"{where} does not terminate ({e}) but the builtin {'raises ' + bexc if bexc else 'leaves ' + repr(bcont)}"
    init = _contents(case.init)
    if tname == "set" and case.mname == "pop" and bexc is None and mexc is None:
        # which member leaves is arbitrary: it must have been a member and be the only one that left
        ok = mret in case.init and mcont == sorted(set(case.init) - {mret}, key=repr)
        if not ok:
            return f"{where} returned {mret!r} and left {mcont!r}"
        bret, bcont = mret, mcont
    if mexc != bexc:
        return f"{where} {'raises ' + mexc if mexc else 'returns ' + _fmt(mret)} but the builtin {'raises ' + bexc if bexc else 'returns ' + _fmt(bret)}"
    if mcont != bcont:
        return f"{where} leaves {mcont!r} but the builtin leaves {bcont!r}"
    if mexc is None and not (mret is bret or (type(mret) is type(bret) and mret == bret)):
        return f"{where} returns {_fmt(mret)} but the builtin returns {_fmt(bret)}"
    # the events account exactly for what entered and left
    added = Counter(repr(i) for k, i in model.log if k == "set")
    removed = Counter(repr(i) for k, i in model.log if k == "del")
    before, after = _members(case.init), _members(model.data)
    net_events = Counter(added)
    net_events.subtract(removed)
    net_real = Counter(after)
    net_real.subtract(before)
    if {k: v for k, v in net_events.items() if v} != {k: v for k, v in net_real.items() if v}:
        ev = [f"{'append' if k == 'set' else 'remove'}({i!r})" for k, i in model.log if k in ("set", "del")]
        return (f"{where} changes the members {init!r} -> {mcont!r} but fires [{', '.join(ev) or 'no event'}]: the events do not "
                "account for the items added and removed")
    return None


# ------------------------------------------------------------------------------------------ value flow (C43-R6)
def _names(e) -> set:
    return {n.id for n in ast.walk(e) if isinstance(n, ast.Name) and isinstance(n.ctx, ast.Load)}


def flows_into(g, fnode, sink_stmt, sink_expr, sources: Dict[str, Callable[[ast.AST], bool]]) -> Dict[str, bool]:
    """{source label: does a value matched by sources[label] (a predicate on expression nodes) reach `sink_expr`}.

    A local is tainted by a source when some statement that can run BEFORE the sink statement (CFG reachability)
    binds it to / stores into one of its attributes / calls a method of it with / augments it by an expression that
    contains the source or another tainted local.  Flow-insensitive among the statements that precede the sink, so it
    over-approximates 'reaches' -- the rule that uses it reports a source that does NOT reach the sink."""
    sink_nodes = set(g.nodes_for(sink_stmt))
    pre = []
    for n in walk_local(fnode):
        if not isinstance(n, ast.stmt) or n is sink_stmt:
            continue
        ids = g.nodes_for(n)
        if ids and sink_nodes & g.reachable(ids, include_starts=False):
            pre.append(n)
    out = {}
    for label, pred in sources.items():
        def has_src(e, tainted):
            return any(pred(x) for x in ast.walk(e)) or bool(_names(e) & tainted)

        tainted: set = set()
        changed = True
        while changed:
            changed = False
            for st in pre:
                tg, val = [], None
                if isinstance(st, ast.Assign):
                    tg, val = st.targets, st.value
                elif isinstance(st, (ast.AugAssign, ast.AnnAssign)) and st.value is not None:
                    tg, val = [st.target], st.value
                elif isinstance(st, ast.Expr) and isinstance(st.value, ast.Call) and isinstance(st.value.func, ast.Attribute):
                    # x.method(<source>) : a mutating call taints the receiver
                    c = st.value
                    if any(has_src(a, tainted) for a in list(c.args) + [k.value for k in c.keywords]):
                        tg, val = [c.func.value], c
                    elif has_src(c.func.value, tainted):
                        # <tainted>.method(acc): the receiver may write into its plain-name arguments (out-parameters)
                        tg, val = [a for a in c.args if isinstance(a, ast.Name)], c
                elif isinstance(st, (ast.For, ast.AsyncFor)):
                    tg, val = [st.target], st.iter
                elif isinstance(st, (ast.With, ast.AsyncWith)):
                    for it in st.items:
                        if it.optional_vars is not None and has_src(it.context_expr, tainted):
                            for nm in ast.walk(it.optional_vars):
                                if isinstance(nm, ast.Name) and nm.id not in tainted:
                                    tainted.add(nm.id)
                                    changed = True
                    continue
                if val is None or not has_src(val, tainted):
                    continue
                for t in tg:
                    base = t
                    while isinstance(base, (ast.Attribute, ast.Subscript)):
                        base = base.value
                    for nm in ([base] if isinstance(base, ast.Name) else [x for x in ast.walk(t) if isinstance(x, ast.Name)]):
                        if nm.id not in tainted:
                            tainted.add(nm.id)
                            changed = True
        out[label] = has_src(sink_expr, tainted)
    return out
