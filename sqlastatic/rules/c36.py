"""C36 -- Attribute history reports the net change since load.

Decides the *capture discipline* (who records the committed value, when, and which value) and the *case
tables* of History.from_scalar_attribute / from_object_attribute / from_collection over the finite domain of
sentinel identities; does not decide the behaviour (values, equality functions, event listeners).
"""

from __future__ import annotations

import ast
import itertools
from typing import Dict, List, Optional, Tuple

from ..astutil import calls_in, dotted, enclosing_stmt, func_defaults, name_stores, names_in, unparse, walk_local, walk_stmts
from ..cfg import no_exc
from ..report import Registry, chain, sub
from ._helpers_rules_d import call_nodes, callee_is, kw, qualname
from ._helpers_rob_a import transitive_owners
from ._helpers_rob_i import nf

R = Registry(
    "C36",
    title="Attribute history reports exactly the net change since load",
    decides=(
        "clauses of C36, not the behaviour: (R1) an entry is inserted into InstanceState.committed_state only by the "
        "two _modified_event functions, only when the key is absent (first change since the last flush wins; the "
        "only override is the documented flag_modified flag), and a collection's recorded original is a copy, not "
        "the live collection; (R2) the value every attribute implementation hands to _modified_event as `previous` "
        "is read from the instance dict before the implementation writes the new value, never the new value itself, "
        "and collection implementations ask for the snapshot (collection=True); (R3) the case tables of "
        "History.from_scalar_attribute / from_object_attribute, evaluated over all combinations of the sentinel "
        "identities (no history, NO_VALUE, PASSIVE_NO_RESULT, None, a value, another value), report the current "
        "value exactly once, report no change without history or after set-back-to-original, put the replaced "
        "value in `deleted` and never leak a sentinel; (R4) History.from_collection (and its inlined sibling "
        "get_all_pending) partition current/original into added = current-original, unchanged = current&original, "
        "deleted = original-current keyed by the same identity function, and PendingCollection.append/remove "
        "cancel each other; (R5) flush / load reset the history: _commit_all_states and _commit drop committed_state "
        "entries unconditionally, set_committed_value commits what it stores, Session._register_persistent commits "
        "the flushed states; (R6) every instrumentation wrapper of orm/collections.py reaches the hook chain that "
        "snapshots the live collection (helper -> CollectionAdapter.fire_* -> _CollectionAttributeImpl.fire_* -> "
        "_modified_event(collection=True)) BEFORE the wrapped method mutates the collection, never only afterwards; "
        "(R7) an original of an object reference / collection that is obtained through a loader callable and then "
        "recorded is loaded with LOAD_AGAINST_COMMITTED (evaluated over the PassiveFlag bit table)."
    ),
    not_decided=(
        "attribute values: user-defined compare/copy functions, what get() returns for expired or unloaded "
        "attributes, event listeners that replace values, active_history loading, dynamic / write-only "
        "collection histories, and that a flush persists exactly the reported difference (C30/C31)."
    ),
)

ATTR = "orm/attributes.py"
STATE = "orm/state.py"
WRITEONLY = "orm/writeonly.py"
BASE = "orm/base.py"
SESSION = "orm/session.py"
IS = f"{STATE}::InstanceState"


# ------------------------------------------------------------------------------------------ small helpers
def _atoms(test: ast.expr, pol: bool) -> List[Tuple[ast.expr, bool]]:
    """Conjunctive atoms of a guard as AST nodes (like astutil.test_atoms, but keeps the nodes)."""
    if isinstance(test, ast.UnaryOp) and isinstance(test.op, ast.Not):
        return _atoms(test.operand, not pol)
    if isinstance(test, ast.BoolOp):
        if (isinstance(test.op, ast.And) and pol) or (isinstance(test.op, ast.Or) and not pol):
            out = []
            for v in test.values:
                out.extend(_atoms(v, pol))
            return out
    return [(test, pol)]


def _says_absent(t: ast.expr, pol: bool, key_txt: str, cs_txt: str) -> bool:
    """atom `K not in CS` (pol True) / `K in CS` (pol False)."""
    if isinstance(t, ast.UnaryOp) and isinstance(t.op, ast.Not):
        return _says_absent(t.operand, not pol, key_txt, cs_txt)
    if isinstance(t, ast.Compare) and len(t.ops) == 1 and unparse(t.left) == key_txt and unparse(t.comparators[0]) == cs_txt:
        if isinstance(t.ops[0], ast.NotIn):
            return pol
        if isinstance(t.ops[0], ast.In):
            return not pol
    return False


def _absent_guard(test: ast.expr, pol: bool, key_txt: str, cs_txt: str, overrides) -> Optional[List[str]]:
    """None if (test, pol) does not establish `K not in CS`; else the list of override names that may bypass it."""
    for t, p in _atoms(test, pol):
        if _says_absent(t, p, key_txt, cs_txt):
            return []
        # `K not in CS or <flag>` taken true / `K in CS and not <flag>` taken false
        if isinstance(t, ast.BoolOp) and ((isinstance(t.op, ast.Or) and p) or (isinstance(t.op, ast.And) and not p)):
            used, hit, ok = [], False, True
            for v in t.values:
                if _says_absent(v, p, key_txt, cs_txt):
                    hit = True
                    continue
                w, wp = (v.operand, not p) if isinstance(v, ast.UnaryOp) and isinstance(v.op, ast.Not) else (v, p)
                if isinstance(w, ast.Name) and wp and w.id in overrides:
                    used.append(w.id)
                else:
                    ok = False
            if hit and ok:
                return used
    return None


def _sentinel_names(ctx) -> Dict[str, str]:
    """{name usable in orm/attributes.py: token} for the loader-status sentinels, aliases resolved from orm/base.py."""
    base = ctx.index.module(BASE)
    out = {"NO_VALUE": "NO_VALUE", "PASSIVE_NO_RESULT": "PNR"}
    for name, vals in base.assigns.items():
        for v in vals:
            if isinstance(v, ast.Name) and v.id in out and name not in out:
                out[name] = out[v.id]  # NEVER_SET = NO_VALUE
    ctx.require(out.get("NEVER_SET") == "NO_VALUE", "orm/base.py: NEVER_SET is no longer an alias of NO_VALUE")
    return out


# ------------------------------------------------------------------------------------------ R1
CS_INSERTERS = {
    f"{IS}._modified_event": "the change-event hub every attribute implementation reports to",
    f"{WRITEONLY}::_WriteOnlyAttributeImpl._modified_event": "write-only collections keep one WriteOnlyHistory object per flush interval",
}
CS_REBINDERS = {
    f"{IS}.__init__": "a new state starts with an empty dict",
    f"{IS}.__setstate__": "unpickling restores the pickled dict",
}
#: (function, flag parameter) that may bypass the first-change-wins guard, with the reason
CS_OVERRIDES = {
    (f"{IS}._modified_event", "is_userland"): "attributes.flag_modified() is documented to establish an unconditional change event",
}
INSERT_METHODS = ("setdefault", "update", "__setitem__")


def _is_cs(e, aliases) -> bool:
    return (isinstance(e, ast.Attribute) and e.attr == "committed_state") or (isinstance(e, ast.Name) and e.id in aliases)


def _cs_aliases(scope) -> Dict[str, ast.expr]:
    """locals of one function every binding of which is `<x>.committed_state` (the dict itself under another name)."""
    by: Dict[str, List[Optional[ast.expr]]] = {}
    for n, v, s in name_stores(scope):
        by.setdefault(n, []).append(v)
    return {n: vs[0] for n, vs in by.items() if vs and all(isinstance(v, ast.Attribute) and v.attr == "committed_state" for v in vs)}


def _sites_in(scope, pm=None):
    """(insertions [(dict expr, key expr, stmt, node)], rebindings [(node, stmt)]) of one function / module body; the dict may be
    named directly (`state.committed_state[k] = v`) or through a local alias (`cs = self.committed_state; cs[k] = v`)."""
    from ..astutil import parent_map
    pm = pm or parent_map(scope)
    aliases = _cs_aliases(scope) if isinstance(scope, (ast.FunctionDef, ast.AsyncFunctionDef)) else {}
    ins, reb = [], []
    for n in walk_local(scope):
        if isinstance(n, ast.Subscript) and isinstance(n.ctx, ast.Store) and _is_cs(n.value, aliases):
            ins.append((aliases.get(n.value.id, n.value) if isinstance(n.value, ast.Name) else n.value, n.slice, enclosing_stmt(pm, n), n))
        elif isinstance(n, ast.Call) and isinstance(n.func, ast.Attribute) and n.func.attr in INSERT_METHODS and _is_cs(n.func.value, aliases):
            recv = n.func.value
            ins.append((aliases.get(recv.id, recv) if isinstance(recv, ast.Name) else recv, n.args[0] if n.args else None, enclosing_stmt(pm, n), n))
        elif isinstance(n, ast.Attribute) and n.attr == "committed_state" and isinstance(n.ctx, ast.Store):
            reb.append((n, enclosing_stmt(pm, n)))
    return ins, reb


def _cs_sites(ctx):
    ins, reb = [], []
    for m in ctx.index.all_modules():
        if "committed_state" not in m.source:
            continue
        pm = m.parents()
        scopes = [m.tree] + [n for n in ast.walk(m.tree) if isinstance(n, (ast.FunctionDef, ast.AsyncFunctionDef, ast.Lambda, ast.ClassDef))]
        for sc in scopes:
            i2, r2 = _sites_in(sc, pm)
            for cs, k, st, n in i2:
                ins.append((m, qualname(pm, n), cs, k, st))
            for n, st in r2:
                reb.append((m, qualname(pm, n), n, st))
    return ins, reb


def _guarded_insertions(ctx, f, fk, site_label):
    """first-change-wins for every insertion statement of (the normal form of) owner function `f`: helpers the owner calls are
    inlined, aliases of the dict / the key are resolved, so the guard may sit in the caller of an extracted helper."""
    g = ctx.cfg(f)
    sites, _ = _sites_in(f.node)
    overrides = {p for (k, p) in CS_OVERRIDES if k == fk}
    dflt = func_defaults(f.node)
    ctx.require(all(p in dflt and isinstance(dflt[p], ast.Constant) and dflt[p].value is False for p in overrides),
                f"{fk}: override flag(s) {sorted(overrides)} do not default to False")
    ctx.require(sites, f"{fk}: insertion into committed_state not found after following helpers{site_label}")
    for cs, keyexpr, st, _n in sites:
        loc = f"{f.module.path}:{st.lineno}"
        ctx.require(keyexpr is not None, f"{fk}: insertion without a key expression")
        key_txt, cs_txt = unparse(keyexpr), unparse(cs)
        nodes = g.nodes_for(st)
        ctx.require(nodes, f"{fk}: insertion statement not found in the CFG")
        bad, used = [], set()
        for n in nodes:
            res = None
            for t, pol in g.edge_guards(n):
                r = _absent_guard(t, pol, key_txt, cs_txt, overrides)
                if r is not None:
                    res = r
                    break
            if res is None:
                bad.append(g.node(n).describe())
            else:
                used.update(res)
        ctx.check(not bad, f"{fk}:first-change-wins",
                  f"`{cs_txt}[{key_txt}] = ...` is not control-dependent on `{key_txt} not in {cs_txt}`: a second change "
                  "before the flush overwrites the recorded original (x: 0 -> 1 -> 2 reports deleted=[1]; a primary-key "
                  "UPDATE then looks for the wrong row)",
                  f"guarded by `{key_txt} not in {cs_txt}`" + (f" (override: {sorted(used)})" if used else ""), loc)
    return sites


@R.rule("C36-R1", floor=9, template="T-OWN/T-GUARD",
        desc="committed_state gets a new entry only in the two _modified_event functions (or a private helper only they "
             "call), only under `key not in committed_state` (first change wins; sole override: the documented "
             "flag_modified flag, passed only by flag_modified/flag_dirty); the collection original that is recorded is "
             "attr.copy(previous)")
def r1(ctx):
    ins, reb = _cs_sites(ctx)
    ctx.require(len(ins) >= 2, "fewer than two insertion sites into committed_state found")
    judged = set()
    for m, q, cs, keyexpr, st in ins:
        fk = f"{m.relpath}::{q}"
        loc = f"{m.path}:{st.lineno}"
        owners = [fk] if fk in CS_INSERTERS else transitive_owners(ctx.index, fk, CS_INSERTERS)
        ctx.check(bool(owners), f"{fk}:inserts-committed_state",
                  "an entry is put into committed_state outside the two _modified_event functions: the value recorded there "
                  "is not subject to the first-change-wins guard, so history can report a later value as the original",
                  CS_INSERTERS.get(fk, "") or f"private helper called only by {owners}", loc)
        for ok_ in owners or ():
            if ok_ in judged:
                continue
            judged.add(ok_)
            _guarded_insertions(ctx, nf(ctx, ctx.func(ok_)), ok_, "" if ok_ == fk else f" (helper {fk})")
    for fk in CS_INSERTERS:
        ctx.require(fk in judged, f"{fk} no longer inserts into committed_state")
    for m, q, node, st in reb:
        fk = f"{m.relpath}::{q}"
        ctx.check(fk in CS_REBINDERS, f"{fk}:rebinds-committed_state", "committed_state is replaced wholesale outside __init__/__setstate__",
                  CS_REBINDERS.get(fk, ""), f"{m.path}:{st.lineno}")
    # callers of the override flag
    for (fk, flag), reason in CS_OVERRIDES.items():
        callers = []
        for m in ctx.index.all_modules():
            if flag not in m.source:
                continue
            pm = m.parents()
            for c in calls_in(m.tree, into_nested=True):
                v = kw(c, flag)
                if callee_is(c, fk.rsplit(".", 1)[-1]) and v is not None and not (isinstance(v, ast.Constant) and v.value is False):
                    callers.append(f"{m.relpath}::{qualname(pm, c)}")
        allowed = {f"{ATTR}::flag_modified", f"{ATTR}::flag_dirty"}
        ctx.check(bool(callers) and set(callers) <= allowed, f"{fk}:override:{flag}:callers",
                  f"`{flag}=True` (bypasses first-change-wins) is passed by {sorted(set(callers) - allowed)}, not only by the documented flag_modified()/flag_dirty()",
                  f"passed only by {sorted(set(callers))}: {reason}")
    # the collection original is a copy
    f = nf(ctx, ctx.func(f"{IS}._modified_event"))
    g = ctx.cfg(f)
    ctx.require(len(f.params) >= 5, "_modified_event(self, dict_, attr, previous, collection, ...) signature not understood")
    p_attr, p_prev, p_coll = f.params[2], f.params[3], f.params[4]
    stores = [(cs, k, st) for (cs, k, st, _n) in _sites_in(f.node)[0] if isinstance(st, ast.Assign)]
    ctx.require(len(stores) == 1, "_modified_event: expected exactly one `committed_state[key] = value` statement")
    st = stores[0][2]
    ctx.require(isinstance(st.value, ast.Name), "_modified_event: the recorded value is not a plain name")
    recorded = st.value.id
    store_nodes = g.nodes_for(st)
    store_atoms = {(unparse(t), p) for n in store_nodes for tt, pp in g.edge_guards(n) for t, p in _atoms(tt, pp)}
    copies, other = [], []
    handed_over = False
    for name, v, s in name_stores(f.node):
        if name != recorded:
            continue
        if isinstance(v, ast.Call) and isinstance(v.func, ast.Attribute) and v.func.attr == "copy" and dotted(v.func.value) == p_attr \
                and len(v.args) == 1 and dotted(v.args[0]) == recorded:
            copies.append(s)
        elif isinstance(v, ast.Subscript) and dotted(v.value) == f.params[1] and unparse(v.slice) == f"{p_attr}.key":
            pass  # snapshot of the value currently in the instance dict, taken when the caller passed a sentinel
        elif isinstance(v, ast.Name) and v.id == p_prev and recorded != p_prev:
            handed_over = True  # parameter of an inlined helper that received the caller's `previous`
        else:
            other.append(unparse(s))
    ctx.check((recorded == p_prev or handed_over) and not other, f"{f.key}:records-callers-previous",
              f"the value recorded in committed_state is not the caller's `{p_prev}` (reassigned by {other})",
              f"records parameter `{p_prev}` (or the instance dict's current value when a sentinel was passed)", f.loc)

    def _sentinel_test(t):
        return (isinstance(t, ast.Compare) and len(t.ops) == 1 and dotted(t.left) == recorded
                and isinstance(t.ops[0], (ast.In, ast.NotIn, ast.Is, ast.IsNot)))

    problems = []
    if not copies:
        problems.append("no `previous = attr.copy(previous)` on the collection path")
    for s in copies:
        for n in g.nodes_for(s):
            if not any(sn in g.reachable([n], edge_ok=no_exc) for sn in store_nodes):
                problems.append("the copy does not reach the store")
            for tt, pp in g.edge_guards(n):
                for t, p in _atoms(tt, pp):
                    if (unparse(t), p) in store_atoms:
                        continue
                    if isinstance(t, ast.Name) and t.id == p_coll and p:
                        continue
                    if _sentinel_test(t):
                        continue
                    problems.append(f"the copy is additionally conditioned on `{'' if p else 'not '}{unparse(t)}`")
    ctx.check(not problems, f"{f.key}:collection-original-is-a-copy",
              "; ".join(problems) + ": the recorded original aliases the live collection, so every later append/remove also changes "
              "the 'original' and history reports nothing added or deleted",
              "collection=True and a real value -> attr.copy(previous)", f.loc)


# ------------------------------------------------------------------------------------------ R2
#: `_modified_event` calls whose `previous` is not read from the instance dict, with the reason and the check applied instead
LOAD_PATH_SITES = {
    f"{ATTR}::_CollectionAttributeImpl.set_committed_value:_modified_event":
        "load of a collection that has queued pending mutations: the original is the collection just loaded from the database; "
        "checked: the call precedes the replay of the pending appends/removes",
}


def _impl_family(ctx):
    base = ctx.index.cls(f"{ATTR}::_AttributeImpl")
    m = ctx.index.module(ATTR)
    fam = [c for c in m.classes.values() if ctx.index.is_subclass(c, base)]
    ctx.require(len(fam) >= 4, f"only {len(fam)} _AttributeImpl classes found in orm/attributes.py")
    return fam


def _dict_mutation_nodes(g, dict_name: str) -> List[int]:
    out = []
    for n in g.nodes:
        st = n.stmt
        if n.kind != "stmt" or not isinstance(st, ast.stmt):
            continue
        tg = []
        if isinstance(st, ast.Assign):
            tg = st.targets
        elif isinstance(st, (ast.AugAssign, ast.AnnAssign)):
            tg = [st.target]
        elif isinstance(st, ast.Delete):
            tg = st.targets
        hit = any(isinstance(t, ast.Subscript) and dotted(t.value) == dict_name for t in tg)
        if not hit and not isinstance(st, (ast.If, ast.For, ast.While, ast.With, ast.Try)):
            for c in calls_in(st):
                if isinstance(c.func, ast.Attribute) and dotted(c.func.value) == dict_name and c.func.attr in ("pop", "update", "clear", "setdefault", "popitem", "__setitem__", "__delitem__"):
                    hit = True
        if hit:
            out.append(n.id)
    return out


def _preimage_problems(ctx, f, name: str, _depth: int = 0) -> List[str]:
    """Why local `name` of impl method `f` is NOT a value read from the instance dict before this method wrote to it."""
    fn = f.node
    params = f.params
    if len(params) < 3:
        return [f"{f.key}: signature (self, state, dict_, ...) not understood"]
    allowed_params = set(params[:3]) | {"passive"}
    dict_name = params[2]
    g = ctx.cfg(f)
    muts = _dict_mutation_nodes(g, dict_name)
    after_mut = g.reachable(muts, edge_ok=no_exc, include_starts=False) if muts else set()
    defs = [(v, s) for n, v, s in name_stores(fn) if n == name]
    if not defs:
        return [f"`{name}` is never bound in {f.qualname}"]
    out = []
    for v, s in defs:
        if v is None:
            out.append(f"`{unparse(s)[:60]}` binds `{name}` in a way that is not understood")
            continue
        if isinstance(v, ast.Name) and v.id not in params and v.id != name and _depth < 3:
            out.extend(_preimage_problems(ctx, f, v.id, _depth + 1))   # `old = previous`: judged where `previous` is read
            continue
        foreign = sorted(names_in(v) & (set(params) - allowed_params))
        if foreign:
            out.append(f"`{name} = {unparse(v)[:60]}` is computed from parameter(s) {foreign} (the incoming value), not from the instance's previous state")
            continue
        reads = False
        for x in ast.walk(v):
            if isinstance(x, ast.Subscript) and dotted(x.value) == dict_name:
                reads = True
            if isinstance(x, ast.Call) and isinstance(x.func, ast.Attribute):
                if dotted(x.func.value) == dict_name and x.func.attr == "get":
                    reads = True
                # self.get(state, dict_, ...) / self._default_value(state, dict_) / an extracted helper given the dict
                if dotted(x.func.value) == params[0] and any(dotted(a) == dict_name for a in x.args):
                    reads = True
        # not the incoming value, but not recognisably a read of the instance dict either: unknown idiom, not a violation
        ctx.require(reads, f"{f.key}: `{name} = {unparse(v)[:60]}` is not understood as a read of the instance dict `{dict_name}`")
        for n in g.nodes_for(s):
            if n in after_mut:
                out.append(f"`{name}` is read after `{dict_name}` was already modified in this method: it observes the new value")
    return out


@R.rule("C36-R2", floor=12, template="T-FLOW",
        desc="every _AttributeImpl method in orm/attributes.py that reports a change passes as `previous` a value read "
             "from the instance dict before writing to it (through fire_* parameters: at every in-family call site), or a "
             "sentinel together with collection=True; collection implementations always pass collection=True")
def r2(ctx):
    callee = ctx.func(f"{IS}._modified_event")
    ctx.require(len(callee.params) >= 5, "_modified_event signature not understood")
    i_prev, i_coll = 2, 3  # positional indices without self
    p_coll = callee.params[4]
    sent = _sentinel_names(ctx)
    coll_base = ctx.index.cls(f"{ATTR}::_CollectionAttributeImpl")
    fam = _impl_family(ctx)
    seen = 0
    for cls in sorted(fam, key=lambda c: c.name):
        is_coll = ctx.index.is_subclass(cls, coll_base)
        for mname, f in sorted(cls.methods.items()):
            calls = [c for c in calls_in(f.node) if isinstance(c.func, ast.Attribute) and c.func.attr == "_modified_event" and dotted(c.func.value) != "self"]
            for idx, c in enumerate(calls):
                seen += 1
                key = f"{f.key}:_modified_event" + (f":{idx}" if idx else "")
                loc = f"{f.module.path}:{c.lineno}"
                ctx.require(len(c.args) > i_prev, f"{key}: `previous` is not passed positionally")
                prev = c.args[i_prev]
                coll = c.args[i_coll] if len(c.args) > i_coll else kw(c, p_coll)
                coll_true = isinstance(coll, ast.Constant) and coll.value is True
                if is_coll and not coll_true:
                    ctx.violation(key, f"collection implementation {cls.name}.{mname} reports a change without collection=True: no copy of the "
                                       "loaded collection is recorded, so a removal from a loaded collection has no `deleted` history", loc)
                    continue
                d = dotted(prev) or ""
                last = d.rsplit(".", 1)[-1]
                if last in sent:
                    ctx.check(coll_true, key, f"the sentinel {last} is recorded as the original of a scalar attribute: the previous value is lost",
                              f"{last} with collection=True: _modified_event snapshots dict_[key] itself", loc)
                    continue
                if key in LOAD_PATH_SITES:
                    g = ctx.cfg(f)
                    call_nodes_ = g.nodes_containing(c)
                    replay = [n.id for n in g.nodes if n.kind == "for" and any(
                        isinstance(cc.func, ast.Attribute) and cc.func.attr in ("append_without_event", "remove_without_event") for s in n.stmt.body for cc in calls_in(s))]
                    ctx.require(replay and call_nodes_, f"{key}: pending-mutation replay loops not found")
                    w = None
                    for rn in replay:
                        w = w or g.always_preceded(rn, call_nodes_)
                    ctx.check(w is None, key, "pending appends/removes are replayed onto the loaded collection before its original is recorded: "
                                              "the queued items become part of the 'original' and are reported unchanged",
                              "recorded before the pending mutations are replayed", loc, w)
                    continue
                ctx.require(isinstance(prev, ast.Name), f"{key}: `previous` argument `{unparse(prev)}` is neither a name nor a sentinel")
                if prev.id in f.params:
                    # parameter of a fire_* hook: judged at the in-family call sites
                    pos = f.params.index(prev.id) - 1
                    sites = []
                    for c2 in fam:
                        if ctx.index.resolve_method(c2, f.name) is None or ctx.index.resolve_method(c2, f.name).key != f.key:
                            continue
                        for m2, f2 in c2.methods.items():
                            for cc in calls_in(f2.node):
                                if isinstance(cc.func, ast.Attribute) and cc.func.attr == f.name and dotted(cc.func.value) == "self" and len(cc.args) > pos:
                                    sites.append((f2, cc))
                    if not sites:
                        ctx.violation(key, f"`{prev.id}` is a parameter of {f.qualname}, which no implementation calls with a value it read beforehand: "
                                           "the incoming value is recorded as the attribute's original", loc)
                        continue
                    ctx.ok(key, f"`{prev.id}` is a parameter: judged at {len(sites)} call site(s)", nontrivial=False)
                    done = set()
                    for f2, cc in sites:
                        k2 = f"{f2.key}:{f.name}:previous-argument"
                        if k2 in done:
                            continue
                        done.add(k2)
                        a = cc.args[pos]
                        if not isinstance(a, ast.Name):
                            ctx.violation(k2, f"`{unparse(a)}` is passed as the previous value", f"{f2.module.path}:{cc.lineno}")
                            continue
                        pr = _preimage_problems(ctx, f2, a.id)
                        ctx.check(not pr, k2, "; ".join(pr) + f" -- it is recorded by {f.qualname} as the attribute's original",
                                  f"`{a.id}` is read from the instance dict before the write", f"{f2.module.path}:{cc.lineno}")
                    continue
                pr = _preimage_problems(ctx, f, prev.id)
                ctx.check(not pr, key, "; ".join(pr) + " -- it is recorded as the attribute's original value",
                          f"`{prev.id}` is read from the instance dict before the write", loc)
    ctx.require(seen >= 8, f"only {seen} _modified_event call sites found in the _AttributeImpl family")


# ------------------------------------------------------------------------------------------ R3 / R4: symbolic case tables
class _Abort(Exception):
    pass


ABSENT = "ABSENT"
CS_TOKEN = ("committed_state",)
KEY_TOKEN = ("attribute.key",)
SENTINEL_TOKENS = {"NOHIST", "NO_VALUE", "PNR"}


class _HistEval:
    """Evaluates one History.from_* classmethod on concrete abstract tokens (a decision table, no values)."""

    def __init__(self, fn: ast.FunctionDef, module, sent: Dict[str, str], committed: str):
        self.fn = fn
        self.module = module
        self.sent = dict(sent)
        self.sent["_NO_HISTORY"] = "NOHIST"
        self.committed = committed
        self.idsets: Dict[str, set] = {}
        for name, vals in module.assigns.items():
            for v in vals:
                if isinstance(v, ast.Call) and dotted(v.func) in ("frozenset", "set") and len(v.args) == 1 and isinstance(v.args[0], (ast.List, ast.Tuple, ast.Set)):
                    toks = set()
                    for e in v.args[0].elts:
                        if isinstance(e, ast.Call) and dotted(e.func) == "id" and len(e.args) == 1 and (dotted(e.args[0]) or "").rsplit(".", 1)[-1] in self.sent:
                            toks.add(self.sent[dotted(e.args[0]).rsplit(".", 1)[-1]])
                        else:
                            toks = None
                            break
                    if toks:
                        self.idsets[name] = toks

    # -- expressions
    def ev(self, e, env):
        if isinstance(e, ast.Constant):
            if e.value is None:
                return "NONE"
            if isinstance(e.value, bool):
                return e.value
            raise _Abort(f"constant {e.value!r}")
        if isinstance(e, ast.Name):
            if e.id in env:
                if isinstance(env[e.id], tuple) and env[e.id][0] == "unknown":
                    raise _Abort(f"`{e.id}` (bound to something not understood: {env[e.id][1]})")
                return env[e.id]
            if e.id in self.sent:
                return self.sent[e.id]
            if e.id in self.idsets:
                return ("idset", frozenset(self.idsets[e.id]))
            raise _Abort(f"name `{e.id}`")
        if isinstance(e, ast.Attribute):
            d = dotted(e) or ""
            if d.rsplit(".", 1)[-1] in self.sent and d.split(".")[0] not in env:
                return self.sent[d.rsplit(".", 1)[-1]]
            # `<state>.committed_state` / `<attribute>.key` of the opaque parameters (also reached through a local alias)
            try:
                base = self.ev(e.value, env)
            except _Abort:
                base = None
            if isinstance(base, tuple) and base[0] == "opaque":
                if e.attr == "committed_state":
                    return CS_TOKEN
                if e.attr == "key":
                    return KEY_TOKEN
            raise _Abort(f"attribute `{unparse(e)}`")
        if isinstance(e, ast.Subscript):
            # committed_state[attribute.key]: only meaningful where the entry exists
            if self.ev(e.value, env) == CS_TOKEN and self.ev(e.slice, env) == KEY_TOKEN:
                if self.committed == ABSENT:
                    raise _Abort(f"`{unparse(e)}` is evaluated although the key is absent (KeyError)")
                return self.committed
            raise _Abort(f"subscript `{unparse(e)[:60]}`")
        if isinstance(e, (ast.Tuple, ast.List)):
            vals = [self.ev(x, env) for x in e.elts]
            if not all(isinstance(v, str) for v in vals):
                raise _Abort(f"display `{unparse(e)}`")
            return ("list", tuple(vals))
        if isinstance(e, ast.ListComp):
            return ("comp", e)
        if isinstance(e, ast.UnaryOp) and isinstance(e.op, ast.Not):
            return not self.truth(self.ev(e.operand, env))
        if isinstance(e, ast.BoolOp):
            res = None
            for v in e.values:
                res = self.truth(self.ev(v, env))
                if isinstance(e.op, ast.And) and not res:
                    return False
                if isinstance(e.op, ast.Or) and res:
                    return True
            return res
        if isinstance(e, ast.IfExp):
            return self.ev(e.body if self.truth(self.ev(e.test, env)) else e.orelse, env)
        if isinstance(e, ast.Compare) and len(e.ops) == 1:
            a, b, op = self.ev(e.left, env), self.ev(e.comparators[0], env), e.ops[0]
            if isinstance(op, (ast.Is, ast.IsNot)):
                same = (a is b) if isinstance(a, bool) or isinstance(b, bool) else (isinstance(a, str) and isinstance(b, str) and a == b)
                if not (isinstance(a, (str, bool)) and isinstance(b, (str, bool))):
                    raise _Abort(f"identity test `{unparse(e)}`")
                return same if isinstance(op, ast.Is) else not same
            if isinstance(op, (ast.In, ast.NotIn)):
                if isinstance(a, tuple) and a[0] == "id" and isinstance(b, tuple) and b[0] == "idset":
                    r = a[1] in b[1]
                elif a == KEY_TOKEN and b == CS_TOKEN:
                    r = self.committed != ABSENT
                elif isinstance(a, str) and isinstance(b, tuple) and b[0] == "list":
                    r = a in b[1]
                else:
                    raise _Abort(f"membership test `{unparse(e)}`")
                return r if isinstance(op, ast.In) else not r
            if isinstance(op, (ast.Eq, ast.NotEq)) and isinstance(a, str) and isinstance(b, str):
                r = self.equal(a, b)
                return r if isinstance(op, ast.Eq) else not r
            raise _Abort(f"comparison `{unparse(e)}`")
        if isinstance(e, ast.Call):
            fnm = dotted(e.func) or ""
            if fnm == "id" and len(e.args) == 1:
                v = self.ev(e.args[0], env)
                if isinstance(v, str):
                    return ("id", v)
            if isinstance(e.func, ast.Attribute) and e.func.attr == "get" and len(e.args) in (1, 2) and not e.keywords:
                try:
                    recv = self.ev(e.func.value, env)
                except _Abort:
                    recv = None
                if recv == CS_TOKEN:
                    if self.ev(e.args[0], env) != KEY_TOKEN:
                        raise _Abort(f"committed_state lookup by `{unparse(e.args[0])}`")
                    if self.committed != ABSENT:
                        return self.committed
                    return self.ev(e.args[1], env) if len(e.args) == 2 else "NONE"
            if isinstance(e.func, ast.Attribute) and e.func.attr == "is_equal" and len(e.args) == 2:
                a, b = self.ev(e.args[0], env), self.ev(e.args[1], env)
                if isinstance(a, str) and isinstance(b, str):
                    return self.equal(a, b)
            if fnm in ("cls", "History") and len(e.args) == 3:
                parts = [self.ev(x, env) for x in e.args]
                if all(isinstance(p, tuple) and p[0] in ("list", "all", "comp") for p in parts):
                    return ("hist", parts)
            if fnm == "getattr" and len(e.args) == 2 and isinstance(e.args[1], ast.Constant) and e.args[1].value == "_sa_adapter":
                return self.ev(e.args[0], env)
            if fnm == "list" and len(e.args) == 1:
                v = self.ev(e.args[0], env)
                if isinstance(v, str) and v.startswith("COLL"):
                    return ("all", v)
            if fnm in ("dict", "set", "frozenset") and len(e.args) == 1:
                v = self.ev(e.args[0], env)
                if isinstance(v, tuple) and v[0] in ("comp", "keys"):
                    return ("keys", v[1])
            raise _Abort(f"call `{unparse(e)[:70]}`")
        raise _Abort(f"expression `{unparse(e)[:70]}`")

    @staticmethod
    def truth(v):
        if isinstance(v, bool):
            return v
        raise _Abort("a non-boolean is used as a condition")

    @staticmethod
    def equal(a, b):
        return a == b and a not in SENTINEL_TOKENS and not a.startswith("COLL")

    # -- statements
    def run(self, env):
        return self.block(self.fn.body, dict(env))

    def block(self, body, env):
        for st in body:
            if isinstance(st, ast.Expr) and isinstance(st.value, ast.Constant):
                continue
            if isinstance(st, (ast.Pass, ast.Assert)):
                continue
            if isinstance(st, ast.Expr) and isinstance(st.value, ast.Call):
                continue  # a bare call (logging, ...) does not change the abstract inputs
            if isinstance(st, ast.AnnAssign) and st.value is None:
                continue
            if isinstance(st, (ast.Assign, ast.AnnAssign)):
                tg = st.targets[0] if isinstance(st, ast.Assign) and len(st.targets) == 1 else getattr(st, "target", None)
                if isinstance(tg, ast.Name):
                    try:
                        env[tg.id] = self.ev(st.value, env)
                    except _Abort as a:
                        env[tg.id] = ("unknown", str(a))  # only an error if the name is used in a decision / result
                    continue
            if isinstance(st, ast.If):
                r = self.block(st.body if self.truth(self.ev(st.test, env)) else st.orelse, env)
                if r is not None:
                    return r
                continue
            if isinstance(st, ast.Return) and st.value is not None:
                v = self.ev(st.value, env)
                if isinstance(v, tuple) and v[0] == "hist":
                    return (v[1], env)
                raise _Abort(f"return value `{unparse(st.value)[:60]}`")
            raise _Abort(f"statement `{unparse(st)[:60]}`")
        return None


def _run_table(ctx, f, committed, current, sent, extra_env=None):
    fn = f.node
    env = {}
    params = [a.arg for a in fn.args.args]
    ctx.require(len(params) >= 4, f"{f.key}: signature (cls, attribute, state, current, ...) not understood")
    for p in params[:3]:
        env[p] = ("opaque", p)
    env[params[3]] = current
    ev = _HistEval(fn, f.module, sent, committed)
    dflt = func_defaults(fn)
    for p in params[4:]:
        ctx.require(p in dflt, f"{f.key}: parameter {p} has no default")
        env[p] = ev.ev(dflt[p], env)
    if extra_env:
        env.update(extra_env)
    try:
        res = ev.run(env)
    except _Abort as a:
        ctx.error(f"{f.key}: idiom not understood while evaluating the case table: {a}")
    return res


def _judge_scalar(o: str, c: str, A, U, D) -> List[str]:
    real = ("V1", "V2")
    out = []
    leaked = [x for x in A + U + D if x in SENTINEL_TOKENS]
    if leaked:
        out.append(f"the sentinel {leaked[0]} is reported as an attribute value (it would be bound as a statement parameter)")
    if set(A) & set(D):
        out.append("a value is reported both added and deleted")
    if o == "NOHIST":
        if A or D:
            out.append("no change was recorded, yet the history reports added/deleted values (a spurious UPDATE)")
        if c != "NO_VALUE" and U != [c]:
            out.append("the loaded, unmodified value is not reported as unchanged")
        if c == "NO_VALUE" and U:
            out.append("an attribute without a value reports an unchanged value")
    elif _HistEval.equal(o, c):
        if A or D:
            out.append("the value was set back to its original, yet a change is reported")
        if U != [c]:
            out.append("the value set back to its original is not reported as unchanged")
    else:
        if c != "NO_VALUE":
            if A != [c]:
                out.append("the new value is not reported as added (the UPDATE does not carry it)")
        elif any(x != "NONE" for x in A):
            out.append("a deleted attribute reports an added value")
        if U:
            out.append("a changed attribute reports an unchanged value")
        if o in real and D != [o]:
            out.append("the replaced value is not reported as deleted (a primary-key UPDATE cannot locate its row; the old parent is not processed)")
        if any(x != o for x in D):
            out.append("`deleted` holds something other than the recorded original")
    return out


def _tokens(part):
    return list(part[1]) if part[0] == "list" else None


@R.rule("C36-R3", floor=40, template="T-BOOL",
        desc="History.from_scalar_attribute / from_object_attribute, evaluated as decision tables over original in "
             "{no history, NO_VALUE, PASSIVE_NO_RESULT, None, v} x current in {NO_VALUE, None, v, w}: every case returns a "
             "History; the current value is reported exactly once; no history or set-back-to-original => no change; a "
             "replaced value is in `deleted`, the new one in `added`; no sentinel is ever reported")
def r3(ctx):
    sent = _sentinel_names(ctx)
    for name in ("from_scalar_attribute", "from_object_attribute"):
        f = ctx.func(f"{ATTR}::History.{name}")
        for committed, cur in itertools.product((ABSENT, "NO_VALUE", "PNR", "NONE", "V1"), ("NO_VALUE", "NONE", "V1", "V2")):
            o = "NOHIST" if committed == ABSENT else committed
            key = f"{f.key}:[original={o},current={cur}]"
            res = _run_table(ctx, f, committed, cur, sent)
            if res is None:
                ctx.violation(key, "no History is returned for this case (the function falls off its end)", f.loc)
                continue
            parts, _ = res
            lists = [_tokens(p) for p in parts]
            ctx.require(all(x is not None for x in lists), f"{key}: a History member is not a display of values")
            A, U, D = lists
            pr = _judge_scalar(o, cur, A, U, D)
            ctx.check(not pr, key, f"History(added={A}, unchanged={U}, deleted={D}): " + "; ".join(pr),
                      f"added={A} unchanged={U} deleted={D}", f.loc)


# ---- collections
EXPECTED_PARTITION = {
    "added": (False, False, True),      # iterate current, keep those NOT IN original
    "unchanged": (False, True, True),   # iterate current, keep those IN original
    "deleted": (True, False, False),    # iterate original, keep those NOT IN current
}


def _single_defs(fn) -> Dict[str, List[ast.expr]]:
    out: Dict[str, List[ast.expr]] = {}
    for n, v, s in name_stores(fn):
        out.setdefault(n, []).append(v)
    return out


def _original_roots(defs) -> set:
    return {n for n, vs in defs.items() if any(v is not None and "committed_state" in unparse(v) for v in vs)}


def _pairs_of(expr, defs):
    """(root name, normalised key expression) of `[(KEY(c), c) for c in ROOT]` reached from `expr`."""
    if isinstance(expr, ast.Name):
        vs = [v for v in defs.get(expr.id, []) if v is not None]
        if len(vs) != 1:
            raise _Abort(f"`{expr.id}` has {len(vs)} definitions")
        expr = vs[0]
    if not (isinstance(expr, ast.ListComp) and len(expr.generators) == 1 and not expr.generators[0].ifs
            and isinstance(expr.generators[0].target, ast.Name) and isinstance(expr.generators[0].iter, ast.Name)
            and isinstance(expr.elt, ast.Tuple) and len(expr.elt.elts) == 2 and isinstance(expr.elt.elts[1], ast.Name)
            and expr.elt.elts[1].id == expr.generators[0].target.id):
        raise _Abort(f"not a `[(key(c), c) for c in <collection>]` list: {unparse(expr)[:60]}")
    var = expr.generators[0].target.id

    class _Ren(ast.NodeTransformer):
        def visit_Name(self, n):
            return ast.copy_location(ast.Name(id="_" if n.id == var else n.id, ctx=n.ctx), n)

    import copy
    keytxt = unparse(_Ren().visit(copy.deepcopy(expr.elt.elts[0])))
    return expr.generators[0].iter.id, keytxt


def _keys_of(expr, defs):
    if isinstance(expr, ast.Name):
        vs = [v for v in defs.get(expr.id, []) if v is not None]
        if len(vs) != 1:
            raise _Abort(f"`{expr.id}` has {len(vs)} definitions")
        expr = vs[0]
    wrapped = False
    while isinstance(expr, ast.Call) and dotted(expr.func) in ("dict", "set", "frozenset") and len(expr.args) == 1:
        expr, wrapped = expr.args[0], True
    if wrapped:
        return _pairs_of(expr, defs)
    raise _Abort(f"not a key set built from a pair list: {unparse(expr)[:60]}")


def _filter_of(comp, defs, originals, want_pair: bool):
    """(iterates original?, keeps members?, tests against original?, key text of both sides)."""
    if not (isinstance(comp, ast.ListComp) and len(comp.generators) == 1 and len(comp.generators[0].ifs) == 1):
        raise _Abort(f"not a filtered comprehension: {unparse(comp)[:60]}")
    gen = comp.generators[0]
    if not (isinstance(gen.target, ast.Tuple) and len(gen.target.elts) == 2 and all(isinstance(x, ast.Name) for x in gen.target.elts)):
        raise _Abort(f"comprehension target is not `(state, obj)`: {unparse(gen.target)}")
    s_var, o_var = gen.target.elts[0].id, gen.target.elts[1].id
    if want_pair:
        ok = isinstance(comp.elt, ast.Tuple) and [dotted(x) for x in comp.elt.elts] == [s_var, o_var]
    else:
        ok = isinstance(comp.elt, ast.Name) and comp.elt.id == o_var
    if not ok:
        raise _Abort(f"comprehension yields `{unparse(comp.elt)}`")
    root, k1 = _pairs_of(gen.iter, defs)
    t = gen.ifs[0]
    if not (isinstance(t, ast.Compare) and len(t.ops) == 1 and isinstance(t.ops[0], (ast.In, ast.NotIn)) and dotted(t.left) == s_var):
        raise _Abort(f"filter is not a membership test on the key: {unparse(t)}")
    root2, k2 = _keys_of(t.comparators[0], defs)
    return (root in originals, isinstance(t.ops[0], ast.In), root2 in originals), (k1, k2)


def _partition_problems(triples) -> List[str]:
    out = []
    for (name, want), got in zip(EXPECTED_PARTITION.items(), triples):
        if got != want:
            side = lambda b: "original" if b else "current"  # noqa: E731
            out.append(f"`{name}` is computed as members of {side(got[0])} that are {'in' if got[1] else 'not in'} {side(got[2])} "
                       f"(net change requires members of {side(want[0])} {'in' if want[1] else 'not in'} {side(want[2])})")
    return out


@R.rule("C36-R4", floor=10, template="T-TABLE/T-SIBLING",
        desc="History.from_collection: no history => everything unchanged, no previous collection => everything added, "
             "otherwise added/unchanged/deleted = current-original / current&original / original-current under one key "
             "function; _CollectionAttributeImpl.get_all_pending inlines the same partition; PendingCollection.append "
             "and .remove cancel against the opposite set")
def r4(ctx):
    sent = _sentinel_names(ctx)
    f = ctx.func(f"{ATTR}::History.from_collection")
    defs = _single_defs(f.node)
    originals = _original_roots(defs)
    ctx.require(originals, "from_collection: no local is read from committed_state")
    for committed, cur in itertools.product((ABSENT, "NO_VALUE", "COLL_O"), ("NO_VALUE", "COLL_C")):
        o = "NOHIST" if committed == ABSENT else committed
        key = f"{f.key}:[original={o},current={cur}]"
        res = _run_table(ctx, f, committed, cur, sent)
        if res is None:
            ctx.violation(key, "no History is returned for this case", f.loc)
            continue
        (A, U, D), _ = res
        empty = lambda p: p[0] == "list" and not p[1]  # noqa: E731
        allcur = lambda p: p == ("all", "COLL_C")  # noqa: E731
        if cur == "NO_VALUE":
            ctx.check(empty(A) and empty(U) and empty(D), key, "an attribute without a collection reports members", "blank history", f.loc)
        elif o == "NOHIST":
            ctx.check(empty(A) and allcur(U) and empty(D), key,
                      "no change was recorded for the collection, yet its members are not reported as (all) unchanged: a flush would "
                      "re-insert or orphan rows of an untouched collection", "((), all current, ())", f.loc)
        elif o == "NO_VALUE":
            ctx.check(allcur(A) and empty(U) and empty(D), key,
                      "the attribute had no collection before the change, yet its present members are not (all) reported as added",
                      "(all current, (), ())", f.loc)
        else:
            try:
                ctx.require(all(p[0] == "comp" for p in (A, U, D)), f"{key}: members are not comprehensions")
                got = [_filter_of(p[1], defs, originals, want_pair=False) for p in (A, U, D)]
            except _Abort as a:
                ctx.error(f"{f.key}: partition idiom not understood: {a}")
            pr = _partition_problems([g[0] for g in got])
            ctx.check(not pr, key, "; ".join(pr) + " -- e.g. flipping `deleted` reports the members that remain as removed: the flush nulls their "
                                                  "foreign keys / deletes them as orphans", "added=cur-orig, unchanged=cur&orig, deleted=orig-cur", f.loc)
            keys = {k for g in got for k in g[1]}
            ctx.check(len(keys) == 1, f"{f.key}:one-key-function", f"current and original members are keyed differently: {sorted(keys)} "
                                                                   "(every member would be both added and deleted)", f"key: {sorted(keys)[0]}", f.loc)
    # sibling: get_all_pending
    gp = ctx.func(f"{ATTR}::_CollectionAttributeImpl.get_all_pending")
    gdefs = _single_defs(gp.node)
    gorig = _original_roots(gdefs)
    chains = []
    for r_ in [n for n in walk_local(gp.node) if isinstance(n, ast.Return) and n.value is not None]:
        parts, cur_ = [], r_.value
        while isinstance(cur_, ast.BinOp) and isinstance(cur_.op, ast.Add):
            parts.insert(0, cur_.right)
            cur_ = cur_.left
        parts.insert(0, cur_)
        if len(parts) == 3 and all(isinstance(p, ast.ListComp) for p in parts):
            chains.append(parts)
    ctx.require(len(chains) == 1 and gorig, "get_all_pending: the `added + unchanged + deleted` return is not found")
    try:
        got = [_filter_of(p, gdefs, gorig, want_pair=True) for p in chains[0]]
    except _Abort as a:
        ctx.error(f"{gp.key}: partition idiom not understood: {a}")
    pr = _partition_problems([g[0] for g in got])
    ctx.check(not pr and len({k for g in got for k in g[1]}) == 1, f"{gp.key}:same-partition-as-History.from_collection",
              "; ".join(pr) or "members keyed differently", "cur-orig + cur&orig + orig-cur", gp.loc)
    # PendingCollection: append / remove are mirror images
    pc = ctx.index.cls(f"{STATE}::PendingCollection")
    shape = {}
    for mname in ("append", "remove"):
        m = pc.methods.get(mname)
        ctx.require(m is not None and len(m.params) == 2, f"PendingCollection.{mname}(self, value) not found")
        v = m.params[1]
        ifs = [s for s in m.node.body if isinstance(s, ast.If)]
        ctx.require(len(ifs) == 1 and len([s for s in m.node.body if not (isinstance(s, ast.Expr) and isinstance(s.value, ast.Constant))]) == 1,
                    f"PendingCollection.{mname}: not a single if/else")
        t = ifs[0].test
        ctx.require(isinstance(t, ast.Compare) and len(t.ops) == 1 and isinstance(t.ops[0], ast.In) and dotted(t.left) == v, f"PendingCollection.{mname}: test not understood")
        tested = dotted(t.comparators[0])

        def _one(body):
            cs = [c for s in body for c in calls_in(s)]
            if len(cs) == 1 and isinstance(cs[0].func, ast.Attribute) and len(cs[0].args) == 1 and dotted(cs[0].args[0]) == v:
                return dotted(cs[0].func.value), cs[0].func.attr
            return None, None
        shape[mname] = (tested, _one(ifs[0].body), _one(ifs[0].orelse))
    for mname, mine, other in (("append", "added_items", "deleted_items"), ("remove", "deleted_items", "added_items")):
        tested, (r1_, m1), (r2_, m2) = shape[mname]
        good = tested == f"self.{other}" and r1_ == f"self.{other}" and m1 in ("remove", "discard") and r2_ == f"self.{mine}" and m2 == "add"
        ctx.check(good, f"{pc.key}.{mname}:cancels-opposite",
                  f"PendingCollection.{mname} does not cancel a queued opposite operation (expected: value in {other} -> {other}.remove(value), else {mine}.add(value)): "
                  "an item removed from and re-appended to an unloaded collection ends up both added and deleted",
                  f"in {other} -> remove there, else add to {mine}", pc.methods[mname].loc)


# ------------------------------------------------------------------------------------------ R5
@R.rule("C36-R5", floor=5, template="T-PATH",
        desc="history is reset by flush and load: _commit_all_states clears committed_state for every state "
             "unconditionally, _commit pops every given key unconditionally, both set_committed_value implementations "
             "commit the key they store, and Session._register_persistent hands the flushed states to _commit_all_states")
def r5(ctx):
    # _commit_all_states
    f = ctx.func(f"{IS}._commit_all_states")
    g = ctx.cfg(f)
    loops = [n for n in g.nodes if n.kind == "for" and isinstance(n.stmt.iter, ast.Name) and n.stmt.iter.id in f.params]
    ctx.require(len(loops) == 1 and isinstance(loops[0].stmt.target, ast.Tuple), "_commit_all_states: loop over the (state, dict) pairs not found")
    subj = dotted(loops[0].stmt.target.elts[0])
    al = {n for n, v in _cs_aliases(f.node).items() if dotted(v) == f"{subj}.committed_state"}   # `cs = state.committed_state`
    clears = call_nodes(g, lambda c: callee_is(c, f"{subj}.committed_state.clear")
                        or (isinstance(c.func, ast.Attribute) and c.func.attr == "clear" and isinstance(c.func.value, ast.Name) and c.func.value.id in al))
    w = g.must_pass([loops[0].id], [loops[0].id, g.exit], clears, edge_ok=no_exc, start_edge_ok=lambda a, b, l: l == "true")
    ctx.check(bool(clears) and w is None, f"{f.key}:clears-committed_state",
              "an iteration over the flushed states can finish without state.committed_state.clear(): the state keeps its history and the next "
              "flush re-emits the same UPDATE / collection changes", "state.committed_state.clear() for every flushed state", f.loc, w)
    # _commit
    f = ctx.func(f"{IS}._commit")
    g = ctx.cfg(f)
    keys_p = f.params[2]
    floops = [n for n in g.nodes if n.kind == "for" and dotted(n.stmt.iter) == keys_p and isinstance(n.stmt.target, ast.Name)]
    good, w = False, None
    for n in floops:
        kv = n.stmt.target.id
        al = {n_ for n_, v in _cs_aliases(f.node).items() if dotted(v) == "self.committed_state"}
        pops = call_nodes(g, lambda c: (callee_is(c, "self.committed_state.pop") or (isinstance(c.func, ast.Attribute) and c.func.attr == "pop" and isinstance(c.func.value, ast.Name)
                                                                                     and c.func.value.id in al)) and bool(c.args) and dotted(c.args[0]) == kv)
        if pops:
            w = g.must_pass([n.id], [n.id, g.exit], pops, edge_ok=no_exc, start_edge_ok=lambda a, b, l: l == "true")
            good = good or w is None
    ctx.check(good, f"{f.key}:pops-every-key", "_commit(keys) does not unconditionally drop committed_state[key] for each key: a freshly "
                                               "loaded attribute keeps a stale original and reports a change nobody made",
              "for key in keys: committed_state.pop(key, None)", f.loc, w)
    # set_committed_value
    for ck in (f"{ATTR}::_AttributeImpl", f"{ATTR}::_CollectionAttributeImpl"):
        cls = ctx.index.cls(ck)
        f = cls.methods.get("set_committed_value")
        ctx.require(f is not None, f"{ck}.set_committed_value not defined")
        g = ctx.cfg(f)
        stores = [n.id for n in g.nodes if n.kind == "stmt" and isinstance(n.stmt, ast.Assign) and any(
            isinstance(t, ast.Subscript) and unparse(t.slice) == "self.key" and (dotted(t.value) in (f.params[2], f"{f.params[1]}.dict")) for t in n.stmt.targets)]
        commits = call_nodes(g, lambda c: callee_is(c, f"{f.params[1]}._commit") and len(c.args) == 2 and dotted(c.args[0]) == f.params[2]
                             and isinstance(c.args[1], (ast.List, ast.Tuple)) and [unparse(e) for e in c.args[1].elts] == ["self.key"])
        ctx.require(stores, f"{f.key}: store of the loaded value not found")
        w = g.must_pass(stores, [g.exit], commits, edge_ok=no_exc)
        ctx.check(w is None and bool(commits), f"{f.key}:commits-what-it-stores",
                  "a value loaded from the database is stored without state._commit(dict_, [self.key]): a pending original recorded earlier "
                  "survives and the loaded value is reported as a change", "dict_[self.key] = value; state._commit(dict_, [self.key])", f.loc, w)
    # flush -> _commit_all_states
    f = ctx.func(f"{SESSION}::Session._register_persistent")
    states_p = f.params[1]
    calls = [c for c in calls_in(f.node) if callee_is(c, "_commit_all_states")]
    good = bool(calls) and all(c.args and states_p in names_in(c.args[0]) for c in calls)
    ctx.check(good, f"{f.key}:commits-flushed-states", "the states a flush made persistent are not handed to InstanceState._commit_all_states",
              f"_commit_all_states(... for state in {states_p})", f.loc)


# ------------------------------------------------------------------------------------------ R6 (str2-p)
COLL = "orm/collections.py"


def _const_true(e) -> bool:
    return isinstance(e, ast.Constant) and e.value is True


def _capture_chain(ctx):
    """How an instrumented collection reaches the committed-state capture, derived from the code:
    impl hooks of _CollectionAttributeImpl that call `_modified_event(.., collection=True)`  <-  CollectionAdapter methods
    that call `self.attr.<hook>`  <-  module functions of orm/collections.py that call `<coll>._sa_adapter.<method>`.
    Returns (impl hook names, adapter method names, module helper names)."""
    callee = ctx.func(f"{IS}._modified_event")
    ctx.require(len(callee.params) >= 5, "_modified_event signature not understood")
    p_coll = callee.params[4]
    impl = ctx.index.cls(f"{ATTR}::_CollectionAttributeImpl")
    impl_hooks = set()
    for name, f in impl.methods.items():
        for c in calls_in(f.node):
            if isinstance(c.func, ast.Attribute) and c.func.attr == "_modified_event":
                coll = c.args[3] if len(c.args) > 3 else kw(c, p_coll)
                if _const_true(coll):
                    impl_hooks.add(name)
    adapter = ctx.index.cls(f"{COLL}::CollectionAdapter")
    adapter_caps = set()
    for name, f in adapter.methods.items():
        for c in calls_in(f.node):
            if isinstance(c.func, ast.Attribute) and c.func.attr in impl_hooks and dotted(c.func.value) == f"{f.params[0]}.attr":
                adapter_caps.add(name)
                ctx.functions_analysed.add(f.key)
    m = ctx.index.module(COLL)
    helpers = set()
    for name, f in m.functions.items():
        nd = getattr(f, "node", None)
        if not isinstance(nd, ast.FunctionDef):
            continue
        env = _env_of(nd)
        for c in calls_in(nd):
            if isinstance(c.func, ast.Attribute) and c.func.attr in adapter_caps and _is_adapter(c.func.value, env):
                helpers.add(name)
                ctx.functions_analysed.add(f.key)
    ctx.require(len(impl_hooks) >= 3 and len(adapter_caps) >= 3 and len(helpers) >= 3,
                f"capture chain of instrumented collections not understood (impl hooks {sorted(impl_hooks)}, adapter {sorted(adapter_caps)}, helpers {sorted(helpers)})")
    return impl_hooks, adapter_caps, helpers


def _env_of(fn):
    from ._helpers_rob_f2 import env_of
    return env_of(fn)


def _is_adapter(e, env, depth=3) -> bool:
    """`<x>._sa_adapter`, or a local some binding of which is that"""
    if isinstance(e, ast.Attribute) and e.attr == "_sa_adapter":
        return True
    if isinstance(e, ast.Name) and depth > 0:
        return any(d is not None and _is_adapter(d, env, depth - 1) for d in env.get(e.id, []))
    return False


def _collection_wrappers(ctx):
    """[(factory FuncInfo, decorator FunctionDef | None, wrapper FunctionDef, underlying-callable parameter name)]: a function nested in
    a function of orm/collections.py that calls one of the enclosing function's parameters (the method it wraps)."""
    m = ctx.index.module(COLL)
    out = []

    def scan(outer, fac):
        params = {a.arg for a in outer.args.args}
        for st in outer.body:
            if not isinstance(st, ast.FunctionDef):
                continue
            called = [c.func.id for c in calls_in(st) if isinstance(c.func, ast.Name) and c.func.id in params
                      and c.func.id not in {a.arg for a in st.args.args}]
            if called:
                out.append((fac, outer if outer is not fac.node else None, st, called[0]))
            else:
                scan(st, fac)

    for name, f in sorted(m.functions.items()):
        nd = getattr(f, "node", None)
        if isinstance(nd, ast.FunctionDef):
            scan(nd, f)
    return out


@R.rule("C36-R6", floor=12, template="T-PATH",
        desc="the original of a collection is snapshotted before the collection changes: in every instrumentation wrapper of "
             "orm/collections.py (the list/set/dict decorator factories and _instrument_membership_mutator) no path runs the "
             "wrapped, mutating method first and a capture hook (a helper that reaches CollectionAdapter.fire_*_event -> "
             "_CollectionAttributeImpl.fire_*_event -> _modified_event(collection=True), which copies the LIVE collection) only "
             "afterwards -- the pop family captures through the pre-remove hook before the call")
def r6(ctx):
    from ._helpers_rob_f2 import by_name, inline_local_calls
    impl_hooks, adapter_caps, helpers = _capture_chain(ctx)
    m = ctx.index.module(COLL)
    adapter = ctx.index.cls(f"{COLL}::CollectionAdapter")
    # names that can be the target of `getattr(adapter, <hook name>)`: string constants of the module that name a capture method
    dyn_names = sorted({n.value for n in ast.walk(m.tree) if isinstance(n, ast.Constant) and isinstance(n.value, str) and n.value in adapter_caps})
    wrappers = _collection_wrappers(ctx)
    ctx.require(len(wrappers) >= 12, f"only {len(wrappers)} instrumentation wrappers found in orm/collections.py")
    keep = ctx.__dict__.setdefault("_c36_wrappers", [])
    mod_helpers = {k: fi.node for k, fi in m.functions.items() if isinstance(getattr(fi, "node", None), ast.FunctionDef)
                   and k not in helpers and any(isinstance(c.func, ast.Name) and c.func.id in helpers for c in calls_in(fi.node))}
    n_inst = 0
    for fac, deco, w, under in wrappers:
        ctx.functions_analysed.add(fac.key)
        siblings = {st.name for st in fac.node.body if isinstance(st, ast.FunctionDef)}
        closures = {st.name: st for st in fac.node.body if isinstance(st, ast.FunctionDef)
                    and not any(isinstance(x, ast.FunctionDef) for x in st.body)}
        closures.pop(w.name, None)

        def table(nm, closures=closures):
            return closures.get(nm) or mod_helpers.get(nm)

        wi, _n = inline_local_calls(w, by_name(table))
        keep.append(wi)
        env = _env_of(wi)
        self_p = wi.args.args[0].arg if wi.args.args else None
        g = ctx.cfg(wi)

        def kind(call):
            fn_ = call.func
            if isinstance(fn_, ast.Name):
                if fn_.id == under:
                    return "U"
                if fn_.id in helpers:
                    return "K"
            if isinstance(fn_, ast.Attribute):
                if fn_.attr in adapter_caps and _is_adapter(fn_.value, env):
                    return "K"
                # an instrumented sibling applied to the same collection captures before it mutates
                if self_p and isinstance(fn_.value, ast.Name) and fn_.value.id == self_p and deco is not None and fn_.attr in siblings:
                    return "K"
            if isinstance(fn_, ast.Call) and isinstance(fn_.func, ast.Name) and fn_.func.id == "getattr" and len(fn_.args) >= 2 \
                    and _is_adapter(fn_.args[0], env):
                a1 = fn_.args[1]
                if isinstance(a1, ast.Constant):
                    return "K" if a1.value in adapter_caps else None
                return "K" if dyn_names else None
            return None

        U, K = set(), set()
        for n in g.nodes:
            st = n.stmt
            if st is None or not isinstance(st, ast.stmt) or n.kind not in ("stmt", "test", "for"):
                continue
            from ..astutil import own_exprs
            for part in own_exprs(st):
                for c in calls_in(part):
                    k = kind(c)
                    if k == "U":
                        U.add(n.id)
                    elif k == "K":
                        K.add(n.id)
                # `self[k] = v` / `del self[k]` delegate to the instrumented __setitem__ / __delitem__
                if deco is not None and self_p and isinstance(st, (ast.Assign, ast.Delete, ast.AugAssign)):
                    tg = st.targets if not isinstance(st, ast.AugAssign) else [st.target]
                    if any(isinstance(t, ast.Subscript) and isinstance(t.value, ast.Name) and t.value.id == self_p for t in tg):
                        K.add(n.id)
        if not U or not K:
            continue
        n_inst += 1
        qual = f"{fac.name}.{deco.name}" if deco is not None else f"{fac.name}.{w.name}"
        key = f"{COLL}::{qual}:snapshot-before-mutation"
        loc = f"{m.path}:{w.lineno}"
        U_only = U - K   # a statement that captures and calls evaluates the capture (an argument) first
        unguarded = sorted(U_only & g.reachable([g.entry], avoid=sorted(K), edge_ok=no_exc))
        wit = g.witness(unguarded, sorted(K), edge_ok=no_exc) if unguarded else None
        ctx.check(wit is None, key,
                  f"the wrapped method `{under}(...)` can mutate the collection before any hook that records its original, and a capture hook "
                  f"({', '.join(sorted(helpers | set(dyn_names)))} -> ... -> _modified_event(collection=True)) runs only afterwards: when this is the first "
                  "change since load/flush, the ALREADY MUTATED collection is copied into committed_state, so history reports no deleted/added member and "
                  "the flush persists nothing for it",
                  f"every path to `{under}(...)` that is followed by a capture hook has passed a capture hook before", loc,
                  g.describe_path(wit) if wit else None)
    ctx.require(n_inst >= 1, "no instrumentation wrapper with an underlying call and a capture hook found")


# ------------------------------------------------------------------------------------------ R7 (str2-p)
def _flag_table(ctx) -> Dict[str, int]:
    """{name: int} of orm/base.py::PassiveFlag, composites evaluated."""
    cls = ctx.index.cls(f"{BASE}::PassiveFlag")
    tab: Dict[str, int] = {}
    for st in cls.node.body:
        if isinstance(st, ast.Assign) and len(st.targets) == 1 and isinstance(st.targets[0], ast.Name):
            must, may = _flag_eval(st.value, tab, {})
            ctx.require(must == may, f"PassiveFlag.{st.targets[0].id} is not a constant expression")
            tab[st.targets[0].id] = must
    ctx.require("LOAD_AGAINST_COMMITTED" in tab and "CALLABLES_OK" in tab and len(tab) >= 10, "orm/base.py::PassiveFlag members not understood")
    return tab


_ALL = (1 << 16) - 1


def _flag_eval(e, tab, env, depth=4):
    """(bits surely set, bits possibly set) of a PassiveFlag expression; unknown names may be anything."""
    if isinstance(e, ast.Constant) and isinstance(e.value, int):
        return e.value, e.value
    if isinstance(e, (ast.Name, ast.Attribute)):
        nm = e.id if isinstance(e, ast.Name) else e.attr
        if isinstance(e, ast.Name) and depth > 0 and len(env.get(nm, [])) == 1 and env[nm][0] is not None:
            return _flag_eval(env[nm][0], tab, env, depth - 1)
        if nm in tab and not (isinstance(e, ast.Name) and nm in env):
            return tab[nm], tab[nm]
        return 0, _ALL
    if isinstance(e, ast.BinOp):
        (ma, ya), (mb, yb) = _flag_eval(e.left, tab, env, depth), _flag_eval(e.right, tab, env, depth)
        if isinstance(e.op, ast.BitOr):
            return ma | mb, ya | yb
        if isinstance(e.op, ast.BitAnd):
            return ma & mb, ya & yb
        if isinstance(e.op, ast.BitXor):
            return (ma & ~yb) | (mb & ~ya), (ya | yb) & ~(ma & mb)
    if isinstance(e, ast.UnaryOp) and isinstance(e.op, ast.Invert):
        ma, ya = _flag_eval(e.operand, tab, env, depth)
        return _ALL & ~ya, _ALL & ~ma
    if isinstance(e, ast.IfExp):
        (ma, ya), (mb, yb) = _flag_eval(e.body, tab, env, depth), _flag_eval(e.orelse, tab, env, depth)
        return ma & mb, ya | yb
    return 0, _ALL


#: loader entry points of an attribute implementation: method name -> (positional index of `passive` without self, keyword)
LOADER_CALLS = {"get": (2, "passive"), "_fire_loader_callables": (2, "passive")}


@R.rule("C36-R7", floor=4, template="T-SIBLING/T-FLOW",
        desc="the original value of a reference to other mapped objects (uses_objects implementations) that is obtained through a loader "
             "callable -- self.get(.., passive) / self._fire_loader_callables(.., passive) with CALLABLES_OK -- and then recorded as the "
             "attribute's original (handed to _modified_event as `previous`, directly or through a fire_* hook, or to "
             "History.from_object_attribute as `original`) is loaded with LOAD_AGAINST_COMMITTED: the committed value is the object the "
             "COMMITTED foreign/primary key points to, not the one a pending, unflushed key change points to")
def r7(ctx):
    from ._helpers_rob_f2 import dominating_guards, atoms as _f2_atoms
    tab = _flag_table(ctx)
    LAC, CALLABLES = tab["LOAD_AGAINST_COMMITTED"], tab["CALLABLES_OK"]
    fam = _impl_family(ctx)
    # hooks whose parameter is recorded as `previous`: {method name: positional index (without self)}
    hooks: Dict[str, int] = {}
    for cls in fam:
        for mname, f in cls.methods.items():
            for c in calls_in(f.node):
                if isinstance(c.func, ast.Attribute) and c.func.attr == "_modified_event" and len(c.args) > 2 \
                        and isinstance(c.args[2], ast.Name) and c.args[2].id in f.params[1:]:
                    hooks[mname] = f.params.index(c.args[2].id) - 1
    n_inst = 0
    for cls in sorted(fam, key=lambda c: c.name):
        owner, vals = ctx.index.class_attr_nodes(cls, "uses_objects")
        if not (vals and all(_const_true(v) for v in vals)):
            continue
        for mname, f in sorted(cls.methods.items()):
            if f.type_only or f.is_overload:
                continue
            # private helpers of the implementation are read as part of the method (an extracted `self._previous(state, dict_)`)
            f = nf(ctx, f, keep=tuple(LOADER_CALLS) + tuple(hooks) + ("_modified_event",), alias=None)
            self_p = f.params[0] if f.params else "self"
            recorded = set()
            for c in calls_in(f.node):
                fn_ = c.func
                if not isinstance(fn_, ast.Attribute):
                    continue
                if fn_.attr == "_modified_event" and len(c.args) > 2 and isinstance(c.args[2], ast.Name):
                    recorded.add(c.args[2].id)
                elif fn_.attr in hooks and dotted(fn_.value) == self_p and len(c.args) > hooks[fn_.attr] and isinstance(c.args[hooks[fn_.attr]], ast.Name):
                    recorded.add(c.args[hooks[fn_.attr]].id)
                elif fn_.attr.startswith("from_") and fn_.attr.endswith("_attribute"):
                    v = kw(c, "original")
                    if isinstance(v, ast.Name):
                        recorded.add(v.id)
            if not recorded:
                continue
            env = _env_of(f.node)
            # `old = previous`: the recorded local may be a copy of the local the fetch was bound to
            for _ in range(3):
                recorded |= {d.id for nme in list(recorded) for d in env.get(nme, []) if isinstance(d, ast.Name) and d.id not in f.params}
            g = ctx.cfg(f)
            pm = f.pm if hasattr(f, "pm") else f.module.parents()
            menv = {k: v for k, v in f.module.assigns.items() if k not in env}
            fetches = []
            for name, v, s in name_stores(f.node):
                if name not in recorded or not isinstance(v, ast.Call) or not isinstance(v.func, ast.Attribute):
                    continue
                if v.func.attr not in LOADER_CALLS or dotted(v.func.value) != self_p:
                    continue
                guards = frozenset(("" if p else "not ") + a for t, pol in dominating_guards(g, pm, v) for a, p in _f2_atoms(t, pol, env, expand=True))
                fetches.append((name, v, guards))
            common = frozenset.intersection(*[gs for _, _, gs in fetches]) if fetches else frozenset()
            seen_keys: Dict[str, int] = {}
            for name, v, guards in fetches:
                pos, kwn = LOADER_CALLS[v.func.attr]
                pe = v.args[pos] if len(v.args) > pos else kw(v, kwn)
                if pe is None:
                    callee = ctx.index.resolve_method(cls, v.func.attr)
                    ctx.require(callee is not None and kwn in func_defaults(callee.node), f"{f.key}: default of `{kwn}` of {v.func.attr} not found")
                    pe = func_defaults(callee.node)[kwn]
                must, may = _flag_eval(pe, tab, {**menv, **env})
                # siblings inside one method are told apart by the branch outcomes they do not share
                own = sorted(guards - common) if len(fetches) > 1 else []
                base = f"{f.key}:original-loaded-against-committed" + (f"[{' and '.join(own)}]" if own else "")
                seen_keys[base] = seen_keys.get(base, 0) + 1
                key = base if seen_keys[base] == 1 else f"{base}:{seen_keys[base] - 1}"
                n_inst += 1
                loc = f"{f.module.path}:{v.lineno}"
                if not may & CALLABLES:
                    ctx.ok(key, f"`{unparse(pe)[:80]}` never invokes a loader callable")
                    continue
                ctx.check(bool(must & LAC), key,
                          f"`{name} = {unparse(v.func)}(.., {unparse(pe)[:90]})` may invoke the relationship's loader callable WITHOUT LOAD_AGAINST_COMMITTED, and `{name}` is then "
                          "recorded as the attribute's original: with a pending, unflushed change of the foreign/primary key the loader resolves the object(s) the NEW "
                          "key points to, which never were the committed value -- history reports the wrong `deleted` members, the wrong parent's backref/collection is "
                          "updated and the flush de-associates / orphan-deletes the wrong rows",
                          f"loaded with LOAD_AGAINST_COMMITTED ({unparse(pe)[:80]})", loc)
    ctx.require(n_inst >= 1, "no loader-obtained original found in the object-reference implementations")


# ------------------------------------------------------------------------------------------ R8 (str2-p)
#: mappings that have an entry for every key committed_state can hold, with the reason
TOTAL_OVER_HISTORY_KEYS = {
    "manager": "ClassManager maps every instrumented attribute key; committed_state keys are instrumented attribute keys",
}
HISTORY_CONSUMERS = ("orm/persistence.py", "orm/sync.py", "orm/unitofwork.py", "orm/dependency.py", "orm/mapper.py")


def _set_factors(e, env, depth=4):
    """operands of a set expression built with set(X) / X.intersection(Y) / X & Y / X.keys() (difference operands are not factors:
    they do not bound the result), as text; single-definition locals are followed"""
    from ._helpers_rob_f2 import resolve_name
    if isinstance(e, ast.Name):
        r = resolve_name(env, e)
        if r is not e:
            return {e.id} | _set_factors(r, env, depth - 1)   # the local itself and what it stands for
    if depth <= 0:
        return {unparse(e)}
    if isinstance(e, ast.Call) and isinstance(e.func, ast.Name) and e.func.id in ("set", "frozenset", "list", "tuple", "sorted") and len(e.args) == 1:
        return _set_factors(e.args[0], env, depth - 1)
    if isinstance(e, ast.Call) and isinstance(e.func, ast.Attribute):
        if e.func.attr == "intersection":
            out = _set_factors(e.func.value, env, depth - 1)
            for a in e.args:
                out |= _set_factors(a, env, depth - 1)
            return out
        if e.func.attr in ("difference", "copy"):
            return _set_factors(e.func.value, env, depth - 1)
        if e.func.attr == "keys" and not e.args:
            return _set_factors(e.func.value, env, depth - 1)
    if isinstance(e, ast.BinOp) and isinstance(e.op, ast.BitAnd):
        return _set_factors(e.left, env, depth - 1) | _set_factors(e.right, env, depth - 1)
    if isinstance(e, ast.BinOp) and isinstance(e.op, ast.Sub):
        return _set_factors(e.left, env, depth - 1)
    return {unparse(e)}


@R.rule("C36-R8", floor=1, template="T-KEY",
        desc="the flush reads the current value of every attribute that HAS history in a way that tolerates `no current value`: in the flush "
             "modules, a loop / comprehension whose keys are drawn from <state>.committed_state may subscript another mapping with the key only "
             "if that mapping bounds the key set (an intersection operand), the read is dominated by `key in mapping`, or the mapping is total "
             "over attribute keys (table with reasons) -- `del obj.attr` leaves the key in committed_state (history: deleted=[old]) and removes "
             "it from the instance dict")
def r8(ctx):
    from ._helpers_rob_f2 import dominating_guards, atoms as _f2_atoms
    from ._helpers_rules_d import qualname as _qn
    n_inst = 0
    for rel in HISTORY_CONSUMERS:
        m = ctx.index.module(rel)
        if "committed_state" not in m.source:
            continue
        pm = m.parents()
        for fn in [n for n in ast.walk(m.tree) if isinstance(n, (ast.FunctionDef, ast.AsyncFunctionDef))]:
            env = _env_of(fn)
            gens = []    # (key variable, iterable, region in which the key is used)
            for n in walk_local(fn):
                if isinstance(n, ast.For) and isinstance(n.target, ast.Name):
                    gens.append((n.target.id, n.iter, n.body, n))
                elif isinstance(n, (ast.ListComp, ast.SetComp, ast.GeneratorExp, ast.DictComp)):
                    for gnr in n.generators:
                        if isinstance(gnr.target, ast.Name):
                            gens.append((gnr.target.id, gnr.iter, [n], n))
            for kvar, it, region, owner in gens:
                factors = _set_factors(it, env)
                hist = [x for x in factors if x.endswith(".committed_state")]
                if not hist:
                    continue
                q = (_qn(pm, fn) + "." if _qn(pm, fn) else "") + fn.name
                g = None
                for st in region:
                    for sub_ in ast.walk(st):
                        if not (isinstance(sub_, ast.Subscript) and isinstance(sub_.ctx, ast.Load) and isinstance(sub_.slice, ast.Name) and sub_.slice.id == kvar):
                            continue
                        mp_txt = unparse(sub_.value)
                        n_inst += 1
                        ctx.functions_analysed.add(f"{rel}::{q}")
                        key = f"{rel}::{q}:history-key-read[{mp_txt}]"
                        loc = f"{m.path}:{sub_.lineno}"
                        if mp_txt in factors:
                            ctx.ok(key, f"`{mp_txt}` bounds the key set ({unparse(it)[:70]})")
                            continue
                        last = mp_txt.rsplit(".", 1)[-1]
                        if last in TOTAL_OVER_HISTORY_KEYS:
                            ctx.ok(key, TOTAL_OVER_HISTORY_KEYS[last], nontrivial=False)
                            continue
                        guarded = False
                        if isinstance(owner, ast.For):
                            g = g or ctx.cfg(fn)
                            guarded = any(a == f"{kvar} in {mp_txt}" and p for t, pol in dominating_guards(g, pm, sub_) for a, p in _f2_atoms(t, pol, env))
                        ctx.check(guarded, key,
                                  f"`{mp_txt}[{kvar}]` is read for every key of `{hist[0]}` ({unparse(it)[:80]}), but `{mp_txt}` does not bound that key set: an "
                                  f"attribute that was deleted (`del obj.attr`: history deleted=[old], no current value) is in committed_state and not in "
                                  f"`{mp_txt}` -- the flush raises KeyError instead of persisting the reported difference (the column set to NULL)",
                                  f"dominated by `{kvar} in {mp_txt}`", loc)
    ctx.require(n_inst >= 1, "no consumer of committed_state keys found in the flush modules")


# ------------------------------------------------------------------------------------------ self-test battery
# R1
R.mutant("capture-guard-dropped", STATE, sub("            if attr.key not in self.committed_state or is_userland:\n", "            if attr.key in dict_ or is_userland:\n"), "C36-R1")
R.mutant("writeonly-capture-guard-dropped", WRITEONLY,
         sub("        if self.key not in state.committed_state:\n            state.committed_state[self.key] = self.collection_history_cls(", "        if self.key in dict_:\n            state.committed_state[self.key] = self.collection_history_cls("), "C36-R1")
R.mutant("collection-original-aliased", STATE, sub("                    if previous not in (None, NO_VALUE, NEVER_SET):\n                        previous = attr.copy(previous)\n", "                    if previous in (None, NO_VALUE):\n                        previous = NO_VALUE\n"), "C36-R1")
R.mutant("collection-copy-only-when-attached", STATE, sub("                    if previous not in (None, NO_VALUE, NEVER_SET):\n", "                    if previous not in (None, NO_VALUE, NEVER_SET) and self.session_id:\n"), "C36-R1")
R.mutant("postfetch-writes-committed-state", "orm/persistence.py", sub("            state.committed_state.pop(pkey, None)\n", "            state.committed_state[pkey] = params[c.key]\n"), "C36-R1")
R.mutant("userland-flag-from-scalar-set", ATTR, sub("        state._modified_event(dict_, self, old)\n        dict_[self.key] = value\n", "        state._modified_event(dict_, self, old, is_userland=True)\n        dict_[self.key] = value\n"), "C36-R1")
# R2
R.mutant("scalar-set-records-new-value", ATTR, sub("        state._modified_event(dict_, self, old)\n        dict_[self.key] = value\n", "        state._modified_event(dict_, self, value)\n        dict_[self.key] = value\n"), "C36-R2")
R.mutant("scalar-set-writes-before-reading-old", ATTR,
         sub("        if value is DONT_SET:\n            return\n\n        if self.dispatch._active_history:\n            old = self.get(state, dict_, PASSIVE_RETURN_NO_VALUE)\n        else:\n            old = dict_.get(self.key, NO_VALUE)\n\n        if self.dispatch.set:\n            value = self.fire_replace_event(\n                state, dict_, value, old, initiator\n            )\n        state._modified_event(dict_, self, old)\n        dict_[self.key] = value\n",
             "        if value is DONT_SET:\n            return\n\n        dict_[self.key] = value\n        if self.dispatch._active_history:\n            old = self.get(state, dict_, PASSIVE_RETURN_NO_VALUE)\n        else:\n            old = dict_.get(self.key, NO_VALUE)\n\n        state._modified_event(dict_, self, old)\n"), "C36-R2")
R.mutant("object-set-passes-new-as-previous", ATTR, sub("        value = self.fire_replace_event(state, dict_, value, old, initiator)\n        dict_[self.key] = value\n", "        value = self.fire_replace_event(state, dict_, value, value, initiator)\n        dict_[self.key] = value\n"), "C36-R2")
R.mutant("collection-remove-event-without-snapshot", ATTR, sub("            fn(state, value, initiator or self._remove_token, key=key)\n\n        state._modified_event(dict_, self, NO_VALUE, True)\n", "            fn(state, value, initiator or self._remove_token, key=key)\n\n        state._modified_event(dict_, self, NO_VALUE)\n"), "C36-R2")
R.mutant("pending-replayed-before-original-recorded", ATTR,
         sub("            state._modified_event(dict_, self, user_data, True)\n\n            pending = state._pending_mutations.pop(self.key)\n            added = pending.added_items\n            removed = pending.deleted_items\n            for item in added:\n                collection.append_without_event(item)\n            for item in removed:\n                collection.remove_without_event(item)\n",
             "            pending = state._pending_mutations.pop(self.key)\n            added = pending.added_items\n            removed = pending.deleted_items\n            for item in added:\n                collection.append_without_event(item)\n            for item in removed:\n                collection.remove_without_event(item)\n            state._modified_event(dict_, self, user_data, True)\n"), "C36-R2")
# R3
R.mutant("scalar-deleted-only-for-sentinels", ATTR, sub("            if id(original) in _NO_STATE_SYMBOLS:\n                deleted = ()\n                # indicate a \"del\" operation occurred when we don't have\n                # the previous value as: ([None], (), ())\n                if id(current) in _NO_STATE_SYMBOLS:\n                    current = None\n            else:\n                deleted = [original]\n            if current is NO_VALUE:\n                return cls((), (), deleted)\n            else:\n                return cls([current], (), deleted)\n\n    @classmethod\n    def from_object_attribute(",
                                                   "            if id(original) not in _NO_STATE_SYMBOLS:\n                deleted = ()\n                # indicate a \"del\" operation occurred when we don't have\n                # the previous value as: ([None], (), ())\n                if id(current) in _NO_STATE_SYMBOLS:\n                    current = None\n            else:\n                deleted = [original]\n            if current is NO_VALUE:\n                return cls((), (), deleted)\n            else:\n                return cls([current], (), deleted)\n\n    @classmethod\n    def from_object_attribute("), "C36-R3")
R.mutant("scalar-equal-test-inverted", ATTR, sub("            and attribute.is_equal(current, original) is True\n", "            and attribute.is_equal(current, original) is not True\n"), "C36-R3")
R.mutant("scalar-no-history-reports-added", ATTR, sub("        original = state.committed_state.get(attribute.key, _NO_HISTORY)\n\n        deleted: Union[Tuple[()], List[Any]]\n\n        if original is _NO_HISTORY:\n            if current is NO_VALUE:\n                return cls((), (), ())\n            else:\n                return cls((), [current], ())\n",
                                                  "        original = state.committed_state.get(attribute.key, _NO_HISTORY)\n\n        deleted: Union[Tuple[()], List[Any]]\n\n        if original is _NO_HISTORY:\n            if current is NO_VALUE:\n                return cls((), (), ())\n            else:\n                return cls([current], (), ())\n"), "C36-R3")
R.mutant("object-same-object-reports-change", ATTR, sub("        elif current is original and current is not NO_VALUE:\n", "        elif current is not original and current is not NO_VALUE:\n"), "C36-R3")
R.mutant("object-no-value-leaks-into-added", ATTR, sub("                deleted = [original]\n            if current is NO_VALUE:\n                return cls((), (), deleted)\n            else:\n                return cls([current], (), deleted)\n\n    @classmethod\n    def from_collection(",
                                                   "                deleted = [original]\n            if current is None:\n                return cls((), (), deleted)\n            else:\n                return cls([current], (), deleted)\n\n    @classmethod\n    def from_collection("), "C36-R3")
R.mutant("object-fallthrough-without-history", ATTR, sub("            if current is NO_VALUE:\n                return cls((), (), deleted)\n            else:\n                return cls([current], (), deleted)\n\n    @classmethod\n    def from_collection(",
                                                    "            if current is NO_VALUE:\n                return cls((), (), deleted)\n            elif current is not None:\n                return cls([current], (), deleted)\n\n    @classmethod\n    def from_collection("), "C36-R3")
# R4
R.mutant("collection-deleted-polarity-flipped", ATTR, sub("                [o for s, o in original_states if s not in current_set],\n", "                [o for s, o in original_states if s in current_set],\n"), "C36-R4")
R.mutant("collection-added-against-itself", ATTR, sub("                [o for s, o in current_states if s not in original_set],\n                [o for s, o in current_states if s in original_set],\n                [o for s, o in original_states if s not in current_set],\n            )\n\n\nHISTORY_BLANK",
                                                      "                [o for s, o in current_states if s not in current_set],\n                [o for s, o in current_states if s in original_set],\n                [o for s, o in original_states if s not in current_set],\n            )\n\n\nHISTORY_BLANK"), "C36-R4")
R.mutant("collection-no-history-reports-added", ATTR, sub("        elif original is _NO_HISTORY:\n            return cls((), list(current), ())\n", "        elif original is _NO_HISTORY:\n            return cls(list(current), (), ())\n"), "C36-R4")
R.mutant("collection-keyed-by-object-on-one-side", ATTR, sub("            original_states = [\n                ((c is not None) and instance_state(c) or None, c)\n                for c in original\n            ]\n\n            current_set = dict(current_states)\n            original_set = dict(original_states)\n\n            return cls(",
                                                             "            original_states = [\n                (c, c)\n                for c in original\n            ]\n\n            current_set = dict(current_states)\n            original_set = dict(original_states)\n\n            return cls("), "C36-R4")
R.mutant("get-all-pending-drops-removed", ATTR, sub("                    + [\n                        (s, o)\n                        for s, o in original_states\n                        if s not in current_set\n                    ]\n", "                    + [\n                        (s, o)\n                        for s, o in original_states\n                        if s not in original_set\n                    ]\n"), "C36-R4")
R.mutant("pending-append-does-not-cancel-remove", STATE, sub("        if value in self.deleted_items:\n            self.deleted_items.remove(value)\n        else:\n            self.added_items.add(value)\n", "        if value in self.added_items:\n            self.deleted_items.remove(value)\n        else:\n            self.added_items.add(value)\n"), "C36-R4")
R.mutant("pending-remove-always-queues", STATE, sub("        if value in self.added_items:\n            self.added_items.remove(value)\n        else:\n            self.deleted_items.add(value)\n", "        if value in self.added_items:\n            self.deleted_items.add(value)\n        else:\n            self.deleted_items.add(value)\n"), "C36-R4")
# R5
R.mutant("commit-all-keeps-history-of-unmodified", STATE, sub("            state.committed_state.clear()\n\n            if \"_pending_mutations\" in state_dict:", "            if state.modified:\n                state.committed_state.clear()\n\n            if \"_pending_mutations\" in state_dict:"), "C36-R5")
R.mutant("commit-keys-only-when-loaded", STATE, sub("        for key in keys:\n            self.committed_state.pop(key, None)\n\n        self.expired = False\n", "        for key in keys:\n            if key in dict_:\n                continue\n            self.committed_state.pop(key, None)\n\n        self.expired = False\n"), "C36-R5")
R.mutant("set-committed-value-does-not-commit", ATTR, sub("        dict_[self.key] = value\n        state._commit(dict_, [self.key])\n        return value\n", "        dict_[self.key] = value\n        return value\n"), "C36-R5")
R.mutant("collection-set-committed-commits-other-key", ATTR, sub("        state.dict[self.key] = user_data\n\n        state._commit(dict_, [self.key])\n", "        state.dict[self.key] = user_data\n\n        state._commit(dict_, [])\n"), "C36-R5")
R.mutant("register-persistent-commits-only-new", SESSION, sub("            ((state, state.dict) for state in states), self.identity_map\n", "            ((state, state.dict) for state in self._new), self.identity_map\n"), "C36-R5")
# benign refactors
R.mutant("benign-rename-old-local", ATTR, sub("        if self.dispatch._active_history:\n            old = self.get(state, dict_, PASSIVE_RETURN_NO_VALUE)\n        else:\n            old = dict_.get(self.key, NO_VALUE)\n\n        if self.dispatch.set:\n            value = self.fire_replace_event(\n                state, dict_, value, old, initiator\n            )\n        state._modified_event(dict_, self, old)\n",
                                             "        if self.dispatch._active_history:\n            prior = self.get(state, dict_, PASSIVE_RETURN_NO_VALUE)\n        else:\n            prior = dict_[self.key] if self.key in dict_ else NO_VALUE\n\n        if self.dispatch.set:\n            value = self.fire_replace_event(\n                state, dict_, value, prior, initiator\n            )\n        state._modified_event(dict_, self, prior)\n"), None)
R.mutant("benign-history-branches-restructured", ATTR, sub("            if current is NO_VALUE:\n                return cls((), (), deleted)\n            else:\n                return cls([current], (), deleted)\n\n    @classmethod\n    def from_object_attribute(",
                                                          "            added = () if current is NO_VALUE else [current]\n            return cls(added, (), deleted)\n\n    @classmethod\n    def from_object_attribute("), None)
R.mutant("benign-collection-locals-renamed", ATTR, chain(
    sub("            current_set = dict(current_states)\n            original_set = dict(original_states)\n\n            return cls(\n                [o for s, o in current_states if s not in original_set],\n                [o for s, o in current_states if s in original_set],\n                [o for s, o in original_states if s not in current_set],\n            )\n",
        "            now = set(dict(current_states))\n            before = set(dict(original_states))\n            _n = len(now)\n\n            return cls(\n                [obj for st_, obj in current_states if st_ not in before],\n                [obj for st_, obj in current_states if st_ in before],\n                [obj for st_, obj in original_states if st_ not in now],\n            )\n")), None)
R.mutant("benign-modified-event-guard-nested", STATE, sub("            if attr.key not in self.committed_state or is_userland:\n                if collection:\n", "            first_change = attr.key not in self.committed_state\n            if not (attr.key in self.committed_state and not is_userland):\n                if collection:\n"), None)
R.mutant("benign-commit-all-reordered", STATE, sub("            state.committed_state.clear()\n\n            if \"_pending_mutations\" in state_dict:\n                del state_dict[\"_pending_mutations\"]\n", "            if \"_pending_mutations\" in state_dict:\n                del state_dict[\"_pending_mutations\"]\n\n            state.committed_state.clear()\n"), None)
R.mutant('benign-rfI_4-scalar-history-membership-and-early-returns', ATTR,
         sub('        state: InstanceState[Any],\n'
             '        current: Any,\n'
             '    ) -> History:\n'
             '        original = state.committed_state.get(attribute.key, _NO_HISTORY)\n'
             '\n'
             '        deleted: Union[Tuple[()], List[Any]]\n'
             '\n'
             '        if original is _NO_HISTORY:\n'
             '            if current is NO_VALUE:\n'
             '                return cls((), (), ())\n'
             '            else:\n'
             '                return cls((), [current], ())\n'
             "        # don't let ClauseElement expressions here trip things up\n"
             '        elif (\n'
             '            current is not NO_VALUE\n'
             '            and attribute.is_equal(current, original) is True\n'
             '        ):\n'
             '            return cls((), [current], ())\n'
             '        else:\n'
             '            # current convention on native scalars is to not\n'
             '            # include information\n'
             '            # about missing previous value in "deleted", but\n'
             '            # we do include None, which helps in some primary\n'
             '            # key situations\n'
             '            if id(original) in _NO_STATE_SYMBOLS:\n'
             '                deleted = ()\n'
             '                # indicate a "del" operation occurred when we don\'t have\n'
             '                # the previous value as: ([None], (), ())\n'
             '                if id(current) in _NO_STATE_SYMBOLS:\n'
             '                    current = None\n'
             '            else:\n'
             '                deleted = [original]\n'
             '            if current is NO_VALUE:\n'
             '                return cls((), (), deleted)\n'
             '            else:\n'
             '                return cls([current], (), deleted)\n',
        '        state: InstanceState[Any],\n'
             '        current: Any,\n'
             '    ) -> History:\n'
             '        committed_state = state.committed_state\n'
             '        attr_key = attribute.key\n'
             '        if attr_key in committed_state:\n'
             '            original = committed_state[attr_key]\n'
             '        else:\n'
             '            original = _NO_HISTORY\n'
             '\n'
             '        deleted: Union[Tuple[()], List[Any]]\n'
             '\n'
             '        if original is _NO_HISTORY:\n'
             '            # no change recorded since load; "current" is the unchanged value\n'
             '            if current is NO_VALUE:\n'
             '                return cls((), (), ())\n'
             '            return cls((), [current], ())\n'
             '\n'
             "        # don't let ClauseElement expressions here trip things up\n"
             '        if current is not NO_VALUE:\n'
             '            if attribute.is_equal(current, original) is True:\n'
             '                return cls((), [current], ())\n'
             '\n'
             '        # current convention on native scalars is to not\n'
             '        # include information\n'
             '        # about missing previous value in "deleted", but\n'
             '        # we do include None, which helps in some primary\n'
             '        # key situations\n'
             '        if id(original) in _NO_STATE_SYMBOLS:\n'
             '            deleted = ()\n'
             '            # indicate a "del" operation occurred when we don\'t have\n'
             '            # the previous value as: ([None], (), ())\n'
             '            if id(current) in _NO_STATE_SYMBOLS:\n'
             '                current = None\n'
             '        else:\n'
             '            deleted = [original]\n'
             '        if current is NO_VALUE:\n'
             '            return cls((), (), deleted)\n'
             '        return cls([current], (), deleted)\n'), None)
R.mutant('benign-rfI_5-state-or-none-helper', ATTR, chain(
    sub('class History(NamedTuple):\n',
        'def _state_or_none(obj: Any) -> Optional[InstanceState[Any]]:\n'
             '    """Return the InstanceState for a collection member, passing None\n'
             '    through as None."""\n'
             '\n'
             '    return (obj is not None) and instance_state(obj) or None\n'
             '\n'
             '\n'
             'class History(NamedTuple):\n'),
    sub('            [\n'
             '                (c is not None) and instance_state(c) or None\n'
             '                for c in self.added\n'
             '            ],\n'
             '            [\n'
             '                (c is not None) and instance_state(c) or None\n'
             '                for c in self.unchanged\n'
             '            ],\n'
             '            [\n'
             '                (c is not None) and instance_state(c) or None\n'
             '                for c in self.deleted\n'
             '            ],\n',
        '            [_state_or_none(c) for c in self.added],\n'
             '            [_state_or_none(c) for c in self.unchanged],\n'
             '            [_state_or_none(c) for c in self.deleted],\n'),
    sub('        elif original is _NO_HISTORY:\n'
             '            return cls((), list(current), ())\n'
             '        else:\n'
             '            current_states = [\n'
             '                ((c is not None) and instance_state(c) or None, c)\n'
             '                for c in current\n'
             '            ]\n'
             '            original_states = [\n'
             '                ((c is not None) and instance_state(c) or None, c)\n'
             '                for c in original\n'
             '            ]\n'
             '\n'
             '            current_set = dict(current_states)\n'
             '            original_set = dict(original_states)\n'
             '\n'
             '            return cls(\n'
             '                [o for s, o in current_states if s not in original_set],\n'
             '                [o for s, o in current_states if s in original_set],\n'
             '                [o for s, o in original_states if s not in current_set],\n',
        '        elif original is _NO_HISTORY:\n'
             '            return cls((), list(current), ())\n'
             '        else:\n'
             '            current_states = [(_state_or_none(c), c) for c in current]\n'
             '            original_states = [(_state_or_none(c), c) for c in original]\n'
             '\n'
             '            current_by_state = dict(current_states)\n'
             '            original_by_state = dict(original_states)\n'
             '\n'
             '            return cls(\n'
             '                [o for s, o in current_states if s not in original_by_state],\n'
             '                [o for s, o in current_states if s in original_by_state],\n'
             '                [o for s, o in original_states if s not in current_by_state],\n')), None)
R.mutant('benign-rfI_6-modified-event-aliases', STATE,
         sub('        if attr:\n'
             '            if not attr.send_modified_events:\n'
             '                return\n'
             '            if is_userland and attr.key not in dict_:\n'
             '                raise sa_exc.InvalidRequestError(\n'
             '                    "Can\'t flag attribute \'%s\' modified; it\'s not present in "\n'
             '                    "the object state" % attr.key\n'
             '                )\n'
             '            if attr.key not in self.committed_state or is_userland:\n'
             '                if collection:\n'
             '                    if TYPE_CHECKING:\n'
             '                        assert is_collection_impl(attr)\n'
             '                    if previous is NEVER_SET:\n'
             '                        if attr.key in dict_:\n'
             '                            previous = dict_[attr.key]\n'
             '\n'
             '                    if previous not in (None, NO_VALUE, NEVER_SET):\n'
             '                        previous = attr.copy(previous)\n'
             '                self.committed_state[attr.key] = previous\n'
             '\n'
             '            lkv = self._last_known_values\n'
             '            if lkv is not None and attr.key in lkv:\n'
             '                lkv[attr.key] = NO_VALUE\n',
        '        if attr:\n'
             '            if not attr.send_modified_events:\n'
             '                return\n'
             '            attr_key = attr.key\n'
             '            if is_userland and attr_key not in dict_:\n'
             '                raise sa_exc.InvalidRequestError(\n'
             '                    "Can\'t flag attribute \'%s\' modified; it\'s not present in "\n'
             '                    "the object state" % attr_key\n'
             '                )\n'
             '            committed_state = self.committed_state\n'
             '            if attr_key not in committed_state or is_userland:\n'
             '                # first change since load (or explicit flag_modified());\n'
             '                # capture the previous value as the committed one\n'
             '                if collection:\n'
             '                    if TYPE_CHECKING:\n'
             '                        assert is_collection_impl(attr)\n'
             '                    if previous is NEVER_SET and attr_key in dict_:\n'
             '                        previous = dict_[attr_key]\n'
             '\n'
             '                    if previous not in (None, NO_VALUE, NEVER_SET):\n'
             '                        previous = attr.copy(previous)\n'
             '                committed_state[attr_key] = previous\n'
             '\n'
             '            lkv = self._last_known_values\n'
             '            if lkv is not None and attr_key in lkv:\n'
             '                lkv[attr_key] = NO_VALUE\n'), None)
# further benign variants of the same families (rob-I)
R.mutant("benign-capture-extracted-into-helper", STATE, chain(
    sub("            if attr.key not in self.committed_state or is_userland:\n                if collection:\n                    if TYPE_CHECKING:\n                        assert is_collection_impl(attr)\n                    if previous is NEVER_SET:\n                        if attr.key in dict_:\n                            previous = dict_[attr.key]\n\n                    if previous not in (None, NO_VALUE, NEVER_SET):\n                        previous = attr.copy(previous)\n                self.committed_state[attr.key] = previous\n",
        "            if attr.key not in self.committed_state or is_userland:\n                self._capture_original(dict_, attr, previous, collection)\n"),
    sub("    def _commit(self, dict_: _InstanceDict, keys: Iterable[str]) -> None:\n",
        "    def _capture_original(self, dict_, attr, previous, collection):  # type: ignore[no-untyped-def]  # noqa: E501\n        if collection:\n            if previous is NEVER_SET:\n                if attr.key in dict_:\n                    previous = dict_[attr.key]\n\n            if previous not in (None, NO_VALUE, NEVER_SET):\n                previous = attr.copy(previous)\n        self.committed_state[attr.key] = previous\n\n    def _commit(self, dict_: _InstanceDict, keys: Iterable[str]) -> None:\n")), None)
R.mutant("benign-writeonly-capture-through-alias", WRITEONLY,
         sub("        if self.key not in state.committed_state:\n            state.committed_state[self.key] = self.collection_history_cls(\n                self, state, PassiveFlag.PASSIVE_NO_FETCH\n            )\n",
             "        committed = state.committed_state\n        if self.key in committed:\n            pass\n        else:\n            committed[self.key] = self.collection_history_cls(\n                self, state, PassiveFlag.PASSIVE_NO_FETCH\n            )\n"), None)
R.mutant("benign-object-history-conditional-lookup", ATTR,
         sub("        if original is _NO_HISTORY:\n            original = state.committed_state.get(attribute.key, _NO_HISTORY)\n\n        if original is _NO_HISTORY:\n            if current is NO_VALUE:\n                return cls((), (), ())\n            else:\n                return cls((), [current], ())\n        elif current is original and current is not NO_VALUE:\n",
             "        if original is _NO_HISTORY:\n            recorded = state.committed_state\n            original = (\n                recorded[attribute.key]\n                if attribute.key in recorded\n                else _NO_HISTORY\n            )\n\n        if original is _NO_HISTORY:\n            if current is NO_VALUE:\n                return cls((), (), ())\n            else:\n                return cls((), [current], ())\n        elif current is original and current is not NO_VALUE:\n"), None)
R.mutant("benign-commit-pops-through-alias", STATE,
         sub("        for key in keys:\n            self.committed_state.pop(key, None)\n\n        self.expired = False\n",
             "        committed = self.committed_state\n        for key in keys:\n            committed.pop(key, None)\n\n        self.expired = False\n"), None)
# the followed helper / alias must still be judged
R.mutant("capture-helper-called-unguarded", STATE, chain(
    sub("            if attr.key not in self.committed_state or is_userland:\n                if collection:\n                    if TYPE_CHECKING:\n                        assert is_collection_impl(attr)\n                    if previous is NEVER_SET:\n                        if attr.key in dict_:\n                            previous = dict_[attr.key]\n\n                    if previous not in (None, NO_VALUE, NEVER_SET):\n                        previous = attr.copy(previous)\n                self.committed_state[attr.key] = previous\n",
        "            if attr.key in dict_ or is_userland:\n                self._capture_original(dict_, attr, previous, collection)\n"),
    sub("    def _commit(self, dict_: _InstanceDict, keys: Iterable[str]) -> None:\n",
        "    def _capture_original(self, dict_, attr, previous, collection):  # type: ignore[no-untyped-def]  # noqa: E501\n        if collection:\n            if previous is NEVER_SET:\n                if attr.key in dict_:\n                    previous = dict_[attr.key]\n\n            if previous not in (None, NO_VALUE, NEVER_SET):\n                previous = attr.copy(previous)\n        self.committed_state[attr.key] = previous\n\n    def _commit(self, dict_: _InstanceDict, keys: Iterable[str]) -> None:\n")), "C36-R1")
R.mutant("alias-insertion-outside-owners", "orm/persistence.py",
         sub("            state.committed_state.pop(pkey, None)\n", "            recorded = state.committed_state\n            recorded[pkey] = params[c.key]\n"), "C36-R1")
R.mutant("scalar-history-membership-form-inverted", ATTR,
         sub("        original = state.committed_state.get(attribute.key, _NO_HISTORY)\n\n        deleted: Union[Tuple[()], List[Any]]\n",
             "        committed_state = state.committed_state\n        if attribute.key not in committed_state:\n            original = NO_VALUE\n        else:\n            original = committed_state[attribute.key]\n\n        deleted: Union[Tuple[()], List[Any]]\n"), "C36-R3")


# ------------------------------------------------------------------------------------------ str2-p: R6 / R7 self-test inputs
_DICT_POP = ("        def pop(self, key, default=NO_ARG):\n            __before_pop(self)\n            _to_del = key in self\n            if default is NO_ARG:\n"
             "                item = fn(self, key)\n            else:\n                item = fn(self, key, default)\n            if _to_del:\n"
             "                __del(self, item, None, key)\n            return item\n")
# R6 breaking: essence of round-2 seed C36_1 (the pre-remove capture deferred until something was removed)
R.mutant("dict-pop-capture-after-removal", COLL,
         sub(_DICT_POP,
             "        def pop(self, key, default=NO_ARG):\n            _to_del = key in self\n            if default is NO_ARG:\n"
             "                item = fn(self, key)\n            else:\n                item = fn(self, key, default)\n            if _to_del:\n"
             "                __before_pop(self)\n                __del(self, item, None, key)\n            return item\n"), "C36-R6")
R.mutant("set-pop-pre-remove-hook-dropped", COLL,
         sub("        def pop(self):\n            __before_pop(self)\n            item = fn(self)\n            # for set in particular",
             "        def pop(self):\n            item = fn(self)\n            # for set in particular"), "C36-R6")
R.mutant("list-pop-capture-only-when-non-empty-after-call", COLL,
         sub("        def pop(self, index=-1):\n            __before_pop(self)\n            item = fn(self, index)\n            __del(self, item, None, index)\n",
             "        def pop(self, index=-1):\n            item = fn(self, index)\n            if len(self):\n                __before_pop(self)\n            __del(self, item, None, index)\n"), "C36-R6")
# the capture moved into a closure that is called after the removal: the rule reads the closure as part of the wrapper
R.mutant("dict-popitem-capture-in-closure-after-call", COLL, chain(
    sub("        def popitem(self):\n            __before_pop(self)\n            item = fn(self)\n            __del(self, item[1], None, 1)\n",
        "        def popitem(self):\n            item = fn(self)\n            _announce_pop(self, item[1])\n"),
    sub("    def popitem(fn):\n        def popitem(self):\n",
        "    def _announce_pop(collection, member):\n        __before_pop(collection)\n        __del(collection, member, None, 1)\n\n    def popitem(fn):\n        def popitem(self):\n"),
    sub("        _tidy(__ior__)\n        return __ior__\n\n    l = locals().copy()\n    l.pop(\"_tidy\")\n    return l\n\n\n_set_binop_bases",
        "        _tidy(__ior__)\n        return __ior__\n\n    l = locals().copy()\n    l.pop(\"_tidy\")\n    l.pop(\"_announce_pop\")\n    return l\n\n\n_set_binop_bases")), "C36-R6")
# R6 benign: same wrapper, other shapes
R.mutant("benign-dict-pop-membership-first-inverted-default-test", COLL,
         sub(_DICT_POP,
             "        def pop(self, key, default=NO_ARG):\n            was_member = key in self\n            __before_pop(self)\n            if default is not NO_ARG:\n"
             "                removed = fn(self, key, default)\n            else:\n                removed = fn(self, key)\n            if not was_member:\n                return removed\n"
             "            __del(self, removed, None, key)\n            return removed\n"), None)
R.mutant("benign-dict-popitem-hooks-in-closures", COLL, chain(
    sub("        def popitem(self):\n            __before_pop(self)\n            item = fn(self)\n            __del(self, item[1], None, 1)\n",
        "        def popitem(self):\n            _prepare_pop(self)\n            item = fn(self)\n            _announce_pop(self, item[1])\n"),
    sub("    def popitem(fn):\n        def popitem(self):\n",
        "    def _prepare_pop(collection):\n        __before_pop(collection)\n\n    def _announce_pop(collection, member):\n        __del(collection, member, None, 1)\n\n    def popitem(fn):\n        def popitem(self):\n"),
    sub("        _tidy(__ior__)\n        return __ior__\n\n    l = locals().copy()\n    l.pop(\"_tidy\")\n    return l\n\n\n_set_binop_bases",
        "        _tidy(__ior__)\n        return __ior__\n\n    l = locals().copy()\n    l.pop(\"_tidy\")\n    l.pop(\"_prepare_pop\")\n    l.pop(\"_announce_pop\")\n    return l\n\n\n_set_binop_bases")), None)
R.mutant("benign-list-pop-prepare-in-module-function", COLL, chain(
    sub("        def pop(self, index=-1):\n            __before_pop(self)\n            item = fn(self, index)\n",
        "        def pop(self, index=-1):\n            _prepare_pop(self)\n            popped = fn(self, index)\n            item = popped\n"),
    sub("def _list_decorators() -> Dict[str, Callable[[_FN], _FN]]:\n",
        "def _prepare_pop(collection):\n    \"\"\"record the original of the collection before a pop.\"\"\"\n    __before_pop(collection)\n\n\ndef _list_decorators() -> Dict[str, Callable[[_FN], _FN]]:\n")), None)
R.mutant("benign-list-remove-membership-flag-early-return", COLL,
         sub("        def remove(self, value, _sa_initiator=None):\n            # testlib.pragma exempt:__eq__\n            if value in self:\n                __del(self, value, _sa_initiator, NO_KEY)\n            # testlib.pragma exempt:__eq__\n            fn(self, value)\n",
             "        def remove(self, value, _sa_initiator=None):\n            present = value in self\n            if not present:\n                fn(self, value)\n                return\n            __del(self, value, _sa_initiator, NO_KEY)\n            fn(self, value)\n"), None)
# R7 breaking: essence of round-2 seed C36_2 (one sibling fetch of the old value loses LOAD_AGAINST_COMMITTED) and variants
_DEL_FETCH = ("    def delete(self, state: InstanceState[Any], dict_: _InstanceDict) -> None:\n        if self.dispatch._active_history:\n            old = self.get(\n                state,\n                dict_,\n"
              "                passive=PASSIVE_ONLY_PERSISTENT\n                | NO_AUTOFLUSH\n                | LOAD_AGAINST_COMMITTED,\n            )\n        else:\n            old = self.get(\n                state,\n                dict_,\n"
              "                passive=PASSIVE_NO_FETCH ^ INIT_OK\n                | LOAD_AGAINST_COMMITTED\n                | NO_RAISE,\n            )\n\n        self.fire_remove_event(state, dict_, old, self._remove_token)\n")
R.mutant("object-delete-old-loaded-against-pending-fk", ATTR,
         sub(_DEL_FETCH, _DEL_FETCH.replace("                passive=PASSIVE_NO_FETCH ^ INIT_OK\n                | LOAD_AGAINST_COMMITTED\n                | NO_RAISE,\n",
                                            "                passive=PASSIVE_NO_FETCH ^ INIT_OK | NO_RAISE,\n")), "C36-R7")
R.mutant("object-delete-active-history-flag-through-local", ATTR,
         sub(_DEL_FETCH, _DEL_FETCH.replace("        if self.dispatch._active_history:\n            old = self.get(\n                state,\n                dict_,\n                passive=PASSIVE_ONLY_PERSISTENT\n                | NO_AUTOFLUSH\n                | LOAD_AGAINST_COMMITTED,\n            )\n",
                                            "        if self.dispatch._active_history:\n            load_flags = PASSIVE_ONLY_PERSISTENT | NO_AUTOFLUSH\n            old = self.get(state, dict_, passive=load_flags)\n")), "C36-R7")
R.mutant("object-set-flag-xored-away", ATTR,
         sub("                passive=PASSIVE_NO_FETCH ^ INIT_OK\n                | LOAD_AGAINST_COMMITTED\n                | NO_RAISE,\n            )\n\n        if (\n            check_old is not None\n",
             "                passive=(\n                    PASSIVE_NO_FETCH | LOAD_AGAINST_COMMITTED | NO_RAISE\n                )\n                ^ (INIT_OK | LOAD_AGAINST_COMMITTED),\n            )\n\n        if (\n            check_old is not None\n"), "C36-R7")
R.mutant("deferred-history-original-loaded-against-pending-fk", ATTR,
         sub("                    PASSIVE_ONLY_PERSISTENT\n                    | NO_AUTOFLUSH\n                    | LOAD_AGAINST_COMMITTED\n                    | NO_RAISE\n                    | DEFERRED_HISTORY_LOAD\n",
             "                    PASSIVE_ONLY_PERSISTENT\n                    | NO_AUTOFLUSH\n                    | NO_RAISE\n                    | DEFERRED_HISTORY_LOAD\n"), "C36-R7")
# R7 benign
R.mutant("benign-object-delete-flags-in-locals-arms-swapped", ATTR,
         sub(_DEL_FETCH,
             "    def delete(self, state: InstanceState[Any], dict_: _InstanceDict) -> None:\n        wants_history = self.dispatch._active_history\n        if not wants_history:\n"
             "            quiet = PASSIVE_NO_FETCH ^ INIT_OK | NO_RAISE\n            previous = self.get(\n                state, dict_, passive=quiet | LOAD_AGAINST_COMMITTED\n            )\n        else:\n"
             "            loading = PASSIVE_ONLY_PERSISTENT | NO_AUTOFLUSH | LOAD_AGAINST_COMMITTED\n            previous = self.get(state, dict_, passive=loading)\n        old = previous\n\n"
             "        self.fire_remove_event(state, dict_, old, self._remove_token)\n"), None)
R.mutant("benign-object-delete-one-fetch-conditional-flags", ATTR,
         sub(_DEL_FETCH,
             "    def delete(self, state: InstanceState[Any], dict_: _InstanceDict) -> None:\n        old = self.get(\n            state,\n            dict_,\n            passive=(\n"
             "                PASSIVE_ONLY_PERSISTENT | NO_AUTOFLUSH | LOAD_AGAINST_COMMITTED\n                if self.dispatch._active_history\n"
             "                else PASSIVE_NO_FETCH ^ INIT_OK | LOAD_AGAINST_COMMITTED | NO_RAISE\n            ),\n        )\n\n"
             "        self.fire_remove_event(state, dict_, old, self._remove_token)\n"), None)
R.mutant("benign-object-delete-fetch-extracted-to-method-module-constants", ATTR, chain(
    sub(_DEL_FETCH,
        "    def _committed_reference(\n        self, state: InstanceState[Any], dict_: _InstanceDict\n    ) -> Any:\n        if self.dispatch._active_history:\n            return self.get(state, dict_, passive=_OLD_REF_ACTIVE)\n"
        "        return self.get(state, dict_, passive=_OLD_REF_QUIET)\n\n"
        "    def delete(self, state: InstanceState[Any], dict_: _InstanceDict) -> None:\n        old = self._committed_reference(state, dict_)\n\n"
        "        self.fire_remove_event(state, dict_, old, self._remove_token)\n"),
    sub("class _ScalarObjectAttributeImpl(_ScalarAttributeImpl):\n",
        "_OLD_REF_ACTIVE = PASSIVE_ONLY_PERSISTENT | NO_AUTOFLUSH | LOAD_AGAINST_COMMITTED\n_OLD_REF_QUIET = (\n    PASSIVE_NO_FETCH ^ INIT_OK | LOAD_AGAINST_COMMITTED | NO_RAISE\n)\n\n\nclass _ScalarObjectAttributeImpl(_ScalarAttributeImpl):\n")), None)
# the extracted helper must still be judged
R.mutant("object-delete-extracted-fetch-without-flag", ATTR, chain(
    sub(_DEL_FETCH,
        "    def _committed_reference(\n        self, state: InstanceState[Any], dict_: _InstanceDict\n    ) -> Any:\n        if self.dispatch._active_history:\n            return self.get(state, dict_, passive=_OLD_REF_ACTIVE)\n"
        "        return self.get(state, dict_, passive=_OLD_REF_QUIET)\n\n"
        "    def delete(self, state: InstanceState[Any], dict_: _InstanceDict) -> None:\n        old = self._committed_reference(state, dict_)\n\n"
        "        self.fire_remove_event(state, dict_, old, self._remove_token)\n"),
    sub("class _ScalarObjectAttributeImpl(_ScalarAttributeImpl):\n",
        "_OLD_REF_ACTIVE = PASSIVE_ONLY_PERSISTENT | NO_AUTOFLUSH | LOAD_AGAINST_COMMITTED\n_OLD_REF_QUIET = PASSIVE_NO_FETCH ^ INIT_OK | NO_RAISE\n\n\nclass _ScalarObjectAttributeImpl(_ScalarAttributeImpl):\n")), "C36-R7")


# R8
R.mutant("update-collects-without-reading-dict-by-get", "orm/persistence.py",
         sub("                state.committed_state\n            ):\n                value = state_dict[propkey]\n",
             "                state.committed_state\n            ):\n                value = state_dict.get(propkey)\n                col0 = mapper._columntoproperty_keys[propkey]\n"), "C36-R8")
R.mutant("benign-update-history-keys-in-local-guarded-read", "orm/persistence.py",
         sub("            for propkey in set(propkey_to_col).intersection(\n                state.committed_state\n            ):\n                value = state_dict[propkey]\n",
             "            changed_keys = set(state.committed_state) & set(propkey_to_col)\n            for propkey in changed_keys:\n                if propkey not in state_dict:\n                    raise KeyError(propkey)\n                value = state_dict[propkey]\n"), None)
R.mutant("benign-update-keys-bounded-by-instance-dict", "orm/persistence.py",
         sub("            for propkey in set(propkey_to_col).intersection(\n                state.committed_state\n            ):\n                value = state_dict[propkey]\n",
             "            for propkey in (\n                set(propkey_to_col)\n                .intersection(state.committed_state)\n                .intersection(state_dict)\n            ):\n                value = state_dict[propkey]\n"), None)
R.mutant("insert-collects-history-keys-reads-dict-by-subscript", "orm/persistence.py",
         sub("        for propkey in set(propkey_to_col).intersection(state_dict):\n            value = state_dict[propkey]\n",
             "        for propkey in set(propkey_to_col).intersection(\n            state.committed_state\n        ):\n            value = state_dict[propkey]\n"), "C36-R8")
