"""rob-I -- small refactoring-robust building blocks used by C11, C36, C45, C46, C53, C56.

Nothing here imports or runs SQLAlchemy.  The larger machinery (helper inlining, alias resolution) is imported
read-only from `_helpers_rob_a` (`normal_form`); this file holds what those modules needed in addition:

* `positional_reads` / `position_of` -- which member of a tuple record a local holds, whether it was taken by
  `x = rec[2]`, by `_, obj, typ, ridx = rec` or by `obj, typ = rec[1], rec[2]`;
* `keyed_lookup` -- a dictionary lookup by any of its spellings (`d[k]`, `d.get(k)`, `d.get(k, dflt)`,
  `d[k] if k in d else dflt`, `if k in d: x = d[k] else: x = dflt`);
* `nf` -- `_helpers_rob_a.normal_form` with this file's defaults, tolerant of functions it cannot rewrite.
"""

from __future__ import annotations

import ast
from typing import Dict, Iterable, List, Optional, Tuple

from ..astutil import dotted, unparse, walk_local


# ---------------------------------------------------------------------- tuple records
def _int_index(e) -> Optional[int]:
    if isinstance(e, ast.Subscript) and isinstance(e.slice, ast.Constant) and isinstance(e.slice.value, int) and not isinstance(e.slice.value, bool):
        return e.slice.value
    return None


def positional_reads(fn, consts: Optional[Dict[str, int]] = None) -> Dict[str, Tuple[str, int]]:
    """{local: (record expression text, position)} for every local of `fn` ALL of whose subscript/unpacking
    bindings take the same member of some record: `x = rec[2]`, `x = rec[MD_X]` (consts), `a, b, c = rec`
    (no star), `a, b = rec[1], rec[2]`.  Bindings that take no member of a record (`x = None`, `t = NULLTYPE` in a
    "not found" branch) are ignored."""
    consts = consts or {}
    seen: Dict[str, List[Tuple[str, int]]] = {}
    bad = set()

    def idx(e):
        i = _int_index(e)
        if i is None and isinstance(e, ast.Subscript) and isinstance(e.slice, ast.Name) and e.slice.id in consts:
            i = consts[e.slice.id]
        return i

    def one(target, value):
        if isinstance(target, (ast.Tuple, ast.List)):
            if any(isinstance(t, ast.Starred) for t in target.elts):
                for t in target.elts:
                    for x in ast.walk(t):
                        if isinstance(x, ast.Name):
                            bad.add(x.id)
                return
            if isinstance(value, (ast.Tuple, ast.List)) and len(value.elts) == len(target.elts):
                for t, v in zip(target.elts, value.elts):
                    one(t, v)
                return
            rec = dotted(value)
            for i, t in enumerate(target.elts):
                if isinstance(t, ast.Name):
                    if rec is not None and "()" not in rec:
                        seen.setdefault(t.id, []).append((rec, i))
                    else:
                        bad.add(t.id)
            return
        if not isinstance(target, ast.Name):
            return
        if isinstance(value, ast.Constant):
            return
        i = idx(value)
        rec = dotted(value.value) if isinstance(value, ast.Subscript) else None
        if i is not None and rec is not None:
            seen.setdefault(target.id, []).append((rec, i))
        # (any other binding is the default of a "not found" branch: `mapped_type = sqltypes.NULLTYPE`)

    for n in walk_local(fn):
        if isinstance(n, ast.Assign):
            for t in n.targets:
                one(t, n.value)
        elif isinstance(n, ast.AnnAssign) and n.value is not None:
            one(n.target, n.value)
        elif isinstance(n, (ast.For, ast.AsyncFor)):
            for x in ast.walk(n.target):
                if isinstance(x, ast.Name):
                    bad.add(x.id)
        elif isinstance(n, ast.AugAssign) and isinstance(n.target, ast.Name):
            bad.add(n.target.id)
    out = {}
    for nm, lst in seen.items():
        if nm in bad:
            continue
        if len({i for _, i in lst}) == 1:
            out[nm] = lst[0]
    return out


def position_of(e, reads: Dict[str, Tuple[str, int]], consts: Optional[Dict[str, int]] = None) -> Optional[int]:
    """Record position an expression stands for: a local of `positional_reads`, or `rec[2]` used directly."""
    if isinstance(e, ast.Name):
        r = reads.get(e.id)
        return r[1] if r else None
    i = _int_index(e)
    if i is None and consts and isinstance(e, ast.Subscript) and isinstance(e.slice, ast.Name) and e.slice.id in consts:
        i = consts[e.slice.id]
    return i


# ---------------------------------------------------------------------- normal form with defaults
def nf(ctx, f, keep: Iterable[str] = (), inline: bool = True, alias: Optional[str] = "dotted", depth: int = 2):
    """`_helpers_rob_a.normal_form(ctx, f, ...)`; answers `f` itself when the function cannot be rewritten."""
    from ._helpers_rob_a import normal_form
    try:
        return normal_form(ctx, f, keep=keep, inline=inline, alias=alias, depth=depth)
    except (RecursionError, AttributeError, TypeError, ValueError, KeyError, IndexError):
        return f


# ---------------------------------------------------------------------- calls
def bind_call(call: ast.Call, fnode, bound_method: bool = True) -> Optional[Dict[str, ast.expr]]:
    """{parameter name: argument expression} of `call` against the signature of `fnode` (defaults filled in);
    None when the call uses * / ** or does not fit.  bound_method: the first parameter is the receiver."""
    a = fnode.args
    if any(isinstance(x, ast.Starred) for x in call.args) or any(k.arg is None for k in call.keywords) or a.vararg or a.kwarg:
        return None
    params = [x.arg for x in a.posonlyargs + a.args]
    kwonly = [x.arg for x in a.kwonlyargs]
    out: Dict[str, ast.expr] = {}
    pos = list(params)
    if bound_method and pos:
        recv = call.func.value if isinstance(call.func, ast.Attribute) else None
        out[pos.pop(0)] = recv if recv is not None else ast.Name(id="self", ctx=ast.Load())
    if len(call.args) > len(pos):
        return None
    for p_, v in zip(pos, call.args):
        out[p_] = v
    for k in call.keywords:
        if k.arg in out or k.arg not in params + kwonly:
            return None
        out[k.arg] = k.value
    for p_, d in zip(params[len(params) - len(a.defaults):], a.defaults):
        out.setdefault(p_, d)
    for p_, d in zip(kwonly, a.kw_defaults):
        if d is not None:
            out.setdefault(p_, d)
    if any(p_ not in out for p_ in params + kwonly):
        return None
    return out


def enclosing_function(pm, node):
    cur = pm.get(node)
    while cur is not None and not isinstance(cur, (ast.FunctionDef, ast.AsyncFunctionDef)):
        cur = pm.get(cur)
    return cur


def function_params(fnode) -> List[str]:
    a = fnode.args
    return [x.arg for x in a.posonlyargs + a.args + a.kwonlyargs]


# ---------------------------------------------------------------------- guards through boolean locals
def _bool_defs(fn) -> Dict[str, ast.expr]:
    """{local: defining expression} for locals bound exactly once, to a comparison / boolean combination / `not`
    (a named condition: `same_count = n == len(desc)`), whose own operands are not rebound anywhere in `fn`."""
    from ..astutil import name_stores
    by: Dict[str, List[Optional[ast.expr]]] = {}
    for n, v, s in name_stores(fn):
        by.setdefault(n, []).append(v)
    nstores = {n: len(vs) for n, vs in by.items()}
    params = {a.arg for a in fn.args.posonlyargs + fn.args.args + fn.args.kwonlyargs} if hasattr(fn, "args") else set()
    out = {}
    for n, vs in by.items():
        if len(vs) != 1 or vs[0] is None or n in params:
            continue
        v = vs[0]
        if not isinstance(v, (ast.Compare, ast.BoolOp)) and not (isinstance(v, ast.UnaryOp) and isinstance(v.op, ast.Not)):
            continue
        reads = {x.id for x in ast.walk(v) if isinstance(x, ast.Name)}
        if any(nstores.get(r, 0) > 1 for r in reads):
            continue
        out[n] = v
    return out


class _ExpandBool(ast.NodeTransformer):
    def __init__(self, defs, depth=3):
        self.defs, self.depth = defs, depth

    def visit_Name(self, node):
        if isinstance(node.ctx, ast.Load) and node.id in self.defs and self.depth > 0:
            import copy
            new = copy.deepcopy(self.defs[node.id])
            return _ExpandBool(self.defs, self.depth - 1).visit(new)
        return node


def resolved_guard_atoms(g, node: int, fn) -> set:
    """`guard_atom_set(g, node)` after replacing named conditions (boolean locals bound once) by their definition:
    `if ordered and same_count:` with `same_count = a == b` yields the atom (`a == b`, True)."""
    import copy
    from ..astutil import test_atoms
    defs = _bool_defs(fn)
    out = set()
    for t, pol in g.edge_guards(node):
        if defs and any(isinstance(x, ast.Name) and x.id in defs for x in ast.walk(t)):
            t = _ExpandBool(defs).visit(copy.deepcopy(t))
            ast.fix_missing_locations(t)
        out.update(test_atoms(t, pol))
    return out
