"""C18 -- LIMIT/OFFSET and their emulations: window bounds, clause rendering per dialect, wrapper guards."""

from __future__ import annotations

import ast
import re

from ..astutil import call_name, calls_in, dotted, guard_atoms, lexical_guards, name_stores, unparse, walk_local
from ..astutil import func_defaults
from ..index import FuncInfo
from ..report import Registry, sub
from ._helpers_rules_a import OPAQUE, SymExec, SymV, Unsupported

R = Registry(
    "C18",
    title="LIMIT/OFFSET and their dialect emulations return exactly the requested slice",
    decides=(
        "on every path of the MSSQL / Oracle row-number wrappers the predicates on the row-number column are "
        "exactly rn > offset and rn <= limit (+ offset) for the three limit/offset combinations; the wrappers "
        "are built only under `_has_row_limiting_clause`, when OFFSET/FETCH is unavailable and not re-entrantly, "
        "and number the rows in the statement's ORDER BY; every limit_clause / fetch_clause implementation puts "
        "the limit in the count position and the offset in the skip position of its grammar for every "
        "combination, with a filler LIMIT where OFFSET alone is not accepted and OFFSET 0 ROWS where required."
    ),
    not_decided="the rows returned by a backend; FETCH PERCENT / WITH TIES semantics; interaction with DISTINCT/GROUP BY.",
)

MSSQL = "dialects/mssql/base.py::MSSQLCompiler"
ORACLE = "dialects/oracle/base.py::OracleCompiler"
L, O, F = SymV("limit"), SymV("offset"), SymV("fetch")
CMP = {ast.Gt: ">", ast.GtE: ">=", ast.Lt: "<", ast.LtE: "<=", ast.Eq: "==", ast.NotEq: "!="}


def _hooks(case, selectvars=None):
    """case = dict(limit=.., offset=.., fetch=..) of SymV or None."""

    def attr(n, env, sx, events):
        if n.attr == "_limit_clause":
            return case["limit"]
        if n.attr == "_offset_clause":
            return case["offset"]
        if n.attr == "_fetch_clause":
            return case["fetch"]
        return NotImplemented

    def call(n, env, sx, events):
        f = n.func
        nm = call_name(n) or ""
        short = nm.rsplit(".", 1)[-1]
        if short == "render_literal_execute" and isinstance(f, ast.Attribute):
            return sx.ev(f.value, env, events)
        if short in ("column", "literal_column") and n.args and isinstance(n.args[0], ast.Constant):
            return ("col", n.args[0].value)
        if short == "literal" and nm.startswith("sql.") and n.args:
            v = sx.ev(n.args[0], env, events)
            return ("lit", v)
        if short == "_get_limit_or_fetch":
            return case["fetch"] if case["fetch"] is not None else case["limit"]
        if short == "process" and isinstance(f, ast.Attribute) and n.args:
            v = sx.ev(n.args[0], env, events)
            if isinstance(v, SymV):
                return f"‹{v.name}›"
            if isinstance(v, tuple) and v and v[0] == "lit":
                return f"‹lit:{v[1]}›"
            return "‹?›"
        if short == "select" and nm in ("sql.select", "select", "expression.select"):
            events.append(("wrap", n.lineno))
            for a in n.args:
                sx.ev(a.value if isinstance(a, ast.Starred) else a, env, events)
            return OPAQUE
        if short == "where" and isinstance(f, ast.Attribute) and len(n.args) == 1:
            sx.ev(f.value, env, events)
            a = n.args[0]
            if isinstance(a, ast.Compare) and len(a.ops) == 1 and type(a.ops[0]) in CMP:
                events.append(("pred", CMP[type(a.ops[0])], sx.ev(a.left, env, events), sx.ev(a.comparators[0], env, events), n.lineno))
            else:
                sx.ev(a, env, events)
            return OPAQUE
        if short in ("limit_clause", "fetch_clause", "_row_limit_clause") and isinstance(f, ast.Attribute):
            recv = "super" if isinstance(f.value, ast.Call) else dotted(f.value)
            kws = {k.arg: sx.ev(k.value, env, events) for k in n.keywords if k.arg}
            events.append(("deleg", recv, short, kws))
            return f"‹{recv}.{short}›"
        return NotImplemented

    return attr, call


def _norm_sum(v):
    """('add', a, b) nests -> frozenset of symbol names; SymV -> {name}."""
    if isinstance(v, SymV):
        return frozenset([v.name])
    if isinstance(v, tuple) and v and v[0] == "add":
        a, b = _norm_sum(v[1]), _norm_sum(v[2])
        if a is None or b is None or (a & b):
            return None
        return a | b
    return None


CASES = {
    "limit-only": dict(limit=L, offset=None, fetch=None),
    "limit+offset": dict(limit=L, offset=O, fetch=None),
    "offset-only": dict(limit=None, offset=O, fetch=None),
}
EXPECT = {
    "limit-only": ([], [("<=", frozenset(["limit"]))]),
    "limit+offset": ([(">", frozenset(["offset"]))], [("<=", frozenset(["limit", "offset"]))]),
    "offset-only": ([(">", frozenset(["offset"]))], []),
}


@R.rule("C18-R1", floor=6, template="T-TABLE over extracted comparisons (all paths)",
        desc="row-number wrappers of MSSQL and Oracle: on every path that builds the wrapper, the predicates on the "
             "row-number column are exactly `rn > offset` and `rn <= limit [+ offset]`")
def r1(ctx):
    for ckey in (MSSQL, ORACLE):
        f = ctx.method(ckey, "translate_select_structure")
        for cname, case in CASES.items():
            key = f"{f.key}:{cname}"
            attr, call = _hooks(case)
            sx = SymExec(attr=attr, call=call, what=f.key)
            paths = sx.run(f.node.body, {})
            wrapped = [p for p in paths if any(e[0] == "wrap" for e in p[3])]
            if not wrapped:
                ctx.violation(key, "no path builds the row-number wrapper for this combination", f.loc)
                continue
            want_lo, want_hi = EXPECT[cname]
            bad = None
            for kind, val, env, events in wrapped:
                preds = [e for e in events if e[0] == "pred" and isinstance(e[2], tuple) and e[2] and e[2][0] == "col"]
                lo = sorted((op, _norm_sum(r)) for _, op, l, r, ln in preds if op in (">", ">="))
                hi = sorted((op, _norm_sum(r)) for _, op, l, r, ln in preds if op in ("<", "<="))
                other = [e for e in preds if e[1] in ("==", "!=")]
                if lo != sorted(want_lo) or hi != sorted(want_hi) or other:
                    def show(ps):
                        return ", ".join(f"rn {op} {'+'.join(sorted(s)) if s else '?'}" for op, s in ps) or "none"
                    bad = (f"a wrapper path has lower bound(s) [{show(lo)}] and upper bound(s) [{show(hi)}]; the slice "
                           f"requires [{show(sorted(want_lo))}] and [{show(sorted(want_hi))}] "
                           f"(predicates at line(s) {sorted({e[4] for e in preds})})")
                    break
            ctx.check(bad is None, key, bad or "", f"{len(wrapped)} wrapper path(s) of {len(paths)}: bounds exact", f.loc)


# ------------------------------------------------------------------------------------------ R2
TOKEN = re.compile(r"LIMIT|OFFSET|FETCH|FIRST|ROWS|ONLY|,|‹[^›]*›|\(|\)|-?\d+|\w+", re.I)
NEEDS_LIMIT_BEFORE_OFFSET = {
    "sql/compiler.py::SQLCompiler": "generic LIMIT/OFFSET grammar (SQLite/MySQL family): OFFSET is only valid after LIMIT",
    "dialects/sqlite/base.py::SQLiteCompiler": "SQLite: OFFSET is only valid after LIMIT",
    "dialects/mysql/base.py::MySQLCompiler": "MySQL: offset is the first operand of LIMIT <skip>, <count>",
}


def _parse_limit_text(text):
    """-> (count token or None, skip token or None) or an error string.  Grammars: `LIMIT c [OFFSET s]`,
    `OFFSET s`, `LIMIT s, c` (MySQL)."""
    toks = [t for t in TOKEN.findall(text.replace("\n", " "))]
    up = [t.upper() if not t.startswith("‹") else t for t in toks]
    if not up:
        return (None, None)
    i = 0
    count = skip = None
    if up[i] == "LIMIT":
        if len(up) < 2:
            return "LIMIT without operand"
        if len(up) >= 4 and up[2] == ",":
            skip, count = toks[1], toks[3]
            i = 4
        else:
            count = toks[1]
            i = 2
    if i < len(up) and up[i] == "OFFSET":
        if skip is not None:
            return "both `LIMIT s, c` and OFFSET"
        if i + 1 >= len(up):
            return "OFFSET without operand"
        skip = toks[i + 1]
        i += 2
    if i != len(up):
        return f"unexpected text after the clause: {' '.join(toks[i:])}"
    return (count, skip)


def _run_cases(ctx, f: FuncInfo, cases, extra_env=None):
    out = {}
    for cname, case in cases.items():
        attr, call = _hooks(case)
        sx = SymExec(attr=attr, call=call, what=f.key)
        env = {}
        for p, d in func_defaults(f.node).items():
            env[p] = d.value if isinstance(d, ast.Constant) else OPAQUE
        env.update(extra_env or {})
        out[cname] = sx.run(f.node.body, env)
    return out


@R.rule("C18-R2", floor=31, template="T-SIBLING (symbolic rendering per limit/offset combination)",
        desc="each limit_clause: limit in the count position, offset in the skip position of its grammar, a filler "
             "LIMIT when only OFFSET is given and the grammar needs it; each fetch_clause: OFFSET n ROWS before "
             "FETCH FIRST m ROWS, OFFSET 0 ROWS filler under require_offset; limit/fetch selection helpers")
def r2(ctx):
    ix = ctx.index
    base = ix.cls("sql/compiler.py::SQLCompiler")
    classes = [base] + sorted(ix.subclasses(base), key=lambda c: c.key)
    for cls in classes:
        f = cls.methods.get("limit_clause")
        if f is None:
            continue
        ctx.functions_analysed.add(f.key)
        res = _run_cases(ctx, f, CASES)
        for cname, paths in res.items():
            key = f"{f.key}:{cname}"
            case = CASES[cname]
            problems = []
            texts = set()
            for kind, val, env, events in paths:
                if kind != "return" or not isinstance(val, str):
                    problems.append(f"a path does not return a string ({kind})")
                    continue
                texts.add(val)
            if texts == {""}:
                # the dialect renders nothing here: it must have a row-number wrapper or its own _row_limit_clause
                has_alt = ix.resolve_method(cls, "_row_limit_clause") is not None and \
                    ix.resolve_method(cls, "_row_limit_clause").cls is not base
                ctx.check(has_alt, key, "limit_clause renders nothing and the class has no _row_limit_clause override / wrapper",
                          "rendered by _row_limit_clause / translate_select_structure", f.loc)
                continue
            for t in sorted(texts):
                p = _parse_limit_text(t)
                if isinstance(p, str):
                    problems.append(f"{t!r}: {p}")
                    continue
                count, skip = p
                if case["limit"] is not None and count != "‹limit›":
                    problems.append(f"{t!r}: the row count position holds {count}, not the limit")
                if case["limit"] is None and count is not None and count.startswith("‹") and not count.startswith("‹lit:"):
                    problems.append(f"{t!r}: the row count position holds {count} although no limit was given")
                if case["offset"] is not None and skip != "‹offset›":
                    problems.append(f"{t!r}: the skip position holds {skip}, not the offset")
                if case["offset"] is None and skip is not None and skip.startswith("‹") and not skip.startswith("‹lit:"):
                    problems.append(f"{t!r}: the skip position holds {skip} although no offset was given")
                if case["limit"] is None and case["offset"] is not None and count is None and cls.key in NEEDS_LIMIT_BEFORE_OFFSET:
                    problems.append(f"{t!r}: OFFSET without a filler LIMIT ({NEEDS_LIMIT_BEFORE_OFFSET[cls.key]})")
            ctx.check(not problems, key, "; ".join(problems), " | ".join(sorted(texts)).replace("\n", " "), f.loc)
    # fetch_clause
    fcases = {
        "fetch-only": dict(limit=None, offset=None, fetch=F),
        "fetch+offset": dict(limit=None, offset=O, fetch=F),
    }
    for cls in classes:
        f = cls.methods.get("fetch_clause")
        if f is None:
            continue
        ctx.functions_analysed.add(f.key)
        for req in ((False, True) if "require_offset" in f.params else (None,)):
            extra = {} if req is None else {"require_offset": req}
            res = _run_cases(ctx, f, fcases, extra)
            for cname, paths in res.items():
                key = f"{f.key}:{cname}" + ("" if not req else ":require_offset")
                case = fcases[cname]
                problems = []
                seen = set()
                for kind, val, env, events in paths:
                    deleg = [e for e in events if e[0] == "deleg" and e[1] == "super" and e[2] == "fetch_clause"]
                    if deleg:
                        kws = deleg[0][3]
                        for p in ("fetch_clause", "require_offset"):
                            if p in f.params and (p not in kws or kws[p] != env.get(p, OPAQUE)):
                                problems.append(f"super().fetch_clause() is not given `{p}` unchanged")
                        seen.add("super().fetch_clause(...)")
                        continue
                    if kind != "return" or not isinstance(val, str):
                        problems.append(f"a path does not return a string ({kind})")
                        continue
                    t = " ".join(val.split())
                    seen.add(t)
                    mo = re.search(r"OFFSET \(?(‹[^›]*›|\d+)\)? ROWS", t)
                    mf = re.search(r"FETCH FIRST \(?(‹[^›]*›)\)?", t)
                    if not mf or mf.group(1) != "‹fetch›":
                        problems.append(f"{t!r}: FETCH FIRST does not carry the fetch value")
                    if case["offset"] is not None and (not mo or mo.group(1) != "‹offset›"):
                        problems.append(f"{t!r}: OFFSET … ROWS does not carry the offset")
                    if case["offset"] is None and mo and mo.group(1).startswith("‹"):
                        problems.append(f"{t!r}: OFFSET rendered from {mo.group(1)} although no offset was given")
                    if case["offset"] is None and req and not mo:
                        problems.append(f"{t!r}: require_offset is set but no `OFFSET 0 ROWS` filler is rendered")
                    if mo and mf and mo.start() > mf.start():
                        problems.append(f"{t!r}: FETCH precedes OFFSET")
                ctx.check(not problems, key, "; ".join(sorted(set(problems))), " | ".join(sorted(seen)), f.loc)
    # helpers choosing between limit and fetch
    for ckey in (MSSQL, ORACLE):
        cls = ix.cls(ckey)
        f = cls.methods.get("_get_limit_or_fetch")
        if f is None:
            continue
        ctx.functions_analysed.add(f.key)
        good = True
        for case, want in ((dict(limit=L, offset=None, fetch=None), L), (dict(limit=None, offset=None, fetch=F), F),
                           (dict(limit=L, offset=None, fetch=F), F)):
            attr, call = _hooks(case)
            paths = SymExec(attr=attr, call=None, what=f.key).run(f.node.body, {})
            good = good and bool(paths) and all(k == "return" and v == want for k, v, _, _ in paths)
        ctx.check(good, f.key, "_get_limit_or_fetch does not return the fetch clause when present and the limit otherwise",
                  "fetch if present else limit", f.loc)
    f = base.methods.get("_row_limit_clause")
    ctx.require(f is not None, "SQLCompiler._row_limit_clause vanished")
    good = True
    for case, want in ((dict(limit=L, offset=None, fetch=None), "limit_clause"), (dict(limit=None, offset=O, fetch=F), "fetch_clause"),
                       (dict(limit=None, offset=O, fetch=None), "limit_clause")):
        attr, call = _hooks(case)
        paths = SymExec(attr=attr, call=call, what=f.key).run(f.node.body, {})
        for k, v, env, events in paths:
            d = [e for e in events if e[0] == "deleg"]
            good = good and k == "return" and len(d) == 1 and d[0][2] == want
    ctx.check(good, f.key, "_row_limit_clause does not route FETCH to fetch_clause() and LIMIT/OFFSET to limit_clause()",
              "fetch -> fetch_clause, else limit_clause", f.loc)


# ------------------------------------------------------------------------------------------ R3
@R.rule("C18-R3", floor=7, template="T-GUARD/T-FLOW",
        desc="the wrapper is built only under _has_row_limiting_clause, with OFFSET/FETCH unavailable and not "
             "re-entrantly; rows are numbered in the statement's ORDER BY (MSSQL: over(order_by=<order by clauses>), "
             "an empty ORDER BY is rejected; Oracle: ROWNUM over the ordered inner select)")
def r3(ctx):
    for ckey, marker in ((MSSQL, "_mssql_visit"), (ORACLE, "_oracle_visit")):
        f = ctx.method(ckey, "translate_select_structure")
        pm = f.module.parents()
        wraps = [c for c in calls_in(f.node) if (call_name(c) or "") in ("sql.select", "select")]
        ctx.require(wraps, f"{f.key}: no sql.select() wrapper construction")
        problems = []
        for c in wraps:
            atoms = guard_atoms(lexical_guards(pm, c, stop=f.node))
            txt = {(a, p) for a, p in atoms}
            if not any(a.endswith("._has_row_limiting_clause") and p for a, p in txt):
                problems.append(f"line {c.lineno}: wrapper not guarded by _has_row_limiting_clause")
            if not any(a.endswith("dialect._supports_offset_fetch") and not p for a, p in txt):
                problems.append(f"line {c.lineno}: wrapper also built when OFFSET/FETCH is supported")
            if not any(marker in a and not p for a, p in txt):
                problems.append(f"line {c.lineno}: wrapper not guarded against re-entry ({marker})")
        ctx.check(not problems, f.key + ":guards", "; ".join(problems), f"{len(wraps)} wrapper construction(s) guarded", f.loc)
        # the regenerated statement (still carrying limit/offset) must be flagged before it is wrapped as a
        # subquery, otherwise compiling the subquery applies the wrapper again
        g = ctx.cfg(f)
        gens = [n for n in walk_local(f.node) if isinstance(n, ast.Assign) and isinstance(n.targets[0], ast.Name)
                and isinstance(n.value, ast.Call) and isinstance(n.value.func, ast.Attribute) and n.value.func.attr == "_generate"]
        ctx.require(len(gens) == 1, f"{f.key}: expected one `x = select._generate()`")
        var = gens[0].targets[0].id
        marks = [n for n in walk_local(f.node) if isinstance(n, ast.Assign) and isinstance(n.targets[0], ast.Attribute)
                 and n.targets[0].attr == marker and isinstance(n.targets[0].value, ast.Name) and n.targets[0].value.id == var
                 and isinstance(n.value, ast.Constant) and n.value.value is True]
        aliases = [n for n in walk_local(f.node) if isinstance(n, ast.Assign)
                   and any(isinstance(c, ast.Call) and isinstance(c.func, ast.Attribute) and c.func.attr == "alias"
                           and any(isinstance(x, ast.Name) and x.id == var for x in ast.walk(c.func.value)) for c in ast.walk(n.value))]
        ctx.require(aliases, f"{f.key}: the regenerated select is never aliased into a subquery")
        from ..cfg import no_exc
        w = g.must_pass([i for i in g.nodes_for(gens[0])], [i for a in aliases for i in g.nodes_for(a)],
                        [i for m_ in marks for i in g.nodes_for(m_)], edge_ok=no_exc)
        ctx.check(bool(marks) and w is None, f.key + ":marker",
                  f"the regenerated select is wrapped as a subquery without `{var}.{marker} = True` (the wrapper would be applied again)",
                  f"{marker} set before aliasing", f.loc, w)
    f = ctx.method(MSSQL, "translate_select_structure")
    over = [c for c in calls_in(f.node) if isinstance(c.func, ast.Attribute) and c.func.attr == "over"]
    ctx.require(len(over) == 1, f"{f.key}: expected one .over(...) call")
    ob = {k.arg: k.value for k in over[0].keywords}.get("order_by")
    src = None
    if isinstance(ob, ast.Name):
        binds = [v for n, v, st in name_stores(f.node) if n == ob.id and v is not None]
        src = binds[0] if len(binds) == 1 else None
    elif ob is not None:
        src = ob
    ok = src is not None and "_order_by_clause" in unparse(src)
    rn = dotted(over[0].func.value.func) if isinstance(over[0].func.value, ast.Call) else ""
    ctx.check(ok and (rn or "").upper().endswith("ROW_NUMBER"), f.key + ":order",
              "ROW_NUMBER() is not computed OVER the statement's ORDER BY clauses", "ROW_NUMBER() OVER (ORDER BY <order by>)", f.loc)
    chk = ctx.method(MSSQL, "_check_can_use_fetch_limit")
    g = ctx.cfg(f)
    calls = g.find_calls("_check_can_use_fetch_limit")
    wrapn = g.find_calls("sql.select")
    dominated = bool(calls) and all(g.always_preceded(w, calls) is None for w in wrapn)
    raises_on_empty = any(isinstance(n, ast.If) and "_order_by_clause.clauses" in unparse(n.test)
                          and any(isinstance(x, ast.Raise) for x in ast.walk(n)) for n in walk_local(chk.node))
    ctx.check(dominated and raises_on_empty, f.key + ":order-required",
              "the wrapper can be built without first rejecting an empty ORDER BY (row numbers would be arbitrary)",
              "CompileError without ORDER BY", f.loc)
    f = ctx.method(ORACLE, "translate_select_structure")
    strips = [c for c in calls_in(f.node) if isinstance(c.func, ast.Attribute) and c.func.attr == "order_by"]
    rownum = [c for c in calls_in(f.node) if (call_name(c) or "").endswith("literal_column") and c.args
              and isinstance(c.args[0], ast.Constant) and c.args[0].value == "ROWNUM"]
    inner_alias = [n for n in walk_local(f.node) if isinstance(n, ast.Assign) and isinstance(n.value, ast.Call)
                   and isinstance(n.value.func, ast.Attribute) and n.value.func.attr == "alias"]
    ctx.check(not strips and bool(rownum) and bool(inner_alias), f.key + ":order",
              "the inner (ordered) select is re-ordered / ROWNUM is not applied outside an aliased ordered subquery",
              "ROWNUM over aliased ordered inner select", f.loc)


# ------------------------------------------------------------------------------------------ self test
MS = "dialects/mssql/base.py"
OR = "dialects/oracle/base.py"
R.mutant("r1-mssql-offset-inclusive", MS, sub("limitselect = limitselect.where(mssql_rn > offset_clause)", "limitselect = limitselect.where(mssql_rn >= offset_clause)"), "C18-R1")
R.mutant("r1-mssql-upper-forgets-offset", MS, sub("                        mssql_rn <= (limit_clause + offset_clause)\n", "                        mssql_rn <= (limit_clause)\n"), "C18-R1")
R.mutant("r1-oracle-upper-forgets-offset", OR,
         sub("                        max_row = limit_clause\n\n                        if offset_clause is not None:\n                            max_row = max_row + offset_clause\n\n                    else:",
             "                        max_row = limit_clause\n\n                    else:"), "C18-R1")
R.mutant("r1-oracle-strict-upper", OR, sub('                        sql.literal_column("ROWNUM") <= max_row\n', '                        sql.literal_column("ROWNUM") < max_row\n'), "C18-R1")
R.mutant("r2-mysql-swapped-operands", "dialects/mysql/base.py",
         sub("                return \" \\n LIMIT %s, %s\" % (\n                    self.process(offset_clause, **kw),\n                    self.process(limit_clause, **kw),\n",
             "                return \" \\n LIMIT %s, %s\" % (\n                    self.process(limit_clause, **kw),\n                    self.process(offset_clause, **kw),\n"), "C18-R2")
R.mutant("r2-sqlite-no-filler", "dialects/sqlite/base.py",
         sub('            if select._limit_clause is None:\n                text += "\\n LIMIT " + self.process(sql.literal(-1))\n', ""), "C18-R2")
R.mutant("r2-base-offset-uses-limit", "sql/compiler.py",
         sub('            text += " OFFSET " + self.process(select._offset_clause, **kw)\n        return text\n\n    def fetch_clause(',
             '            text += " OFFSET " + self.process(select._limit_clause, **kw)\n        return text\n\n    def fetch_clause('), "C18-R2")
R.mutant("r2-fetch-no-offset-filler", "sql/compiler.py", sub('            text += "\\n OFFSET 0 ROWS"\n', '            pass\n'), "C18-R2")
R.mutant("r2-mssql-limit-or-fetch-inverted", MS,
         sub("        if select._fetch_clause is None:\n            return select._limit_clause\n        else:\n            return select._fetch_clause\n\n    def _use_top",
             "        if select._fetch_clause is not None:\n            return select._limit_clause\n        else:\n            return select._fetch_clause\n\n    def _use_top"), "C18-R2")
R.mutant("r3-mssql-wrapper-even-with-offset-fetch", MS,
         sub("            select._has_row_limiting_clause\n            and not self.dialect._supports_offset_fetch\n            and not self._use_top(select)\n",
             "            select._has_row_limiting_clause\n            and not self._use_top(select)\n"), "C18-R3")
R.mutant("r3-mssql-over-without-order", MS, sub("                    .over(order_by=_order_by_clauses)\n", "                    .over()\n"), "C18-R3")
R.mutant("r3-oracle-marker-not-set", OR,
         sub("                orig_select = select\n                select = select._generate()\n                select._oracle_visit = True\n",
             "                orig_select = select\n                select = select._generate()\n"), "C18-R3")
R.mutant("r3-mssql-no-order-check", MS, sub("            self._check_can_use_fetch_limit(select)\n\n            _order_by_clauses = [", "            _order_by_clauses = ["), "C18-R3")
# benign
R.mutant("benign-mssql-rename-local", MS,
         sub('            mssql_rn = sql.column("mssql_rn")\n', '            mssql_rn = sql.column("mssql_rn")\n            _dbg = None\n'), None)
R.mutant("benign-mssql-commuted-sum", MS, sub("                        mssql_rn <= (limit_clause + offset_clause)\n", "                        mssql_rn <= (offset_clause + limit_clause)\n"), None)
R.mutant("benign-pg-limit-local", "dialects/postgresql/base.py",
         sub('            text += " \\n LIMIT " + self.process(select._limit_clause, **kw)\n        if select._offset_clause is not None:\n            if select._limit_clause is None:\n                text += "\\n LIMIT ALL"',
             '            lim = self.process(select._limit_clause, **kw)\n            text += " \\n LIMIT " + lim\n        if select._offset_clause is not None:\n            if select._limit_clause is None:\n                text += "\\n LIMIT ALL"'), None)
