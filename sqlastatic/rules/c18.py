"""C18 -- LIMIT/OFFSET and their emulations: window bounds, clause rendering per dialect, wrapper guards."""

from __future__ import annotations

import ast
import re

from ..astutil import call_name, calls_in, dotted, guard_atoms, lexical_guards, name_stores, unparse, walk_local
from ..astutil import func_defaults
from ..index import FuncInfo
from ..report import Registry, sub
from ._helpers_rules_a import OPAQUE, SymExec as _SymExecBase, SymV, Unsupported
from ._helpers_rob_c1 import inline_locals
from ._helpers_rob_g1 import normal_form
from ._helpers_rob_h2 import Abs, Opq, PathInterp
from ._helpers_rob_h2 import Unsupported as PathUnsupported

R = Registry(
    "C18",
    title="LIMIT/OFFSET and their dialect emulations return exactly the requested slice",
    decides=(
        "on every path of the MSSQL / Oracle row-number wrappers the predicates on the row-number column are "
        "exactly rn > offset and rn <= limit (+ offset) for the three limit/offset combinations; the wrappers "
        "are built only under `_has_row_limiting_clause`, when OFFSET/FETCH is unavailable and not re-entrantly, "
        "and number the rows in the statement's ORDER BY; every limit_clause / fetch_clause implementation puts "
        "the limit in the count position and the offset in the skip position of its grammar for every "
        "combination, with a filler LIMIT where OFFSET alone is not accepted and OFFSET 0 ROWS where required; "
        "slice(start, stop) composes with an existing OFFSET as offset + start on every path of sql.util._make_slice "
        "and sets LIMIT to stop - start / stop, Core and ORM slice() pass and store the values alike (R4); every "
        "renderer of the FETCH value consults both fetch options (percent, with_ties) and no call substitutes "
        "default options (explicit fetch_clause=) where the statement may carry a FETCH (R5); the ORDER BY list inside the "
        "MSSQL ROW_NUMBER() window is the statement's COMPLETE list (no filter / de-duplication / slice / conditional append "
        "between _order_by_clause and over(order_by=..)) and a row-number column is not added to the SELECT level of a "
        "statement that may be DISTINCT (R3); outside the compilers every 'is this statement row-limited' predicate tests "
        "every component the object carries, FETCH included (R6); for every compiler class _row_limit_clause -- the only "
        "row-limit hook visit_compound_select calls -- renders a clause on every path for every LIMIT/OFFSET/FETCH presence (R7)."
    ),
    not_decided="the rows returned by a backend; the backend's own semantics of PERCENT / WITH TIES; interaction with "
                "GROUP BY (and with DISTINCT beyond the SELECT level of the row-number column); that slice() replaces (does not intersect with) an existing LIMIT.",
)

MSSQL = "dialects/mssql/base.py::MSSQLCompiler"
ORACLE = "dialects/oracle/base.py::OracleCompiler"
L, O, F = SymV("limit"), SymV("offset"), SymV("fetch")
CMP = {ast.Gt: ">", ast.GtE: ">=", ast.Lt: "<", ast.LtE: "<=", ast.Eq: "==", ast.NotEq: "!="}
FLIP = {">": "<", ">=": "<=", "<": ">", "<=": ">=", "==": "==", "!=": "!="}


class _HelperRaises(Exception):
    pass


class SymExec(_SymExecBase):
    """SymExec + the other spellings of string building (f-strings, "..".format(..), " ".join([..]), list literals) and
    helper following inside expressions: a call of a method of the same class / a function of the same module that the
    hooks do not interpret is executed symbolically with the evaluated arguments (`text += self._offset_text(select, **kw)`);
    a helper with several distinct outcomes inside an expression is not understood (Unsupported -> exit 2)."""

    def __init__(self, attr=None, call=None, what="function", follow=None, depth=0):
        super().__init__(attr=attr, call=call, what=what)
        self.follow = follow  # (ctx, FuncInfo of the function under analysis)
        self.depth = depth

    @staticmethod
    def _txt(x):
        return x if isinstance(x, str) else repr(x)

    def _callee(self, n):
        if self.follow is None or self.depth >= 2:
            return None
        ctx, f = self.follow
        fn = n.func
        tgt = None
        if isinstance(fn, ast.Attribute) and isinstance(fn.value, ast.Name) and fn.value.id in ("self", "cls") and f.cls is not None:
            tgt = ctx.index.resolve_method(f.cls, fn.attr)
        elif isinstance(fn, ast.Name):
            tgt = f.module.functions.get(fn.id)
        if tgt is None or tgt.module is not f.module or tgt.node is f.node or tgt.name in _NF_SKIP or tgt.type_only \
                or not isinstance(tgt.node, ast.FunctionDef):
            return None
        return tgt

    def _follow_call(self, n, env, events):
        tgt = self._callee(n)
        if tgt is None:
            return NotImplemented
        ctx, f = self.follow
        a = tgt.node.args
        names = [x.arg for x in a.posonlyargs + a.args]
        local = {}
        free = list(names)
        if tgt.cls is not None and free and free[0] in ("self", "cls") and "staticmethod" not in tgt.decorators:
            local[free.pop(0)] = OPAQUE
        pos = [x for x in n.args if not isinstance(x, ast.Starred)]
        if len(pos) > len(free):
            return NotImplemented
        for nm, x in zip(free, pos):
            local[nm] = self.ev(x, env, events)
        for k in n.keywords:
            v = self.ev(k.value, env, events)
            if k.arg:
                local[k.arg] = v
        for nm, d in func_defaults(tgt.node).items():
            if nm not in local:
                local[nm] = d.value if isinstance(d, ast.Constant) else OPAQUE
        ctx.functions_analysed.add(tgt.key)
        sub_ = SymExec(attr=self.attr, call=self.call, what=tgt.key, follow=(ctx, tgt), depth=self.depth + 1)
        try:
            done = [p_ for p_ in sub_.run(tgt.node.body, local) if p_[0] != "raise"]
        except Unsupported:
            return NotImplemented  # a helper outside the subset stays an opaque call, as before
        if not done:
            raise _HelperRaises()  # the helper raises on every path: so does the caller's path
        first = done[0]
        for p_ in done[1:]:
            if p_[1] != first[1] or p_[3] != first[3]:
                return NotImplemented  # several distinct outcomes inside an expression: opaque
        events.extend(first[3])
        return first[1] if first[0] == "return" else None

    def _block(self, stmts, env, events, cont):
        try:
            super()._block(stmts, env, events, cont)
        except _HelperRaises:
            self._finish("raise", None, env, events)

    def ev(self, n, env, events):
        if isinstance(n, ast.JoinedStr):
            out = ""
            for part in n.values:
                if isinstance(part, ast.Constant):
                    out += str(part.value)
                elif isinstance(part, ast.FormattedValue):
                    out += self._txt(self.ev(part.value, env, events))
            return out
        if isinstance(n, ast.List):
            return tuple(self.ev(e, env, events) for e in n.elts)
        if isinstance(n, ast.Call) and isinstance(n.func, ast.Attribute) and n.func.attr in ("format", "join") and not n.keywords:
            recv = self.ev(n.func.value, env, events)
            if isinstance(recv, str):
                args = [self.ev(a, env, events) for a in n.args if not isinstance(a, ast.Starred)]
                if len(args) == len(n.args):
                    try:
                        if n.func.attr == "format":
                            return recv.format(*[self._txt(a) for a in args])
                        if len(args) == 1 and isinstance(args[0], tuple):
                            return recv.join(self._txt(a) for a in args[0])
                    except Exception:
                        return OPAQUE
        if isinstance(n, ast.Call):
            if self.call is not None:
                r = self.call(n, env, self, events)
                if r is not NotImplemented:
                    return r
            n0 = len(events)
            r = self._follow_call(n, env, events)
            if r is not NotImplemented:
                return r
            del events[n0:]
            # the base class's default for a call nobody interprets (without consulting the hook a second time)
            if isinstance(n.func, ast.Attribute):
                self.ev(n.func.value, env, events)
            for a in n.args:
                self.ev(a.value if isinstance(a, ast.Starred) else a, env, events)
            for k in n.keywords:
                self.ev(k.value, env, events)
            return OPAQUE
        return super().ev(n, env, events)


# callees the symbolic hooks interpret by name: they stay calls, every other same-module helper / method of the class
# called at statement level (`self._helper(..)`, `x = self._helper(..)`, `return self._helper(..)`) is inlined first
_NF_SKIP = ("_get_limit_or_fetch", "limit_clause", "fetch_clause", "_row_limit_clause", "_use_top", "process")


def _nf(ctx, f):
    """FuncInfo copy of `f` with extracted helpers inlined (the inverse of 'extract method')."""
    return normal_form(ctx, f, skip=_NF_SKIP, depth=2, aliases=False)


def _hooks(case, selectvars=None, force=None):
    """case = dict(limit=.., offset=.., fetch=..) of SymV or None."""

    force = force or {}

    def attr(n, env, sx, events):
        if n.attr in force:
            return force[n.attr]
        if n.attr == "_limit_clause":
            return case["limit"]
        if n.attr == "_offset_clause":
            return case["offset"]
        if n.attr == "_fetch_clause":
            return case["fetch"]
        return NotImplemented

    def call(n, env, sx, events):
        f = n.func
        nm = call_name(n) or ""
        short = nm.rsplit(".", 1)[-1]
        if short == "getattr" and len(n.args) >= 2 and isinstance(n.args[1], ast.Constant) and n.args[1].value in force:
            return force[n.args[1].value]
        if short == "render_literal_execute" and isinstance(f, ast.Attribute):
            return sx.ev(f.value, env, events)
        if short in ("column", "literal_column") and n.args and isinstance(n.args[0], ast.Constant):
            return ("col", n.args[0].value)
        if short == "literal" and nm.startswith("sql.") and n.args:
            v = sx.ev(n.args[0], env, events)
            return ("lit", v)
        if short == "_get_limit_or_fetch":
            return case["fetch"] if case["fetch"] is not None else case["limit"]
        if short == "process" and isinstance(f, ast.Attribute) and n.args:
            v = sx.ev(n.args[0], env, events)
            if isinstance(v, SymV):
                return f"‹{v.name}›"
            if isinstance(v, tuple) and v and v[0] == "lit":
                return f"‹lit:{v[1]}›"
            return "‹?›"
        if short == "select" and nm in ("sql.select", "select", "expression.select"):
            events.append(("wrap", n.lineno))
            for a in n.args:
                sx.ev(a.value if isinstance(a, ast.Starred) else a, env, events)
            return OPAQUE
        if short in ("where", "filter") and isinstance(f, ast.Attribute) and n.args:
            sx.ev(f.value, env, events)

            def preds_of(a):
                # one comparison, several criteria in one call, and_(..) / `&` of comparisons: all are conjunctions
                if isinstance(a, ast.Compare) and len(a.ops) == 1 and type(a.ops[0]) in CMP:
                    op, lft, rgt = CMP[type(a.ops[0])], sx.ev(a.left, env, events), sx.ev(a.comparators[0], env, events)
                    is_col = lambda v: isinstance(v, tuple) and bool(v) and v[0] == "col"  # noqa: E731
                    if is_col(rgt) and not is_col(lft):   # `offset < rn` is `rn > offset`
                        op, lft, rgt = FLIP[op], rgt, lft
                    events.append(("pred", op, lft, rgt, n.lineno))
                elif isinstance(a, ast.Call) and (call_name(a) or "").rsplit(".", 1)[-1] == "and_":
                    for x in a.args:
                        preds_of(x)
                elif isinstance(a, ast.BinOp) and isinstance(a.op, ast.BitAnd):
                    preds_of(a.left)
                    preds_of(a.right)
                else:
                    sx.ev(a, env, events)

            for a in n.args:
                preds_of(a.value if isinstance(a, ast.Starred) else a)
            return OPAQUE
        if short in ("limit_clause", "fetch_clause", "_row_limit_clause") and isinstance(f, ast.Attribute):
            recv = "super" if isinstance(f.value, ast.Call) else dotted(f.value)
            kws = {k.arg: sx.ev(k.value, env, events) for k in n.keywords if k.arg}
            events.append(("deleg", recv, short, kws))
            return f"‹{recv}.{short}›"
        return NotImplemented

    return attr, call


def _norm_sum(v):
    """('add', a, b) nests -> frozenset of symbol names; SymV -> {name}."""
    if isinstance(v, SymV):
        return frozenset([v.name])
    if isinstance(v, tuple) and v and v[0] == "add":
        a, b = _norm_sum(v[1]), _norm_sum(v[2])
        if a is None or b is None or (a & b):
            return None
        return a | b
    return None


CASES = {
    "limit-only": dict(limit=L, offset=None, fetch=None),
    "limit+offset": dict(limit=L, offset=O, fetch=None),
    "offset-only": dict(limit=None, offset=O, fetch=None),
}
EXPECT = {
    "limit-only": ([], [("<=", frozenset(["limit"]))]),
    "limit+offset": ([(">", frozenset(["offset"]))], [("<=", frozenset(["limit", "offset"]))]),
    "offset-only": ([(">", frozenset(["offset"]))], []),
}


@R.rule("C18-R1", floor=6, template="T-TABLE over extracted comparisons (all paths)",
        desc="row-number wrappers of MSSQL and Oracle: on every path that builds the wrapper, the predicates on the "
             "row-number column are exactly `rn > offset` and `rn <= limit [+ offset]`")
def r1(ctx):
    for ckey in (MSSQL, ORACLE):
        f = ctx.method(ckey, "translate_select_structure")
        fbody = _nf(ctx, f).node.body
        for cname, case in CASES.items():
            key = f"{f.key}:{cname}"
            attr, call = _hooks(case)
            sx = SymExec(attr=attr, call=call, what=f.key, follow=(ctx, f))
            paths = sx.run(fbody, {})
            wrapped = [p for p in paths if any(e[0] == "wrap" for e in p[3])]
            if not wrapped:
                ctx.violation(key, "no path builds the row-number wrapper for this combination", f.loc)
                continue
            want_lo, want_hi = EXPECT[cname]
            bad = None
            for kind, val, env, events in wrapped:
                preds = [e for e in events if e[0] == "pred" and isinstance(e[2], tuple) and e[2] and e[2][0] == "col"]
                lo = sorted((op, _norm_sum(r)) for _, op, l, r, ln in preds if op in (">", ">="))
                hi = sorted((op, _norm_sum(r)) for _, op, l, r, ln in preds if op in ("<", "<="))
                other = [e for e in preds if e[1] in ("==", "!=")]
                if lo != sorted(want_lo) or hi != sorted(want_hi) or other:
                    def show(ps):
                        return ", ".join(f"rn {op} {'+'.join(sorted(s)) if s else '?'}" for op, s in ps) or "none"
                    bad = (f"a wrapper path has lower bound(s) [{show(lo)}] and upper bound(s) [{show(hi)}]; the slice "
                           f"requires [{show(sorted(want_lo))}] and [{show(sorted(want_hi))}] "
                           f"(predicates at line(s) {sorted({e[4] for e in preds})})")
                    break
            ctx.check(bad is None, key, bad or "", f"{len(wrapped)} wrapper path(s) of {len(paths)}: bounds exact", f.loc)


# ------------------------------------------------------------------------------------------ R2
TOKEN = re.compile(r"LIMIT|OFFSET|FETCH|FIRST|ROWS|ONLY|,|‹[^›]*›|\(|\)|-?\d+|\w+", re.I)
NEEDS_LIMIT_BEFORE_OFFSET = {
    "sql/compiler.py::SQLCompiler": "generic LIMIT/OFFSET grammar (SQLite/MySQL family): OFFSET is only valid after LIMIT",
    "dialects/sqlite/base.py::SQLiteCompiler": "SQLite: OFFSET is only valid after LIMIT",
    "dialects/mysql/base.py::MySQLCompiler": "MySQL: offset is the first operand of LIMIT <skip>, <count>",
}


def _parse_limit_text(text):
    """-> (count token or None, skip token or None) or an error string.  Grammars: `LIMIT c [OFFSET s]`,
    `OFFSET s`, `LIMIT s, c` (MySQL)."""
    toks = [t for t in TOKEN.findall(text.replace("\n", " "))]
    up = [t.upper() if not t.startswith("‹") else t for t in toks]
    if not up:
        return (None, None)
    i = 0
    count = skip = None
    if up[i] == "LIMIT":
        if len(up) < 2:
            return "LIMIT without operand"
        if len(up) >= 4 and up[2] == ",":
            skip, count = toks[1], toks[3]
            i = 4
        else:
            count = toks[1]
            i = 2
    if i < len(up) and up[i] == "OFFSET":
        if skip is not None:
            return "both `LIMIT s, c` and OFFSET"
        if i + 1 >= len(up):
            return "OFFSET without operand"
        skip = toks[i + 1]
        i += 2
    if i != len(up):
        return f"unexpected text after the clause: {' '.join(toks[i:])}"
    return (count, skip)


def _run_cases(ctx, f: FuncInfo, cases, extra_env=None):
    out = {}
    for cname, case in cases.items():
        attr, call = _hooks(case)
        sx = SymExec(attr=attr, call=call, what=f.key, follow=(ctx, f))
        env = {}
        for p, d in func_defaults(f.node).items():
            env[p] = d.value if isinstance(d, ast.Constant) else OPAQUE
        env.update(extra_env or {})
        out[cname] = sx.run(_nf(ctx, f).node.body, env)
    return out


@R.rule("C18-R2", floor=31, template="T-SIBLING (symbolic rendering per limit/offset combination)",
        desc="each limit_clause: limit in the count position, offset in the skip position of its grammar, a filler "
             "LIMIT when only OFFSET is given and the grammar needs it; each fetch_clause: OFFSET n ROWS before "
             "FETCH FIRST m ROWS, OFFSET 0 ROWS filler under require_offset; limit/fetch selection helpers")
def r2(ctx):
    ix = ctx.index
    base = ix.cls("sql/compiler.py::SQLCompiler")
    classes = [base] + sorted(ix.subclasses(base), key=lambda c: c.key)
    for cls in classes:
        f = cls.methods.get("limit_clause")
        if f is None:
            continue
        ctx.functions_analysed.add(f.key)
        res = _run_cases(ctx, f, CASES)
        for cname, paths in res.items():
            key = f"{f.key}:{cname}"
            case = CASES[cname]
            problems = []
            texts = set()
            for kind, val, env, events in paths:
                if kind != "return" or not isinstance(val, str):
                    problems.append(f"a path does not return a string ({kind})")
                    continue
                texts.add(val)
            if texts == {""}:
                # the dialect renders nothing here: it must have a row-number wrapper or its own _row_limit_clause
                has_alt = ix.resolve_method(cls, "_row_limit_clause") is not None and \
                    ix.resolve_method(cls, "_row_limit_clause").cls is not base
                ctx.check(has_alt, key, "limit_clause renders nothing and the class has no _row_limit_clause override / wrapper",
                          "rendered by _row_limit_clause / translate_select_structure", f.loc)
                continue
            ctx.require(not any("‹?›" in t for t in texts),
                        f"{key}: a fragment of the rendered clause is not understood: {sorted(texts)}")
            for t in sorted(texts):
                p = _parse_limit_text(t)
                if isinstance(p, str):
                    problems.append(f"{t!r}: {p}")
                    continue
                count, skip = p
                if case["limit"] is not None and count != "‹limit›":
                    problems.append(f"{t!r}: the row count position holds {count}, not the limit")
                if case["limit"] is None and count is not None and count.startswith("‹") and not count.startswith("‹lit:"):
                    problems.append(f"{t!r}: the row count position holds {count} although no limit was given")
                if case["offset"] is not None and skip != "‹offset›":
                    problems.append(f"{t!r}: the skip position holds {skip}, not the offset")
                if case["offset"] is None and skip is not None and skip.startswith("‹") and not skip.startswith("‹lit:"):
                    problems.append(f"{t!r}: the skip position holds {skip} although no offset was given")
                if case["limit"] is None and case["offset"] is not None and count is None and cls.key in NEEDS_LIMIT_BEFORE_OFFSET:
                    problems.append(f"{t!r}: OFFSET without a filler LIMIT ({NEEDS_LIMIT_BEFORE_OFFSET[cls.key]})")
            ctx.check(not problems, key, "; ".join(problems), " | ".join(sorted(texts)).replace("\n", " "), f.loc)
    # fetch_clause
    fcases = {
        "fetch-only": dict(limit=None, offset=None, fetch=F),
        "fetch+offset": dict(limit=None, offset=O, fetch=F),
    }
    for cls in classes:
        f = cls.methods.get("fetch_clause")
        if f is None:
            continue
        ctx.functions_analysed.add(f.key)
        for req in ((False, True) if "require_offset" in f.params else (None,)):
            extra = {} if req is None else {"require_offset": req}
            res = _run_cases(ctx, f, fcases, extra)
            for cname, paths in res.items():
                key = f"{f.key}:{cname}" + ("" if not req else ":require_offset")
                case = fcases[cname]
                problems = []
                seen = set()
                for kind, val, env, events in paths:
                    deleg = [e for e in events if e[0] == "deleg" and e[1] == "super" and e[2] == "fetch_clause"]
                    if deleg:
                        kws = deleg[0][3]
                        for p in ("fetch_clause", "require_offset"):
                            if p in f.params and (p not in kws or kws[p] != env.get(p, OPAQUE)):
                                problems.append(f"super().fetch_clause() is not given `{p}` unchanged")
                        seen.add("super().fetch_clause(...)")
                        continue
                    if kind != "return" or not isinstance(val, str):
                        problems.append(f"a path does not return a string ({kind})")
                        continue
                    t = " ".join(val.split())
                    seen.add(t)
                    mo = re.search(r"OFFSET \(?(‹[^›]*›|\d+)\)? ROWS", t)
                    mf = re.search(r"FETCH FIRST \(?(‹[^›]*›)\)?", t)
                    if not mf or mf.group(1) != "‹fetch›":
                        problems.append(f"{t!r}: FETCH FIRST does not carry the fetch value")
                    if case["offset"] is not None and (not mo or mo.group(1) != "‹offset›"):
                        problems.append(f"{t!r}: OFFSET … ROWS does not carry the offset")
                    if case["offset"] is None and mo and mo.group(1).startswith("‹"):
                        problems.append(f"{t!r}: OFFSET rendered from {mo.group(1)} although no offset was given")
                    if case["offset"] is None and req and not mo:
                        problems.append(f"{t!r}: require_offset is set but no `OFFSET 0 ROWS` filler is rendered")
                    if mo and mf and mo.start() > mf.start():
                        problems.append(f"{t!r}: FETCH precedes OFFSET")
                ctx.check(not problems, key, "; ".join(sorted(set(problems))), " | ".join(sorted(seen)), f.loc)
    # helpers choosing between limit and fetch
    for ckey in (MSSQL, ORACLE):
        cls = ix.cls(ckey)
        f = cls.methods.get("_get_limit_or_fetch")
        if f is None:
            continue
        ctx.functions_analysed.add(f.key)
        good = True
        for case, want in ((dict(limit=L, offset=None, fetch=None), L), (dict(limit=None, offset=None, fetch=F), F),
                           (dict(limit=L, offset=None, fetch=F), F)):
            attr, call = _hooks(case)
            paths = SymExec(attr=attr, call=None, what=f.key).run(f.node.body, {})
            good = good and bool(paths) and all(k == "return" and v == want for k, v, _, _ in paths)
        ctx.check(good, f.key, "_get_limit_or_fetch does not return the fetch clause when present and the limit otherwise",
                  "fetch if present else limit", f.loc)
    f = base.methods.get("_row_limit_clause")
    ctx.require(f is not None, "SQLCompiler._row_limit_clause vanished")
    good = True
    for case, want in ((dict(limit=L, offset=None, fetch=None), "limit_clause"), (dict(limit=None, offset=O, fetch=F), "fetch_clause"),
                       (dict(limit=None, offset=O, fetch=None), "limit_clause")):
        attr, call = _hooks(case)
        paths = SymExec(attr=attr, call=call, what=f.key).run(f.node.body, {})
        for k, v, env, events in paths:
            d = [e for e in events if e[0] == "deleg"]
            good = good and k == "return" and len(d) == 1 and d[0][2] == want
    ctx.check(good, f.key, "_row_limit_clause does not route FETCH to fetch_clause() and LIMIT/OFFSET to limit_clause()",
              "fetch -> fetch_clause, else limit_clause", f.loc)


# ------------------------------------------------------------------------------------------ R3
@R.rule("C18-R3", floor=10, template="T-GUARD/T-FLOW",
        desc="the wrapper is built only under _has_row_limiting_clause, with OFFSET/FETCH unavailable and not "
             "re-entrantly; rows are numbered in the statement's ORDER BY (MSSQL: over(order_by=<order by clauses>), "
             "an empty ORDER BY is rejected; Oracle: ROWNUM over the ordered inner select)")
def r3(ctx):
    for ckey, marker in ((MSSQL, "_mssql_visit"), (ORACLE, "_oracle_visit")):
        f = ctx.method(ckey, "translate_select_structure")
        f2 = _nf(ctx, f)
        fbody = f2.node.body
        # Decided by experiment, not by the shape of the guard: the method is executed symbolically for the three
        # limit/offset combinations with ONE fact forced; no path may then build the wrapper.  An inverted test with an
        # early return, De Morgan, nested ifs, a named boolean local or an extracted helper all give the same paths.
        base_n, base_total = _wrap_paths(ctx, f, fbody, {})
        ctx.require(base_n > 0, f"{f.key}: no path builds a sql.select() wrapper ({base_total} paths)")
        problems = []
        for force, msg in (
                ({"_has_row_limiting_clause": False}, "the wrapper is also built for a statement without LIMIT/OFFSET/FETCH (not guarded by _has_row_limiting_clause)"),
                ({"_supports_offset_fetch": True}, "the wrapper is also built when OFFSET/FETCH is supported"),
                ({marker: True}, f"the wrapper is not guarded against re-entry ({marker}): it is applied again when the subquery is compiled")):
            n, _t = _wrap_paths(ctx, f, fbody, force)
            if n:
                problems.append(f"{msg} [{n} wrapper path(s) with {next(iter(force))} = {next(iter(force.values()))}]")
        ctx.check(not problems, f.key + ":guards", "; ".join(problems), f"{base_n} wrapper path(s); none when a guard fact is negated", f.loc)
        # the regenerated statement (still carrying limit/offset) must be flagged before it is wrapped as a
        # subquery, otherwise compiling the subquery applies the wrapper again
        g = ctx.cfg(f2.node)
        gens = [n for n in walk_local(f2.node) if isinstance(n, ast.Assign) and isinstance(n.targets[0], ast.Name)
                and isinstance(n.value, ast.Call) and isinstance(n.value.func, ast.Attribute) and n.value.func.attr == "_generate"]
        ctx.require(gens, f"{f.key}: expected `x = select._generate()`")
        from ..cfg import no_exc
        ok_all, wit, var = True, None, None
        for gen in gens:
            var = gen.targets[0].id
            marks = [n for n in walk_local(f2.node) if isinstance(n, ast.Assign) and isinstance(n.targets[0], ast.Attribute)
                     and n.targets[0].attr == marker and isinstance(n.targets[0].value, ast.Name) and n.targets[0].value.id == var
                     and isinstance(n.value, ast.Constant) and n.value.value is True]
            marks += [n for n in walk_local(f2.node) if isinstance(n, ast.Expr) and isinstance(n.value, ast.Call)
                      and (call_name(n.value) or "") == "setattr" and len(n.value.args) == 3 and isinstance(n.value.args[0], ast.Name)
                      and n.value.args[0].id == var and isinstance(n.value.args[1], ast.Constant) and n.value.args[1].value == marker
                      and isinstance(n.value.args[2], ast.Constant) and n.value.args[2].value is True]
            aliases = [n for n in walk_local(f2.node) if isinstance(n, ast.stmt) and not isinstance(n, (ast.If, ast.For, ast.While, ast.With, ast.Try))
                       and any(isinstance(c, ast.Call) and isinstance(c.func, ast.Attribute) and c.func.attr in ("alias", "subquery")
                               and any(isinstance(x, ast.Name) and x.id == var for x in ast.walk(c.func.value)) for c in ast.walk(n))]
            ctx.require(aliases, f"{f.key}: the regenerated select is never aliased into a subquery")
            w = g.must_pass([i for i in g.nodes_for(gen)], [i for a in aliases for i in g.nodes_for(a)],
                            [i for m_ in marks for i in g.nodes_for(m_)], edge_ok=no_exc)
            if not marks or w is not None:
                ok_all, wit = False, w
        ctx.check(ok_all, f.key + ":marker",
                  f"the regenerated select is wrapped as a subquery without `{var}.{marker} = True` (the wrapper would be applied again)",
                  f"{marker} set before aliasing", f.loc, wit)
    f = ctx.method(MSSQL, "translate_select_structure")
    f2 = _nf(ctx, f)
    over = [c for c in calls_in(f2.node) if isinstance(c.func, ast.Attribute) and c.func.attr == "over"]
    ctx.require(len(over) >= 1, f"{f.key}: expected an .over(...) call")
    ok = True
    for ov in over:
        ob = {k.arg: k.value for k in ov.keywords}.get("order_by")
        rn = dotted(ov.func.value.func) if isinstance(ov.func.value, ast.Call) else ""
        ok = ok and ob is not None and "_order_by_clause" in _feeds(f2.node, ob) and (rn or "").upper().endswith("ROW_NUMBER")
    ctx.check(ok, f.key + ":order",
              "ROW_NUMBER() is not computed OVER the statement's ORDER BY clauses", "ROW_NUMBER() OVER (ORDER BY <order by>)", f.loc)
    # (str2-g) ... and over the COMPLETE list: every ORDER BY term of the statement becomes a term of the window's ORDER BY.
    # A term dropped between `_order_by_clause(s)` and over(order_by=..) (a filter, a de-duplication, a slice, a conditional
    # append) leaves rows that tie on the remaining terms numbered arbitrarily: the window is no longer the slice.
    g_ob = ctx.cfg(f2.node)
    verdicts = []
    for ov in over:
        ob = {k.arg: k.value for k in ov.keywords}.get("order_by")
        if ob is not None:
            verdicts.append(_elementwise(g_ob, f2.node, ob))
    unknown = [w for v, w in verdicts if v == "unknown"]
    ctx.require(not unknown, f"{f.key}: how the window's ORDER BY list is built from the statement's is not understood: {unknown}")
    some = [w for v, w in verdicts if v == "some"]
    ctx.check(bool(verdicts) and not some, f.key + ":order-complete",
              "the ORDER BY list inside ROW_NUMBER() OVER (...) is not the statement's complete ORDER BY: " + "; ".join(some)
              + " -- rows that tie on the terms that are kept get arbitrary row numbers, so `rn > offset AND rn <= limit + offset` "
                "no longer selects the slice of the fully ordered result (structural equality, e.g. ColumnElement.compare(), does not "
                "make a term redundant: columns of two anonymous aliases of one table compare equal)",
              "every term of select._order_by_clause reaches over(order_by=...) (element-wise, unconditionally)", f.loc)
    # an empty ORDER BY is rejected before the wrapper is built: with `_order_by_clause.clauses` forced empty no path
    # builds it (the checker helper is inlined by the normal form; if it cannot be inlined: a call of a method of the
    # class that raises under a test on _order_by_clause dominates every wrapper construction)
    n_empty, _t = _wrap_paths(ctx, f, f2.node.body, {"clauses": None})
    good = n_empty == 0
    if not good:
        g = ctx.cfg(f2.node)
        cls = ctx.index.cls(MSSQL)
        cnodes = []
        for c in calls_in(f2.node):
            nm = call_name(c) or ""
            if nm.startswith("self.") and nm.count(".") == 1:
                tgt = ctx.index.resolve_method(cls, nm.split(".")[1])
                if tgt is not None and _rejects_empty_order_by(tgt):
                    cnodes.extend(g.nodes_containing(c))
        wrapn = [i for c in calls_in(f2.node) if (call_name(c) or "") in ("sql.select", "select", "expression.select") for i in g.nodes_containing(c)]
        good = bool(cnodes) and bool(wrapn) and all(g.always_preceded(w, cnodes) is None for w in wrapn)
    ctx.check(good, f.key + ":order-required",
              "the wrapper can be built without first rejecting an empty ORDER BY (row numbers would be arbitrary)",
              "CompileError without ORDER BY", f.loc)
    # (str2-g) DISTINCT is evaluated AFTER window functions / ROWNUM of the same SELECT: a row-number column added to the
    # statement's own SELECT level makes every row distinct.  The number must be computed one level outside the (aliased)
    # original statement, or the wrapper must not be built for a DISTINCT statement.
    for ckey in (MSSQL, ORACLE):
        fw = ctx.method(ckey, "translate_select_structure")
        fw2 = _nf(ctx, fw)
        attach = []
        for c in calls_in(fw2.node):
            if isinstance(c.func, ast.Attribute) and c.func.attr in ("add_columns", "column", "with_only_columns", "add_column") \
                    and any(_is_row_number(x) for a in list(c.args) + [k.value for k in c.keywords]
                            for x in ast.walk(inline_locals(fw2.node, a.value if isinstance(a, ast.Starred) else a))):
                attach.append(c)
        levels = []
        pmw = {ch: p_ for p_ in ast.walk(fw2.node) for ch in ast.iter_child_nodes(p_)}
        for c in attach:
            st = c
            while st is not None and not isinstance(st, ast.stmt):
                st = pmw.get(st)
            levels.append((c, _select_level(ctx, fw2, c.func.value, st)))
        unk = [unparse(c)[:60] for c, lv in levels if "unknown" in lv]
        ctx.require(not unk, f"{fw.key}: cannot tell which SELECT level the row-number column is added to: {unk}")
        same = [c for c, lv in levels if "same" in lv]
        guarded = True
        if same:
            n_d, _t = _wrap_paths(ctx, fw, fw2.node.body, {"_distinct": True})
            guarded = n_d == 0
        ctx.check(not same or guarded, fw.key + ":distinct",
                  f"`{unparse(same[0])[:90] if same else ''}` adds the row-number column to the statement's own SELECT level and the wrapper is also "
                  f"built for a DISTINCT statement: `SELECT DISTINCT x, ROW_NUMBER() OVER (...)` -- DISTINCT is applied after the window "
                  f"function, every row differs in its row number, so duplicates are returned and the window is a slice of the "
                  f"non-distinct rows (number the rows outside an aliased copy of the statement, as the Oracle ROWNUM wrapper does, or "
                  f"reject DISTINCT)",
                  ("row number computed outside the aliased original statement" if not same else "no wrapper path for a DISTINCT statement")
                  + f" ({len(attach)} attach site(s))", fw.loc)
    f = ctx.method(ORACLE, "translate_select_structure")
    f2 = _nf(ctx, f)
    strips = [c for c in calls_in(f2.node) if isinstance(c.func, ast.Attribute) and c.func.attr == "order_by"]
    rownum = [c for c in calls_in(f2.node) if (call_name(c) or "").endswith("literal_column") and c.args
              and isinstance(c.args[0], ast.Constant) and c.args[0].value == "ROWNUM"]
    inner_alias = [c for c in calls_in(f2.node) if isinstance(c.func, ast.Attribute) and c.func.attr in ("alias", "subquery")]
    ctx.check(not strips and bool(rownum) and bool(inner_alias), f.key + ":order",
              "the inner (ordered) select is re-ordered / ROWNUM is not applied outside an aliased ordered subquery",
              "ROWNUM over aliased ordered inner select", f.loc)


def _is_row_number(x):
    """a ROW_NUMBER() OVER (...) expression or Oracle's ROWNUM pseudo column"""
    if isinstance(x, ast.Call) and isinstance(x.func, ast.Attribute) and x.func.attr == "over":
        return True
    if isinstance(x, ast.Call) and (call_name(x) or "").rsplit(".", 1)[-1] in ("literal_column", "column") and x.args \
            and isinstance(x.args[0], ast.Constant) and str(x.args[0].value).upper() == "ROWNUM":
        return True
    return False


def _select_level(ctx, f2, e, at, depth=0):
    """Which SELECT does the statement expression `e` (evaluated at statement `at`) denote, relative to the statement being
    translated?  -> set of 'same' (the statement itself / a _generate() copy / a generative method chain on it) |
    'outer' (a new sql.select(..) or an alias()/subquery() of something) | 'unknown:..'.  Names are followed through the
    bindings that reach `at` (CFG), so a re-bound local means what it means at that point."""
    from ._helpers_rules_b import OrderFlow
    if depth > 8:
        return {"unknown:depth"}
    if isinstance(e, ast.Call):
        nm = call_name(e) or ""
        short = nm.rsplit(".", 1)[-1]
        if nm in ("sql.select", "select", "expression.select", "future.select"):
            return {"outer"}
        if isinstance(e.func, ast.Attribute):
            if short in ("alias", "subquery", "scalar_subquery", "cte"):
                return {"outer"}
            if short == "_generate" or short == "_clone":
                return {"same"}
            return _select_level(ctx, f2, e.func.value, at, depth + 1)
        return {f"unknown:{unparse(e)[:40]}"}
    if isinstance(e, ast.Name):
        of = ctx.__dict__.setdefault("_str2g_of", None) or OrderFlow(ctx)
        ctx.__dict__["_str2g_of"] = of
        binds, entry = of.reaching(e.id, f2, at)
        out = set()
        if entry and e.id in f2.params:
            out.add("same")
        for v, st in binds:
            if v is None:
                out.add(f"unknown:{unparse(st)[:40]}")
            elif st is at and any(isinstance(x, ast.Name) and x.id == e.id for x in ast.walk(v)) and not binds[1:]:
                out.add(f"unknown:{unparse(st)[:40]}")
            else:
                out |= _select_level(ctx, f2, v, st, depth + 1)
        return out or {f"unknown:{e.id}"}
    return {f"unknown:{unparse(e)[:40]}"}


def _wrap_paths(ctx, f, fbody, force):
    """(number of symbolic paths that build a sql.select() wrapper, number of paths) over the three limit/offset
    combinations, with the attribute / getattr() values in `force` fixed."""
    n = total = 0
    for cname, case in CASES.items():
        attr, call = _hooks(case, force=force)
        paths = SymExec(attr=attr, call=call, what=f.key, follow=(ctx, f)).run(fbody, {})
        total += len(paths)
        n += sum(1 for p in paths if any(e[0] == "wrap" for e in p[3]))
    return n, total


def _feeds(fnode, expr, depth=0, seen=None):
    """Attribute names the value of `expr` is (transitively) computed from inside `fnode`: through plain assignments,
    loop targets (`for x in <iter>`), comprehensions and container fills (`name.append(v)`, `name.extend(v)`,
    `name[k] = v`, `name += v`)."""
    seen = set() if seen is None else seen
    out = set()
    for n in ast.walk(expr):
        if isinstance(n, ast.Attribute):
            out.add(n.attr)
        elif isinstance(n, ast.Name) and n.id not in seen and depth < 6:
            seen.add(n.id)
            for src in _sources_of(fnode, n.id):
                out |= _feeds(fnode, src, depth + 1, seen)
    return out


def _sources_of(fnode, name):
    out = []
    for n in ast.walk(fnode):
        if isinstance(n, ast.Assign) and any(isinstance(t, ast.Name) and t.id == name for tt in n.targets for t in ast.walk(tt)):
            out.append(n.value)
        elif isinstance(n, ast.Assign) and any(isinstance(t, ast.Subscript) and isinstance(t.value, ast.Name) and t.value.id == name for t in n.targets):
            out.append(n.value)
        elif isinstance(n, (ast.AnnAssign, ast.AugAssign)) and isinstance(n.target, ast.Name) and n.target.id == name and n.value is not None:
            out.append(n.value)
        elif isinstance(n, (ast.For, ast.comprehension)) and any(isinstance(t, ast.Name) and t.id == name for t in ast.walk(n.target)):
            out.append(n.iter)
        elif isinstance(n, ast.Call) and isinstance(n.func, ast.Attribute) and isinstance(n.func.value, ast.Name) and n.func.value.id == name \
                and n.func.attr in ("append", "extend", "insert", "add", "update"):
            out.extend(n.args)
        elif isinstance(n, ast.NamedExpr) and isinstance(n.target, ast.Name) and n.target.id == name:
            out.append(n.value)
    return out


_SRC_ATTRS = ("_order_by_clause", "_order_by_clauses")
_DROPPING_CALLS = ("set", "frozenset", "filter", "fromkeys", "unique_list", "OrderedSet", "unique", "compress", "takewhile", "dropwhile",
                   "islice", "filterfalse")
_DROPPING_METHODS = ("remove", "pop", "clear", "discard", "difference", "difference_update", "intersection")


def _cfg_guard_ids(g, st):
    from ._helpers_rob_e1 import cfg_guards
    return [(t, p) for t, p in cfg_guards(g, st)]


def _const_true(test, pol):
    return isinstance(test, ast.Constant) and bool(test.value) == pol


def _elementwise(g, fnode, expr, depth=0, seen=None):
    """Is the sequence `expr` an element-for-element image of the statement's ORDER BY list (every source term yields a
    term, unconditionally)?  -> ('all', None) | ('some', why) | ('unknown', why).  Decided on data flow, not on the shape of
    one statement: comprehension / map() / list() / a list filled by a loop are the same thing; a filter clause, a guarded
    or skipped append, a slice, a set()/unique pass or a removal afterwards drop terms."""
    seen = set() if seen is None else seen
    if depth > 8:
        return "unknown", "too deep"
    pm = getattr(fnode, "_str2g_pm", None)
    if pm is None:
        pm = {c: p_ for p_ in ast.walk(fnode) for c in ast.iter_child_nodes(p_)}
        fnode._str2g_pm = pm
    e = expr
    if isinstance(e, ast.Attribute):
        if any(isinstance(x, ast.Attribute) and x.attr in _SRC_ATTRS for x in ast.walk(e)):
            return "all", None
        return "unknown", f"`{unparse(e)[:50]}` is not the statement's ORDER BY"
    if isinstance(e, ast.Starred):
        return _elementwise(g, fnode, e.value, depth + 1, seen)
    if isinstance(e, (ast.List, ast.Tuple)):
        if len(e.elts) == 1 and isinstance(e.elts[0], ast.Starred):
            return _elementwise(g, fnode, e.elts[0].value, depth + 1, seen)
        return "unknown", f"literal `{unparse(e)[:50]}`"
    if isinstance(e, (ast.ListComp, ast.GeneratorExp)):
        if len(e.generators) != 1:
            return "unknown", f"nested comprehension `{unparse(e)[:60]}`"
        gen = e.generators[0]
        if gen.ifs:
            return "some", f"the comprehension keeps a term only if `{unparse(gen.ifs[0])[:70]}`"
        tn = {x.id for x in ast.walk(gen.target) if isinstance(x, ast.Name)}
        if not any(isinstance(x, ast.Name) and x.id in tn for x in ast.walk(e.elt)):
            return "unknown", f"`{unparse(e.elt)[:40]}` does not derive from the term"
        return _elementwise(g, fnode, gen.iter, depth + 1, seen)
    if isinstance(e, ast.Subscript):
        if isinstance(e.slice, ast.Slice):
            return "some", f"only the slice `{unparse(e)[:60]}` of the list is used"
        return "unknown", f"`{unparse(e)[:50]}`"
    if isinstance(e, ast.BinOp) and isinstance(e.op, ast.Add):
        # concatenation adds terms, it drops none: complete if one operand is
        rs = [_elementwise(g, fnode, x, depth + 1, seen) for x in (e.left, e.right)]
        for v, w in rs:
            if v == "some":
                return v, w
        return ("all", None) if any(v == "all" for v, _ in rs) else rs[0]
    if isinstance(e, ast.Call):
        nm = (call_name(e) or "").rsplit(".", 1)[-1]
        if nm in _DROPPING_CALLS:
            return "some", f"`{nm}(...)` removes terms (duplicates / non-matching ones) from the list"
        if nm in ("list", "tuple", "iter", "reversed") and len(e.args) == 1 and nm != "reversed":
            return _elementwise(g, fnode, e.args[0], depth + 1, seen)
        if nm == "map" and len(e.args) == 2:
            return _elementwise(g, fnode, e.args[1], depth + 1, seen)
        if isinstance(e.func, ast.Attribute) and nm in ("copy", "__iter__") and not e.args:
            return _elementwise(g, fnode, e.func.value, depth + 1, seen)
        return "unknown", f"call `{unparse(e)[:60]}`"
    if isinstance(e, ast.Name):
        if e.id in seen:
            return "all", None
        seen = seen | {e.id}
        results = []
        fills = 0
        for n in ast.walk(fnode):
            # removals
            if isinstance(n, ast.Call) and isinstance(n.func, ast.Attribute) and isinstance(n.func.value, ast.Name) \
                    and n.func.value.id == e.id and n.func.attr in _DROPPING_METHODS:
                return "some", f"`{unparse(n)[:60]}` removes terms from the list"
            if isinstance(n, ast.Delete) and any(isinstance(t, ast.Subscript) and isinstance(t.value, ast.Name) and t.value.id == e.id
                                                  for t in n.targets):
                return "some", f"`{unparse(n)[:60]}` removes terms from the list"
            # bindings
            val = None
            if isinstance(n, ast.Assign) and any(isinstance(t, ast.Name) and t.id == e.id for t in n.targets):
                val = n.value
            elif isinstance(n, ast.AnnAssign) and isinstance(n.target, ast.Name) and n.target.id == e.id and n.value is not None:
                val = n.value
            elif isinstance(n, ast.NamedExpr) and isinstance(n.target, ast.Name) and n.target.id == e.id:
                val = n.value
            if val is not None:
                empty = (isinstance(val, (ast.List, ast.Tuple)) and not val.elts) or \
                    (isinstance(val, ast.Call) and (call_name(val) or "") in ("list", "collections.deque", "deque") and not val.args)
                if not empty:
                    results.append(_elementwise(g, fnode, val, depth + 1, seen))
                continue
            # fills
            fill_arg, st = None, None
            if isinstance(n, ast.Call) and isinstance(n.func, ast.Attribute) and isinstance(n.func.value, ast.Name) \
                    and n.func.value.id == e.id and n.func.attr in ("append", "extend", "insert", "appendleft") and n.args:
                fill_arg, whole = n.args[-1], n.func.attr == "extend"
                st = n
                while st is not None and not isinstance(st, ast.stmt):
                    st = pm.get(st)
            elif isinstance(n, ast.AugAssign) and isinstance(n.target, ast.Name) and n.target.id == e.id and isinstance(n.op, ast.Add):
                fill_arg, whole, st = n.value, True, n
            if fill_arg is None or st is None:
                continue
            fills += 1
            loop, cur = None, pm.get(st)
            while cur is not None and cur is not fnode:
                if isinstance(cur, (ast.For, ast.AsyncFor, ast.While)):
                    loop = cur
                    break
                cur = pm.get(cur)
            if loop is None:
                if whole:
                    results.append(_elementwise(g, fnode, fill_arg, depth + 1, seen))
                continue  # one more term added outside a loop: drops nothing
            if isinstance(loop, ast.While):
                results.append(("unknown", "list filled by a while loop"))
                continue
            # every iteration must reach the fill: no branch outcome inside the loop dominates it, nothing leaves the loop early
            outer = {(id(t), p) for t, p in _cfg_guard_ids(g, loop)}
            inner = [(t, p) for t, p in _cfg_guard_ids(g, st) if (id(t), p) not in outer and not _const_true(t, p)]
            if not g.nodes_for(st):
                results.append(("unknown", "fill statement not in the CFG"))
                continue
            if inner:
                t, p = inner[0]
                results.append(("some", f"a term is added only when `{unparse(t)[:80]}` is {p}"))
                continue
            early = [x for x in ast.walk(loop) if isinstance(x, ast.Break)]
            if early:
                results.append(("some", f"the loop over the ORDER BY terms can stop early (break at line {early[0].lineno})"))
                continue
            tn = {x.id for x in ast.walk(loop.target) if isinstance(x, ast.Name)}
            for _ in range(3):
                for b in ast.walk(loop):
                    if isinstance(b, ast.Assign) and any(isinstance(x, ast.Name) and x.id in tn for x in ast.walk(b.value)):
                        tn |= {t.id for tt in b.targets for t in ast.walk(tt) if isinstance(t, ast.Name)}
            if not any(isinstance(x, ast.Name) and x.id in tn for x in ast.walk(fill_arg)):
                results.append(("unknown", f"`{unparse(fill_arg)[:40]}` does not derive from the loop's term"))
                continue
            results.append(_elementwise(g, fnode, loop.iter, depth + 1, seen))
        if not results:
            return "unknown", f"`{e.id}` has no binding that derives from the statement's ORDER BY"
        for v, w in results:
            if v == "some":
                return v, w
        # a binding that is not understood matters only if no other binding already explains the list
        if any(v == "all" for v, _ in results) and all(v in ("all",) or "does not derive" in (w or "") or "is not the statement" in (w or "")
                                                     for v, w in results):
            return "all", None
        for v, w in results:
            if v == "unknown":
                return v, w
        return "all", None
    return "unknown", f"`{unparse(e)[:60]}`"


def _rejects_empty_order_by(fn: FuncInfo) -> bool:
    pm = fn.module.parents()
    for r in ast.walk(fn.node):
        if isinstance(r, ast.Raise):
            for t, pol in lexical_guards(pm, r, stop=fn.node):
                if "_order_by_clause" in unparse(inline_locals(fn.node, t)):
                    return True
    return False


# ------------------------------------------------------------------------------------------ R4 (str-e)
class Lin:
    """linear form over positive symbols: {sym: coef} + const"""
    __slots__ = ("terms", "const")

    def __init__(self, terms=(), const=0):
        self.terms = {k: v for k, v in dict(terms).items() if v}
        self.const = const

    @staticmethod
    def of(v):
        if isinstance(v, Lin):
            return v
        if isinstance(v, bool) or not isinstance(v, int):
            return None
        return Lin((), v)

    def _comb(self, other, sign):
        o = Lin.of(other)
        if o is None:
            return None
        t = dict(self.terms)
        for k, v in o.terms.items():
            t[k] = t.get(k, 0) + sign * v
        return Lin(t, self.const + sign * o.const)

    def nonzero(self):
        """True / False / None under 'every symbol is a positive integer'."""
        if not self.terms:
            return self.const != 0
        vals = list(self.terms.values())
        if all(v > 0 for v in vals) and self.const >= 0:
            return True
        if all(v < 0 for v in vals) and self.const <= 0:
            return True
        return None

    def key(self):
        return (tuple(sorted(self.terms.items())), self.const)

    def __eq__(self, o):
        return isinstance(o, Lin) and self.key() == o.key()

    def __hash__(self):
        return hash(self.key())

    def __repr__(self):
        parts = [(f"{k}" if v == 1 else f"-{k}" if v == -1 else f"{v}*{k}") for k, v in sorted(self.terms.items())]
        if self.const or not parts:
            parts.append(str(self.const))
        return " + ".join(parts).replace("+ -", "- ")


def _value_preserving(fn: FuncInfo) -> bool:
    """A one-argument coercion: every return is None or derives from the first parameter, no arithmetic."""
    if not fn.params:
        return False
    tainted = {fn.params[0]}
    for _ in range(3):
        for n, v, st in name_stores(fn.node):
            if v is not None and any(isinstance(x, ast.Name) and x.id in tainted for x in ast.walk(v)):
                tainted.add(n)
    if any(isinstance(x, ast.BinOp) for x in ast.walk(fn.node)):
        return False
    rets = [r for r in walk_local(fn.node) if isinstance(r, ast.Return)]
    if not rets:
        return False
    for r in rets:
        if r.value is None or (isinstance(r.value, ast.Constant) and r.value.value is None):
            continue
        if not any(isinstance(x, ast.Name) and x.id in tainted for x in ast.walk(r.value)):
            return False
    return True


class _SlicePaths(PathInterp):
    """PathInterp + integer / linear arithmetic and ==/!= on it.  Same-module one-argument coercions are the identity;
    every other same-module function is followed (an extracted `_add_to_offset(offset, start)` is part of the computation),
    early returns included."""

    def __init__(self, index, target):
        super().__init__(call=self._call, resolver=self._resolve, what=target.key)
        self.index = index
        self.module = target.module
        self.target = target

    def _lookup(self, n):
        if isinstance(n.func, ast.Name):
            r = self.index.resolve(self.module, n.func.id)
            if isinstance(r, FuncInfo) and r.node is not self.target.node:
                return r
        return None

    def _call(self, n, fval, args, kwargs, env, ix):
        r = self._lookup(n)
        if r is not None and len(args) == 1 and not kwargs and _value_preserving(r):
            return args[0]
        return NotImplemented

    def _resolve(self, n, fval):
        r = self._lookup(n)
        if r is not None and r.module is self.module and isinstance(r.node, ast.FunctionDef):
            return (r.node, {})
        return None

    def truth(self, v):
        if isinstance(v, Lin):
            nz = v.nonzero()
            return self.decide(f"nonzero:{v!r}") if nz is None else nz
        return super().truth(v)

    def ev(self, n, env):
        if isinstance(n, ast.BinOp) and isinstance(n.op, (ast.Add, ast.Sub)):
            a, b = self.ev(n.left, env), self.ev(n.right, env)
            la, lb = Lin.of(a), Lin.of(b)
            if la is not None and lb is not None:
                return la._comb(lb, 1 if isinstance(n.op, ast.Add) else -1)
            return Opq(unparse(n))
        if isinstance(n, ast.Compare) and len(n.ops) == 1 and isinstance(n.ops[0], (ast.Eq, ast.NotEq)):
            a, b = self.ev(n.left, env), self.ev(n.comparators[0], env)
            la, lb = Lin.of(a), Lin.of(b)
            eq = isinstance(n.ops[0], ast.Eq)
            if la is not None and lb is not None:
                d = la._comb(lb, -1)
                nz = d.nonzero()
                if nz is None:
                    nz = self.decide(f"nonzero:{d!r}")
                return (not nz) if eq else nz
            if (a is None) != (b is None) and not isinstance(a, Abs) and not isinstance(b, Abs):
                return not eq
            return Opq(unparse(n))
        return super().ev(n, env)


def _resolved(cf, e):
    """`e` with the once-bound locals of the calling function replaced by their values (`lim = self._limit_clause`)."""
    try:
        return inline_locals(cf.node, e)
    except Exception:
        return e


def _self_attr_role(e):
    if isinstance(e, ast.Attribute) and isinstance(e.value, ast.Name) and e.value.id == "self":
        return {"_limit_clause": "limit", "_offset_clause": "offset"}.get(e.attr)
    return None


def _result_order(cf, pm, cc):
    """In which order the (limit, offset) result of the call is stored into self._limit_clause / self._offset_clause:
    `self.a, self.b = call`, `a, b = call` + `self.x = a` ..., `r = call` + `self.x = r[0]` ...; None if not understood."""
    st = pm.get(cc)
    if not (isinstance(st, ast.Assign) and len(st.targets) == 1):
        return None
    tgt = st.targets[0]
    stores = [(t, n) for n in walk_local(cf.node) if isinstance(n, ast.Assign) for t in n.targets if _self_attr_role(t)]
    if isinstance(tgt, ast.Tuple):
        order = []
        for t in tgt.elts:
            role = _self_attr_role(t)
            if role is None and isinstance(t, ast.Name):
                roles = {_self_attr_role(a) for a, n in stores if isinstance(n.value, ast.Name) and n.value.id == t.id}
                role = next(iter(roles)) if len(roles) == 1 else None
            if role is None:
                return None
            order.append(role)
        return order
    if isinstance(tgt, ast.Name):
        by_index = {}
        for a, n in stores:
            v = n.value
            if isinstance(v, ast.Subscript) and isinstance(v.value, ast.Name) and v.value.id == tgt.id and isinstance(v.slice, ast.Constant) \
                    and isinstance(v.slice.value, int):
                by_index.setdefault(v.slice.value, set()).add(_self_attr_role(a))
        if sorted(by_index) == [0, 1] and all(len(v) == 1 for v in by_index.values()):
            return [next(iter(by_index[0])), next(iter(by_index[1]))]
    return None


def _slice_sites(ctx, target):
    """[(caller, call, roles{role: position}, result order [role,..])] for every call of _make_slice."""
    found = []
    for m in ctx.index.all_modules():
        if target.name + "(" not in m.source:
            continue
        for cf in ctx.index.all_functions(m):
            if cf is target or cf.is_overload:
                continue
            for cc in calls_in(cf.node):
                # the callee is module-private and reached through module aliases (`sql_util._make_slice`, also via
                # util.preloaded locals), so it is matched by its (unique) name
                if (call_name(cc) or "").rsplit(".", 1)[-1] == target.name:
                    found.append((cf, cc))
    found.sort(key=lambda x: (x[0].module.relpath != "sql/selectable.py", x[0].module.relpath, x[1].lineno))
    out = []
    for cf, cc in found:
        own = [p for p in cf.params if p not in ("self", "cls")]
        roles = {}
        tparams = list(target.params)
        actual = [(i, a) for i, a in enumerate(cc.args)] + [(tparams.index(k.arg), k.value) for k in cc.keywords if k.arg in tparams]
        for i, a0 in actual:
            a = _resolved(cf, a0)
            role = _self_attr_role(a)
            if role is not None:
                roles.setdefault(role, i)
            elif isinstance(a, ast.Name) and a.id in own[:2]:
                roles.setdefault("start" if own.index(a.id) == 0 else "stop", i)
        pm = cf.module.parents()
        order = _result_order(cf, pm, cc)
        out.append((cf, cc, roles, order))
    return out


@R.rule("C18-R4", floor=14, template="T-FLOW (symbolic composition of slice() with the existing LIMIT/OFFSET, all paths)",
        desc="sql.util._make_slice: for every presence combination of start/stop (start zero or not) over a statement "
             "with or without an existing OFFSET, the new OFFSET is `existing offset + start` on every path (an "
             "existing OFFSET is never dropped, start is never lost) and the new LIMIT is `stop - start` / `stop` / "
             "unchanged; every slice() implementation passes (limit, offset, start, stop) and stores the result the same way")
def r4(ctx):
    target = ctx.func("sql/util.py::_make_slice")
    ctx.functions_analysed.add(target.key)
    sites = _slice_sites(ctx, target)
    ctx.require(len(sites) >= 2, f"expected the Core and ORM slice() callers of _make_slice, found {[s[0].key for s in sites]}")
    ref = None
    for cf, cc, roles, order in sites:
        ctx.functions_analysed.add(cf.key)
        key = f"{cf.key}:_make_slice-arguments"
        ctx.require(set(roles) == {"limit", "offset", "start", "stop"} and order is not None and sorted(order) == ["limit", "offset"],
                    f"{cf.key}: call `{unparse(cc)[:90]}` / its result unpacking not understood")
        if ref is None:
            ref = (roles, order, cf)
            ctx.ok(key, f"passes {sorted(roles, key=roles.get)}, stores {order}")
        else:
            ctx.check((roles, order) == ref[:2], key,
                      f"passes {sorted(roles, key=roles.get)} and stores the result as {order}, but {ref[2].qualname} passes "
                      f"{sorted(ref[0], key=ref[0].get)} and stores {ref[1]}: one of them swaps LIMIT and OFFSET / start and stop",
                      f"same argument and result order as {ref[2].qualname}", f"{cf.module.path}:{cc.lineno}")
    roles, order, _ = ref
    params = [p for p in target.params]
    ctx.require(len(params) >= 4 and max(roles.values()) < len(params), "_make_slice signature not understood")
    pname = {r: params[i] for r, i in roles.items()}
    O0, L0, S, T = Lin({"offset": 1}), Lin({"limit": 1}), Lin({"start": 1}), Lin({"stop": 1})
    starts = {"none": None, "0": Lin((), 0), "n": S}
    stops = {"none": None, "m": T}

    def norm_off(v):
        return Lin((), 0) if v is None else v

    for sk, sv in starts.items():
        for tk, tv in stops.items():
            for ok_, ov in (("no-offset", None), ("offset", O0)):
                key = f"{target.key}:[{sk}:{tk}]-{ok_}"
                problems, unknown = [], []
                npaths = 0
                for lv in (None, L0):
                    env = {pname["limit"]: lv, pname["offset"]: ov, pname["start"]: sv, pname["stop"]: tv}
                    try:
                        spaths = _SlicePaths(ctx.index, target).run_function(target.node, env)
                    except PathUnsupported as e:
                        ctx.require(False, f"{target.key}: {e}")
                    for _assume, kind, val, events in spaths:
                        if kind == "raise":
                            continue
                        npaths += 1
                        if kind != "return" or not isinstance(val, tuple) or len(val) != 2:
                            unknown.append(f"a path ends with {kind} {val!r}")
                            continue
                        got = dict(zip(order, val))
                        want_off = ov if sv is None else norm_off(ov)._comb(sv, 1)
                        want_lim = lv if tv is None else (tv if sv is None else tv._comb(sv, -1))
                        go, gl = got["offset"], got["limit"]
                        if isinstance(go, int) and not isinstance(go, bool):
                            go = Lin.of(go)
                        if isinstance(gl, int) and not isinstance(gl, bool):
                            gl = Lin.of(gl)
                        if not (go is None or isinstance(go, Lin)) or not (gl is None or isinstance(gl, Lin)):
                            unknown.append(f"a path returns {val!r}")
                            continue
                        if norm_off(go) != norm_off(want_off):
                            what = "the statement's existing OFFSET is dropped" if (ov is not None and "offset" not in norm_off(go).terms) \
                                else "the slice start is lost" if (sv is S and "start" not in norm_off(go).terms) else "wrong OFFSET"
                            problems.append(f"OFFSET becomes `{go}` instead of `{want_off}` ({what})")
                        if (gl is None) != (want_lim is None) or (gl is not None and gl != want_lim):
                            problems.append(f"LIMIT becomes `{gl}` instead of `{want_lim}`")
                ctx.require(not unknown, f"{target.key} [{sk}:{tk}] {ok_}: {unknown[:2]} (not understood)")
                ctx.require(npaths > 0, f"{target.key} [{sk}:{tk}] {ok_}: no returning path")
                ctx.check(not problems, key,
                          f"slice[{sk}:{tk}] applied to a statement {'with an existing OFFSET' if ov is not None else 'without OFFSET'}: "
                          + "; ".join(sorted(set(problems))) + " -- the rows returned are not rows [start:stop] of the already offset result",
                          f"offset' = offset + start, limit' = stop - start over {npaths} path(s)", target.loc)


# ------------------------------------------------------------------------------------------ R5 (str-e)
OPTION_KEYS = ("percent", "with_ties")


def _option_reads(node):
    """option keys read as `<x>._fetch_clause_options[<key>]` or `<local bound to it>[<key>]` inside node."""
    keys = set()
    for n in ast.walk(node):
        if isinstance(n, ast.Subscript) and isinstance(n.slice, ast.Constant) and n.slice.value in OPTION_KEYS:
            keys.add(n.slice.value)
    return keys


def _renders_fetch_value(f: FuncInfo):
    """Does the function turn the statement's FETCH value into SQL text?  (processes `_fetch_clause`, a local bound
    to it, or the result of a limit-or-fetch helper)"""
    fetchy = set()
    for n, v, st in name_stores(f.node):
        if v is not None and any((isinstance(x, ast.Attribute) and x.attr == "_fetch_clause")
                                 or (isinstance(x, ast.Call) and (call_name(x) or "").endswith("_get_limit_or_fetch")) for x in ast.walk(v)):
            fetchy.add(n)
    if "fetch_clause" in f.params:
        fetchy.add("fetch_clause")
    for c in calls_in(f.node):
        if isinstance(c.func, ast.Attribute) and c.func.attr == "process" and c.args:
            a = c.args[0]
            if isinstance(a, ast.Attribute) and a.attr == "_fetch_clause":
                return True
            if isinstance(a, ast.Name) and a.id in fetchy:
                return True
            if isinstance(a, ast.Call) and (call_name(a) or "").endswith("_get_limit_or_fetch"):
                return True
    return False


def _raises_on_options(fn: FuncInfo) -> bool:
    """A checker: for each fetch option there is a `raise` under a positive test that reads it (one compound test, one
    test per option, a named boolean local, tests after an early `return` all count)."""
    pm = fn.module.parents()
    keys = set()
    for r in ast.walk(fn.node):
        if isinstance(r, ast.Raise):
            for t, pol in lexical_guards(pm, r, stop=fn.node):
                if pol:
                    keys |= _option_reads(_resolved(fn, t))
    return keys >= set(OPTION_KEYS)


def _option_reads_deep(ix, f: FuncInfo):
    """option keys read by `f` or by the same-class / same-module helpers it calls (one level)."""
    keys = _option_reads(f.node)
    pm = f.module.parents()

    def predicate_use(c):
        # the call decides something (`if .. and self._use_top(select):`): what it reads is not rendered
        child, cur = c, pm.get(c)
        while cur is not None and not isinstance(cur, ast.stmt):
            if isinstance(cur, (ast.BoolOp, ast.Compare)) or (isinstance(cur, ast.UnaryOp) and isinstance(cur.op, ast.Not)) \
                    or (isinstance(cur, ast.IfExp) and child is cur.test) or (isinstance(cur, ast.comprehension) and any(child is t for t in cur.ifs)):
                return True
            child, cur = cur, pm.get(cur)
        return isinstance(cur, (ast.If, ast.While, ast.Assert)) and child is cur.test

    for c in calls_in(f.node):
        if predicate_use(c):
            continue
        fn = c.func
        tgt = None
        if isinstance(fn, ast.Attribute) and isinstance(fn.value, ast.Name) and fn.value.id == "self" and f.cls is not None:
            tgt = ix.resolve_method(f.cls, fn.attr)
        elif isinstance(fn, ast.Name):
            tgt = f.module.functions.get(fn.id)
        if tgt is not None and tgt.module is f.module and tgt.node is not f.node:
            keys |= _option_reads(tgt.node)
    return keys


@R.rule("C18-R5", floor=6, template="T-SIBLING / T-GUARD (FETCH options reach every FETCH renderer)",
        desc="every compiler method that renders the statement's FETCH value (FETCH FIRST / TOP) consults both "
             "_fetch_clause_options (percent, with_ties); a call `fetch_clause(select, fetch_clause=<explicit>)`, for which "
             "SQLCompiler.fetch_clause substitutes default options, is made only where the statement has no FETCH "
             "(`select._fetch_clause is None` dominates), passes the LIMIT itself, or after a checker that rejects the options")
def r5(ctx):
    ix = ctx.index
    base = ix.cls("sql/compiler.py::SQLCompiler")
    classes = [base] + sorted(ix.subclasses(base), key=lambda c: c.key)
    # (a) renderers
    renderers = []
    for cls in classes:
        for name, f in sorted(cls.methods.items()):
            if f.is_overload or not _renders_fetch_value(f):
                continue
            renderers.append(f)
    ctx.require(len(renderers) >= 3, f"FETCH renderers not found ({[f.key for f in renderers]})")
    for f in renderers:
        ctx.functions_analysed.add(f.key)
        keys = _option_reads_deep(ix, f)
        ctx.check(keys >= set(OPTION_KEYS), f"{f.key}:fetch-options",
                  f"{f.qualname} renders the FETCH value but reads only {sorted(keys) or 'none'} of the options "
                  f"{list(OPTION_KEYS)}: FETCH ... WITH TIES / PERCENT would be rendered as a plain row count",
                  "reads percent and with_ties", f.loc)
    # (b) does the base substitute default options for an explicit fetch_clause= ?
    bf = base.methods.get("fetch_clause")
    ctx.require(bf is not None and "fetch_clause" in bf.params, "SQLCompiler.fetch_clause(select, fetch_clause=...) vanished")
    pmb = bf.module.parents()
    resets = False
    for n, v, st in name_stores(bf.node):
        if isinstance(v, ast.Dict) and {getattr(k, "value", None) for k in v.keys} >= set(OPTION_KEYS) \
                and all(isinstance(x, ast.Constant) for x in v.values):
            atoms = guard_atoms(lexical_guards(pmb, st, stop=bf.node))
            if ("fetch_clause is None", False) in atoms:
                resets = True
    sites = []
    for cls in classes:
        for name, f in sorted(cls.methods.items()):
            if f.is_overload:
                continue
            for c in calls_in(f.node):
                if isinstance(c.func, ast.Attribute) and c.func.attr == "fetch_clause":
                    kw = {k.arg: k.value for k in c.keywords if k.arg}
                    if "fetch_clause" in kw:
                        sites.append((f, c, kw["fetch_clause"]))
    ctx.require(len(sites) >= 2, "no call of fetch_clause(.., fetch_clause=<explicit>) found")
    for f, c, val in sites:
        ctx.functions_analysed.add(f.key)
        key = f"{f.key}:explicit-fetch_clause"
        if not resets:
            ctx.ok(key, "SQLCompiler.fetch_clause keeps the statement's options for an explicit fetch_clause", nontrivial=False)
            continue
        if isinstance(val, ast.Name) and val.id == "fetch_clause" and "fetch_clause" in f.params:
            ctx.ok(key, "passes its own fetch_clause parameter through", nontrivial=False)
            continue
        if isinstance(val, ast.Constant) and val.value is None:
            ctx.ok(key, "fetch_clause=None: options taken from the statement")
            continue
        if isinstance(val, ast.Attribute) and val.attr == "_limit_clause":
            ctx.ok(key, "passes the LIMIT itself")
            continue
        pm = f.module.parents()
        g = ctx.cfg(f)
        st = enclosing_stmt_of(pm, c)
        guards = list(lexical_guards(pm, c, stop=f.node))
        nodes = g.nodes_for(st)
        for nid in nodes:
            guards.extend(g.edge_guards(nid))
        atoms = set(guard_atoms(guards))
        no_fetch = any(a.endswith("._fetch_clause is None") and p for a, p in atoms)
        checked = False
        for c2 in calls_in(f.node):
            nm = call_name(c2) or ""
            if nm.startswith("self.") and nm.count(".") == 1 and c2 is not c:
                tgt = ix.resolve_method(f.cls, nm.split(".")[1])
                if tgt is not None and _raises_on_options(tgt):
                    cn = [i for i in g.nodes_containing(c2)]
                    if cn and all(g.always_preceded(n_, cn) is None for n_ in nodes):
                        checked = True
        ctx.check(no_fetch or checked, key,
                  f"{f.qualname} calls fetch_clause(..., fetch_clause={unparse(val)[:50]}) on a path where the statement may "
                  f"carry a FETCH clause (no dominating `select._fetch_clause is None`, no options check before it); "
                  f"SQLCompiler.fetch_clause substitutes percent=False / with_ties=False for an explicit fetch_clause, so "
                  f"FETCH ... WITH TIES / PERCENT loses its options",
                  "statement has no FETCH here" if no_fetch else "options rejected by a checker before the call",
                  f"{f.module.path}:{c.lineno}")


def enclosing_stmt_of(pm, node):
    cur = node
    while cur is not None and not isinstance(cur, ast.stmt):
        cur = pm.get(cur)
    return cur


# ------------------------------------------------------------------------------------------ R6 (str2-g)
ROLE_ATTR = {"_limit_clause": "limit", "_offset_clause": "offset", "_fetch_clause": "fetch"}
ROLE_KEY = {"limit_clause": "limit", "offset_clause": "offset", "fetch_clause": "fetch"}
R6_SCOPE = ("orm/", "sql/selectable.py", "ext/")


def _dict_literal_keys(ix, cls, name):
    """keys of the dict display returned by the property / method `name` of cls (None if it is not one)"""
    tgt = ix.resolve_method(cls, name) if cls is not None else None
    if tgt is None:
        return None
    rets = [r.value for r in ast.walk(tgt.node) if isinstance(r, ast.Return) and r.value is not None]
    if len(rets) != 1:
        return None
    v = rets[0]
    if isinstance(v, ast.Name):
        b = [val for n, val, st in name_stores(tgt.node) if n == v.id and val is not None]
        v = b[0] if len(b) == 1 else v
    if isinstance(v, ast.Dict) and all(isinstance(k, ast.Constant) for k in v.keys):
        return {k.value for k in v.keys}
    return None


def _presence_tests(ix, f, e):
    """[(role, receiver text, available roles)] for every `<X>._limit_clause is [not] None` / `<d>.get("limit_clause") is
    [not] None` / `<d>["limit_clause"] is [not] None` inside the boolean expression e"""
    out = []
    for c in ast.walk(e):
        if not (isinstance(c, ast.Compare) and len(c.ops) == 1 and isinstance(c.ops[0], (ast.Is, ast.IsNot, ast.Eq, ast.NotEq))):
            continue
        l, r = c.left, c.comparators[0]
        if isinstance(l, ast.Constant) and l.value is None:
            l, r = r, l
        if not (isinstance(r, ast.Constant) and r.value is None):
            continue
        if isinstance(l, ast.Attribute) and l.attr in ROLE_ATTR:
            recv = l.value
            avail = set(ROLE_ATTR.values())
            if isinstance(recv, ast.Name) and recv.id == "self" and f.cls is not None:
                # the components the class itself carries (legacy Query has no FETCH)
                avail = {role for a, role in ROLE_ATTR.items()
                         if ix.find_class_attr(f.cls, a) is not None
                         or any(a in k.module.source and any(t == f"self.{a}" for m_ in k.methods.values() for t, _n, _s in _attr_stores(m_.node))
                                for k in ix.mro(f.cls))}
            out.append((ROLE_ATTR[l.attr], unparse(recv), frozenset(avail)))
            continue
        key, recv = None, None
        if isinstance(l, ast.Call) and isinstance(l.func, ast.Attribute) and l.func.attr == "get" and l.args \
                and isinstance(l.args[0], ast.Constant):
            key, recv = l.args[0].value, l.func.value
        elif isinstance(l, ast.Subscript) and isinstance(l.slice, ast.Constant):
            key, recv = l.slice.value, l.value
        if key in ROLE_KEY:
            avail = set(ROLE_KEY.values())
            if isinstance(recv, ast.Attribute) and isinstance(recv.value, ast.Name) and recv.value.id == "self":
                keys = _dict_literal_keys(ix, f.cls, recv.attr)
                if keys is not None:
                    avail = {ROLE_KEY[k] for k in keys if k in ROLE_KEY}
            out.append((ROLE_KEY[key], unparse(recv), frozenset(avail)))
    return out


def _attr_stores(node):
    from ..astutil import attr_stores
    return attr_stores(node)


@R.rule("C18-R6", floor=5, template="T-SIBLING (row-limiting predicates)",
        desc="outside the SQL compilers (orm/, ext/, sql/selectable.py) a boolean expression that asks whether a statement is "
             "row-limited -- it tests the presence of more than one of LIMIT / OFFSET / FETCH on one object -- tests EVERY "
             "row-limiting component that object carries (all three for select statements and the ORM compile state's "
             "_select_args, LIMIT and OFFSET for legacy Query), as GenerativeSelect._has_row_limiting_clause does: a FETCH "
             "statement must be treated like its LIMIT spelling (nesting for joined eager loading, ORDER BY kept, ...)")
def r6(ctx):
    from ._helpers_rob_e1 import cfg_guards, comp_guards, expand, once_bound
    ix = ctx.index
    n = 0
    for m in ix.all_modules():
        if not m.relpath.startswith(R6_SCOPE) or not any(a in m.source for a in list(ROLE_ATTR) + list(ROLE_KEY)):
            continue
        for f in ix.all_functions(m):
            if f.type_only or getattr(f, "is_overload", False):
                continue
            defs = once_bound(f.node)
            roots = []
            for x in walk_local(f.node, into_nested=True):
                if isinstance(x, (ast.If, ast.While, ast.IfExp, ast.Assert)):
                    roots.append(x.test)
                elif isinstance(x, ast.Return) and x.value is not None:
                    roots.append(x.value)
                elif isinstance(x, ast.comprehension):
                    roots.extend(x.ifs)
            if not any(_presence_tests(ix, f, expand(e, defs) if defs else e) for e in roots):
                continue
            pm = f.module.parents()
            g = ctx.cfg(f)
            found = []
            for e in roots:
                e2 = expand(e, defs) if defs else e
                tests = _presence_tests(ix, f, e2)
                if not tests:
                    continue
                # what was already decided on the way here counts as tested: the branch outcomes that dominate the
                # statement (early returns, enclosing and inverted ifs) and the and/or/ternary operands around the expression
                st = enclosing_stmt_of(pm, e)
                around = list(cfg_guards(g, st)) if st is not None and g.nodes_for(st) else []
                if st is not None and st is not e:
                    around += [gd for gd in comp_guards(pm, e)]
                for t, _pol in around:
                    if t is e:
                        continue
                    tests = tests + _presence_tests(ix, f, expand(t, defs) if defs else t)
                by_recv = {}
                for role, recv, avail in tests:
                    by_recv.setdefault(recv, (set(), avail))[0].add(role)
                for recv, (roles, avail) in sorted(by_recv.items()):
                    if len(roles) >= 2:
                        found.append((e, recv, roles, avail))
            for i, (e, recv, roles, avail) in enumerate(found):
                ctx.functions_analysed.add(f.key)
                n += 1
                key = f"{f.key}:row-limiting-predicate" + ("" if len(found) == 1 else f"#{i + 1}")
                missing = sorted(avail - roles)
                ctx.check(not missing, key,
                          f"`{unparse(e)[:120]}` asks whether `{recv}` is row-limited by testing {sorted(roles)} but never "
                          f"{missing}, which `{recv}` also carries: a statement limited with "
                          f"{'FETCH FIRST n ROWS' if 'fetch' in missing else '/'.join(missing).upper()} "
                          f"is treated as unlimited here although its LIMIT spelling is not (sibling: "
                          f"GenerativeSelect._has_row_limiting_clause tests limit, offset and fetch)",
                          f"tests {sorted(roles)} = every row-limiting component of `{recv}`",
                          f"{f.module.path}:{getattr(e, 'lineno', f.node.lineno)}")
    ctx.require(n > 0, "no row-limiting predicate found in orm/, ext/, sql/selectable.py")


# ------------------------------------------------------------------------------------------ R7 (str2-g)
R7_CASES = dict(CASES)
R7_CASES["fetch-only"] = dict(limit=None, offset=None, fetch=F)
R7_CASES["fetch+offset"] = dict(limit=None, offset=O, fetch=F)
SELECT_ONLY_HOOKS = ("translate_select_structure", "get_select_precolumns")


def _row_limit_empty_paths(ctx, cls, rl, case, depth=0, flags=None):
    """Does `rl` (a _row_limit_clause implementation, executed as a method of `cls`) have a path that renders NOTHING for
    the given limit/offset/fetch presence?  Delegations are followed: self.limit_clause -> the class's own limit_clause,
    super()._row_limit_clause -> the next implementation in the MRO, fetch_clause renders (checked by R2).
    -> (True|False, description of the empty path)"""
    ix = ctx.index
    # capability flags of the dialect (`self.dialect.<flag>`) are facts of one server: the same value at every read of a
    # path.  Every combination is tried (the symbolic executor would otherwise fork anew at each read).
    if flags is None:
        names = sorted({x.attr for x in ast.walk(_nf(ctx, rl).node) if isinstance(x, ast.Attribute)
                        and isinstance(x.value, ast.Attribute) and x.value.attr == "dialect"
                        and isinstance(x.value.value, ast.Name) and x.value.value.id == "self"})[:4]
        import itertools
        for combo in itertools.product((True, False), repeat=len(names)):
            e, why = _row_limit_empty_paths(ctx, cls, rl, case, depth, dict(zip(names, combo)))
            if e:
                return e, why + (f" with {dict(zip(names, combo))}" if names else "")
        return False, None
    attr, call0 = _hooks(case, force=flags)

    def call(n, env, sx, events):
        # the statement IS a compound select here: isinstance(stmt, <..CompoundSelect..>) holds, isinstance(stmt, <..Select>) not
        if isinstance(n.func, ast.Name) and n.func.id == "isinstance" and len(n.args) == 2:
            names = [unparse(x).rsplit(".", 1)[-1] for x in (n.args[1].elts if isinstance(n.args[1], ast.Tuple) else [n.args[1]])]
            if any("Compound" in x for x in names):
                return True
            if names and all(x in ("Select", "SelectBase") for x in names):
                return names != ["Select"]
        return call0(n, env, sx, events)

    env = {}
    for p_, d in func_defaults(rl.node).items():
        env[p_] = d.value if isinstance(d, ast.Constant) else OPAQUE
    paths = SymExec(attr=attr, call=call, what=rl.key, follow=(ctx, rl)).run(_nf(ctx, rl).node.body, env)
    for kind, val, _env, events in paths:
        if kind == "raise":
            continue
        if kind != "return" or not isinstance(val, str):
            raise Unsupported(f"{rl.key}: a path ends with {kind} {val!r}")
        rest = val
        if "‹self.limit_clause›" in rest:
            lc = ix.resolve_method(cls, "limit_clause")
            lpaths = _run_cases(ctx, lc, {"c": case})["c"]
            if any(k == "return" and isinstance(v, str) and v.strip() == "" for k, v, _e, _ev in lpaths):
                return True, f"{rl.qualname} -> {lc.qualname} returns ''"
            rest = rest.replace("‹self.limit_clause›", "x")
        if "‹super._row_limit_clause›" in rest and depth < 3:
            mro = ix.mro(cls)
            nxt = None
            if rl.cls in mro:
                for k in mro[mro.index(rl.cls) + 1:]:
                    if "_row_limit_clause" in k.methods:
                        nxt = k.methods["_row_limit_clause"]
                        break
            if nxt is None:
                raise Unsupported(f"{rl.key}: super()._row_limit_clause not resolved")
            e, why = _row_limit_empty_paths(ctx, cls, nxt, case, depth + 1, flags)
            if e:
                return True, f"{rl.qualname} -> {why}"
            rest = rest.replace("‹super._row_limit_clause›", "x")
        if rest.strip() == "":
            return True, f"{rl.qualname} returns ''"
    return False, None


@R.rule("C18-R7", floor=6, template="T-SIBLING (Select and CompoundSelect share _row_limit_clause)",
        desc="SQLCompiler.visit_compound_select renders the row limit of a UNION / INTERSECT / EXCEPT only through "
             "_row_limit_clause(); the TOP prefix (get_select_precolumns) and the row-number wrapper "
             "(translate_select_structure) are reached from visit_select alone.  So for every compiler class, for every "
             "LIMIT / OFFSET / FETCH presence, _row_limit_clause (followed through limit_clause / super()) renders something on "
             "every path -- or the class has its own visit_compound_select: otherwise union(...).limit(n) is compiled without "
             "any row-limiting clause and returns every row")
def r7(ctx):
    ix = ctx.index
    base = ix.cls("sql/compiler.py::SQLCompiler")
    vcs = ctx.method(base.key, "visit_compound_select")
    ctx.functions_analysed.add(vcs.key)
    called = {(call_name(c) or "").rsplit(".", 1)[-1] for c in calls_in(_nf(ctx, vcs).node, into_nested=True)}
    ctx.require("_row_limit_clause" in called, f"{vcs.key}: no call of _row_limit_clause")
    select_only = [h for h in SELECT_ONLY_HOOKS if h not in called]
    classes = [base] + sorted(ix.subclasses(base), key=lambda c: c.key)
    for cls in classes:
        if cls.module.relpath.startswith("testing/"):
            continue
        own = [n_ for n_ in ("_row_limit_clause", "limit_clause") if n_ in cls.methods]
        if cls is not base and not own:
            continue
        key = f"{cls.key}:compound-select-row-limit"
        rl = ix.resolve_method(cls, "_row_limit_clause")
        ctx.require(rl is not None, f"{cls.key}: _row_limit_clause not resolved")
        ctx.functions_analysed.add(rl.key)
        own_vcs = ix.resolve_method(cls, "visit_compound_select")
        if own_vcs is not vcs:
            ctx.ok(key, f"own visit_compound_select ({own_vcs.qualname})", nontrivial=False)
            continue
        empties = []
        for cname, case in R7_CASES.items():
            try:
                e, why = _row_limit_empty_paths(ctx, cls, rl, case)
            except Unsupported as ex:
                ctx.require(False, f"{key}: {ex}")
            if e:
                empties.append((cname, why))
        if not empties:
            ctx.ok(key, f"_row_limit_clause renders a clause on every path for {len(R7_CASES)} limit/offset/fetch combinations")
            continue
        alts = [h for h in select_only if (ix.resolve_method(cls, h) is not None and ix.resolve_method(cls, h).cls is not base)]
        ctx.violation(key,
                      f"for {', '.join(c for c, _ in empties)} a path renders no row-limiting text ({empties[0][1]}): the class limits a plain "
                      f"SELECT through {' / '.join(alts) or 'another hook'}, which only visit_select reaches, while "
                      f"{vcs.qualname} renders the limit of a compound select through _row_limit_clause() alone -- "
                      f"union(a, b).order_by(..).limit(n) is compiled WITHOUT any row-limiting clause on that path and returns all rows "
                      f"(it must render OFFSET/FETCH, wrap the compound select, or raise CompileError)", rl.loc)


# ------------------------------------------------------------------------------------------ self test
MS = "dialects/mssql/base.py"
OR = "dialects/oracle/base.py"
R.mutant("r1-mssql-offset-inclusive", MS, sub("limitselect = limitselect.where(mssql_rn > offset_clause)", "limitselect = limitselect.where(mssql_rn >= offset_clause)"), "C18-R1")
R.mutant("r1-mssql-upper-forgets-offset", MS, sub("                        mssql_rn <= (limit_clause + offset_clause)\n", "                        mssql_rn <= (limit_clause)\n"), "C18-R1")
R.mutant("r1-oracle-upper-forgets-offset", OR,
         sub("                        max_row = limit_clause\n\n                        if offset_clause is not None:\n                            max_row = max_row + offset_clause\n\n                    else:",
             "                        max_row = limit_clause\n\n                    else:"), "C18-R1")
R.mutant("r1-oracle-strict-upper", OR, sub('                        sql.literal_column("ROWNUM") <= max_row\n', '                        sql.literal_column("ROWNUM") < max_row\n'), "C18-R1")
R.mutant("r2-mysql-swapped-operands", "dialects/mysql/base.py",
         sub("                return \" \\n LIMIT %s, %s\" % (\n                    self.process(offset_clause, **kw),\n                    self.process(limit_clause, **kw),\n",
             "                return \" \\n LIMIT %s, %s\" % (\n                    self.process(limit_clause, **kw),\n                    self.process(offset_clause, **kw),\n"), "C18-R2")
R.mutant("r2-sqlite-no-filler", "dialects/sqlite/base.py",
         sub('            if select._limit_clause is None:\n                text += "\\n LIMIT " + self.process(sql.literal(-1))\n', ""), "C18-R2")
R.mutant("r2-base-offset-uses-limit", "sql/compiler.py",
         sub('            text += " OFFSET " + self.process(select._offset_clause, **kw)\n        return text\n\n    def fetch_clause(',
             '            text += " OFFSET " + self.process(select._limit_clause, **kw)\n        return text\n\n    def fetch_clause('), "C18-R2")
R.mutant("r2-fetch-no-offset-filler", "sql/compiler.py", sub('            text += "\\n OFFSET 0 ROWS"\n', '            pass\n'), "C18-R2")
R.mutant("r2-mssql-limit-or-fetch-inverted", MS,
         sub("        if select._fetch_clause is None:\n            return select._limit_clause\n        else:\n            return select._fetch_clause\n\n    def _use_top",
             "        if select._fetch_clause is not None:\n            return select._limit_clause\n        else:\n            return select._fetch_clause\n\n    def _use_top"), "C18-R2")
R.mutant("r3-mssql-wrapper-even-with-offset-fetch", MS,
         sub("            select._has_row_limiting_clause\n            and not self.dialect._supports_offset_fetch\n            and not self._use_top(select)\n",
             "            select._has_row_limiting_clause\n            and not self._use_top(select)\n"), "C18-R3")
R.mutant("r3-mssql-over-without-order", MS, sub("                    .over(order_by=_order_by_clauses)\n", "                    .over()\n"), "C18-R3")
R.mutant("r3-oracle-marker-not-set", OR,
         sub("                orig_select = select\n                select = select._generate()\n                select._oracle_visit = True\n",
             "                orig_select = select\n                select = select._generate()\n"), "C18-R3")
R.mutant("r3-mssql-no-order-check", MS, sub("            self._check_can_use_fetch_limit(select)\n\n            _order_by_clauses = [", "            _order_by_clauses = ["), "C18-R3")
# benign
R.mutant("benign-mssql-rename-local", MS,
         sub('            mssql_rn = sql.column("mssql_rn")\n', '            mssql_rn = sql.column("mssql_rn")\n            _dbg = None\n'), None)
R.mutant("benign-mssql-commuted-sum", MS, sub("                        mssql_rn <= (limit_clause + offset_clause)\n", "                        mssql_rn <= (offset_clause + limit_clause)\n"), None)
R.mutant("benign-pg-limit-local", "dialects/postgresql/base.py",
         sub('            text += " \\n LIMIT " + self.process(select._limit_clause, **kw)\n        if select._offset_clause is not None:\n            if select._limit_clause is None:\n                text += "\\n LIMIT ALL"',
             '            lim = self.process(select._limit_clause, **kw)\n            text += " \\n LIMIT " + lim\n        if select._offset_clause is not None:\n            if select._limit_clause is None:\n                text += "\\n LIMIT ALL"'), None)

# ---- R4 / R5 (str-e): seeds C18/1, C18/2 and relatives
UT = "sql/util.py"
_SLICE_BOTH = ("        offset_clause = _offset_or_limit_clause_asint_if_possible(\n            offset_clause\n        )\n        if offset_clause is None:\n            offset_clause = 0\n\n"
               "        if start != 0:\n            offset_clause = offset_clause + start  # type: ignore[operator]\n\n"
               "        if offset_clause == 0:\n            offset_clause = None\n        else:\n            assert offset_clause is not None\n            offset_clause = _offset_or_limit_clause(offset_clause)\n\n"
               "        limit_clause = _offset_or_limit_clause(stop - start)\n")
R.mutant("seed1-slice-from-zero-drops-existing-offset", UT,
         sub(_SLICE_BOTH,
             "        if start != 0:\n            offset_clause = _offset_or_limit_clause_asint_if_possible(\n                offset_clause\n            )\n            if offset_clause is None:\n                offset_clause = 0\n\n"
             "            offset_clause = _offset_or_limit_clause(\n                offset_clause + start  # type: ignore[operator]\n            )\n        else:\n            # slice begins at the first row, no OFFSET to render\n            offset_clause = None\n\n"
             "        limit_clause = _offset_or_limit_clause(stop - start)\n"), "C18-R4")
R.mutant("r4-limit-forgets-start", UT,
         sub("        limit_clause = _offset_or_limit_clause(stop - start)\n", "        limit_clause = _offset_or_limit_clause(stop)\n"), "C18-R4")
R.mutant("r4-open-slice-replaces-offset", UT,
         sub("        if start != 0:\n            offset_clause = offset_clause + start\n\n", "        if start != 0:\n            offset_clause = start\n\n"), "C18-R4")
R.mutant("r4-start-not-added", UT,
         sub("        if start != 0:\n            offset_clause = offset_clause + start  # type: ignore[operator]\n\n", ""), "C18-R4")
R.mutant("r4-query-slice-swaps-limit-offset", "orm/query.py",
         sub("        self._limit_clause, self._offset_clause = sql_util._make_slice(\n            self._limit_clause, self._offset_clause, start, stop\n        )",
             "        self._limit_clause, self._offset_clause = sql_util._make_slice(\n            self._offset_clause, self._limit_clause, start, stop\n        )"), "C18-R4")
R.mutant("seed2-oracle-fetch-options-lost", OR,
         sub("        if (\n            select._fetch_clause is not None\n            or not self.dialect._supports_offset_fetch\n        ):\n            return super()._row_limit_clause(",
             "        if not self.dialect._supports_offset_fetch:\n            return super()._row_limit_clause("), "C18-R5")
R.mutant("r5-pg-fetch-ignores-with-ties", "dialects/postgresql/base.py",
         sub('                (\n                    "WITH TIES"\n                    if select._fetch_clause_options["with_ties"]\n                    else "ONLY"\n                ),\n', '                "ONLY",\n'), "C18-R5")
R.mutant("r5-base-fetch-ignores-percent", "sql/compiler.py",
         sub('                " PERCENT" if fetch_clause_options["percent"] else "",\n', '                "",\n'), "C18-R5")
R.mutant("r5-mssql-offset-fetch-without-options-check", MS,
         sub("            self._check_can_use_fetch_limit(select)\n\n            return self.fetch_clause(\n", "            return self.fetch_clause(\n"), "C18-R5")
R.mutant("r5-mssql-top-ignores-with-ties", MS,
         sub('                if select._fetch_clause_options["with_ties"]:\n                    s += "WITH TIES "\n', ''), "C18-R5")
# benign relatives
R.mutant("benign-slice-unconditional-add-commuted", UT,
         sub("        if start != 0:\n            offset_clause = offset_clause + start  # type: ignore[operator]\n\n",
             "        offset_clause = start + offset_clause  # type: ignore[operator]\n\n"), None)
R.mutant("benign-slice-rename-local", UT,
         sub("        limit_clause = _offset_or_limit_clause(stop - start)\n", "        _n = stop - start\n        limit_clause = _offset_or_limit_clause(_n)\n"), None)
R.mutant("benign-oracle-early-returns", OR,
         sub("        if (\n            select._fetch_clause is not None\n            or not self.dialect._supports_offset_fetch\n        ):\n            return super()._row_limit_clause(\n                select, use_literal_execute_for_simple_int=True, **kw\n            )\n        else:\n            return self.fetch_clause(\n                select,\n                fetch_clause=self._get_limit_or_fetch(select),\n                use_literal_execute_for_simple_int=True,\n                **kw,\n            )\n",
             "        if select._fetch_clause is not None:\n            return super()._row_limit_clause(\n                select, use_literal_execute_for_simple_int=True, **kw\n            )\n        if not self.dialect._supports_offset_fetch:\n            return super()._row_limit_clause(\n                select, use_literal_execute_for_simple_int=True, **kw\n            )\n        return self.fetch_clause(\n            select,\n            fetch_clause=self._get_limit_or_fetch(select),\n            use_literal_execute_for_simple_int=True,\n            **kw,\n        )\n"), None)
R.mutant("benign-oracle-passes-limit-itself", OR,
         sub("                fetch_clause=self._get_limit_or_fetch(select),\n                use_literal_execute_for_simple_int=True,\n", "                fetch_clause=select._limit_clause,\n                use_literal_execute_for_simple_int=True,\n"), None)

# ---- rob-H2: shape variants (guards as early return / boolean local / nested ifs, helpers extracted, f-strings, result of _make_slice via locals); benign must stay silent
R.mutant('benign-mssql-guard-bool-local-early-return', 'dialects/mssql/base.py',
         sub('        if (\n            select._has_row_limiting_clause\n            and not self.dialect._supports_offset_fetch\n            and not self._use_top(select)\n            and not getattr(select, "_mssql_visit", None)\n        ):\n            self._check_can_use_fetch_limit(select)\n\n            _order_by_clauses = [',
             '        needs_wrapper = (\n            select._has_row_limiting_clause\n            and not self.dialect._supports_offset_fetch\n            and not self._use_top(select)\n        )\n        if not needs_wrapper or getattr(select, "_mssql_visit", None):\n            return select\n        if True:\n            self._check_can_use_fetch_limit(select)\n\n            _order_by_clauses = ['), None)
R.mutant('benign-mssql-guard-nested-ifs', 'dialects/mssql/base.py',
         sub('        if (\n            select._has_row_limiting_clause\n            and not self.dialect._supports_offset_fetch\n            and not self._use_top(select)\n            and not getattr(select, "_mssql_visit", None)\n        ):\n            self._check_can_use_fetch_limit(select)\n',
             '        already_wrapped = getattr(select, "_mssql_visit", None)\n        if (\n            select._has_row_limiting_clause\n            and not already_wrapped\n            and not (\n                self.dialect._supports_offset_fetch or self._use_top(select)\n            )\n        ):\n            self._check_can_use_fetch_limit(select)\n'), None)
R.mutant('benign-mssql-order-by-built-by-loop', 'dialects/mssql/base.py',
         sub('            _order_by_clauses = [\n                sql_util.unwrap_label_reference(elem)\n                for elem in select._order_by_clause.clauses\n            ]\n',
             '            _order_by_clauses = []\n            for elem in select._order_by_clause.clauses:\n                _order_by_clauses.append(\n                    sql_util.unwrap_label_reference(elem)\n                )\n'), None)
R.mutant('benign-mssql-wrapper-tail-extracted-helper', 'dialects/mssql/base.py',
         sub('            mssql_rn = sql.column("mssql_rn")\n            limitselect = sql.select(\n                *[c for c in select.c if c.key != "mssql_rn"]\n            )\n            if offset_clause is not None:\n                limitselect = limitselect.where(mssql_rn > offset_clause)\n                if limit_clause is not None:\n                    limitselect = limitselect.where(\n                        mssql_rn <= (limit_clause + offset_clause)\n                    )\n            else:\n                limitselect = limitselect.where(mssql_rn <= (limit_clause))\n            return limitselect\n        else:\n            return select\n',
             '            return self._row_number_window(select, limit_clause, offset_clause)\n        else:\n            return select\n\n    def _row_number_window(self, inner, limit_clause, offset_clause):\n        mssql_rn = sql.column("mssql_rn")\n        limitselect = sql.select(*[c for c in inner.c if c.key != "mssql_rn"])\n        if offset_clause is None:\n            return limitselect.where(mssql_rn <= limit_clause)\n        limitselect = limitselect.where(mssql_rn > offset_clause)\n        if limit_clause is not None:\n            upper = limit_clause + offset_clause\n            limitselect = limitselect.where(mssql_rn <= upper)\n        return limitselect\n'), None)
R.mutant('benign-mssql-generated-select-named', 'dialects/mssql/base.py',
         sub('            select = select._generate()\n            select._mssql_visit = True\n            select = (\n                select.add_columns(',
             '            generated = select._generate()\n            generated._mssql_visit = True\n            select = (\n                generated.add_columns('), None)
R.mutant('benign-oracle-guard-early-return', 'dialects/oracle/base.py',
         sub('        if not getattr(select, "_oracle_visit", None):\n            if not self.dialect.use_ansi:',
             '        visited = getattr(select, "_oracle_visit", None)\n        if visited:\n            return select\n        if True:\n            if not self.dialect.use_ansi:'), None)
R.mutant('benign-oracle-guard-split-nested', 'dialects/oracle/base.py',
         sub('            if (\n                select._has_row_limiting_clause\n                and not self.dialect._supports_offset_fetch\n                and select._fetch_clause is None\n            ):\n                limit_clause = select._limit_clause',
             '            emulate = not self.dialect._supports_offset_fetch\n            if (\n                select._has_row_limiting_clause\n                and emulate\n                and select._fetch_clause is None\n            ):\n                limit_clause = select._limit_clause'), None)
R.mutant('r3-mssql-early-return-forgets-marker', 'dialects/mssql/base.py',
         sub('        if (\n            select._has_row_limiting_clause\n            and not self.dialect._supports_offset_fetch\n            and not self._use_top(select)\n            and not getattr(select, "_mssql_visit", None)\n        ):\n            self._check_can_use_fetch_limit(select)\n',
             '        if (\n            not select._has_row_limiting_clause\n            or self.dialect._supports_offset_fetch\n            or self._use_top(select)\n        ):\n            return select\n        if True:\n            self._check_can_use_fetch_limit(select)\n'), 'C18-R3')
R.mutant('r3-mssql-bool-local-drops-row-limiting-test', 'dialects/mssql/base.py',
         sub('        if (\n            select._has_row_limiting_clause\n            and not self.dialect._supports_offset_fetch\n            and not self._use_top(select)\n            and not getattr(select, "_mssql_visit", None)\n        ):\n            self._check_can_use_fetch_limit(select)\n',
             '        needs_wrapper = not self.dialect._supports_offset_fetch and not self._use_top(select)\n        if needs_wrapper and not getattr(select, "_mssql_visit", None):\n            self._check_can_use_fetch_limit(select)\n'), 'C18-R3')
R.mutant('r3-oracle-wrapper-even-with-offset-fetch', 'dialects/oracle/base.py',
         sub('                select._has_row_limiting_clause\n                and not self.dialect._supports_offset_fetch\n                and select._fetch_clause is None\n',
             '                select._has_row_limiting_clause\n                and select._fetch_clause is None\n'), 'C18-R3')
R.mutant('r3-mssql-order-by-loop-over-group-by', 'dialects/mssql/base.py',
         sub('                for elem in select._order_by_clause.clauses\n',
             '                for elem in select._group_by_clause.clauses\n'), 'C18-R3')
R.mutant('benign-mysql-limit-fstrings', 'dialects/mysql/base.py',
         sub('                return " \\n LIMIT %s, %s" % (\n                    self.process(offset_clause, **kw),\n                    self.process(limit_clause, **kw),\n                )',
             '                skip = self.process(offset_clause, **kw)\n                count = self.process(limit_clause, **kw)\n                return f" \\n LIMIT {skip}, {count}"'), None)
R.mutant('benign-base-limit-format-and-helper', 'sql/compiler.py',
         sub('            text += " OFFSET " + self.process(select._offset_clause, **kw)\n        return text\n\n    def fetch_clause(',
             '            text += self._offset_text(select, **kw)\n        return text\n\n    def _offset_text(self, select, **kw):\n        return " OFFSET {}".format(self.process(select._offset_clause, **kw))\n\n    def fetch_clause('), None)
R.mutant('r2-mysql-fstring-swapped-operands', 'dialects/mysql/base.py',
         sub('                return " \\n LIMIT %s, %s" % (\n                    self.process(offset_clause, **kw),\n                    self.process(limit_clause, **kw),\n                )',
             '                skip = self.process(offset_clause, **kw)\n                count = self.process(limit_clause, **kw)\n                return f" \\n LIMIT {count}, {skip}"'), 'C18-R2')
R.mutant('benign-slice-offset-arith-extracted-helper', 'sql/util.py',
         sub('    elif start is not None and stop is None:\n        offset_clause = _offset_or_limit_clause_asint_if_possible(\n            offset_clause\n        )\n        if offset_clause is None:\n            offset_clause = 0\n\n        if start != 0:\n            offset_clause = offset_clause + start\n\n        if offset_clause == 0:\n            offset_clause = None\n        else:\n            offset_clause = _offset_or_limit_clause(offset_clause)\n\n    return limit_clause, offset_clause\n',
             '    elif start is not None and stop is None:\n        offset_clause = _shift_offset(offset_clause, start)\n\n    return limit_clause, offset_clause\n\n\ndef _shift_offset(offset_clause, start):\n    current = _offset_or_limit_clause_asint_if_possible(offset_clause)\n    if current is None:\n        current = 0\n    shifted = current + start if start != 0 else current\n    if shifted == 0:\n        return None\n    return _offset_or_limit_clause(shifted)\n'), None)
R.mutant('benign-slice-branches-inverted-early-returns', 'sql/util.py',
         sub('    elif start is not None and stop is None:\n        offset_clause = _offset_or_limit_clause_asint_if_possible(\n            offset_clause\n        )\n        if offset_clause is None:\n            offset_clause = 0\n\n        if start != 0:\n            offset_clause = offset_clause + start\n\n        if offset_clause == 0:\n            offset_clause = None\n        else:\n            offset_clause = _offset_or_limit_clause(offset_clause)\n\n    return limit_clause, offset_clause\n',
             '    elif start is not None and stop is None:\n        base = _offset_or_limit_clause_asint_if_possible(offset_clause)\n        new_offset = (0 if base is None else base) + start\n        if new_offset != 0:\n            return limit_clause, _offset_or_limit_clause(new_offset)\n        return limit_clause, None\n\n    return limit_clause, offset_clause\n'), None)
R.mutant('benign-slice-stop-only-first', 'sql/util.py',
         sub('    if start is not None and stop is not None:\n        offset_clause = _offset_or_limit_clause_asint_if_possible(',
             '    if start is None and stop is None:\n        return limit_clause, offset_clause\n    if start is not None and stop is not None:\n        offset_clause = _offset_or_limit_clause_asint_if_possible('), None)
R.mutant('r4-extracted-helper-drops-existing-offset', 'sql/util.py',
         sub('    elif start is not None and stop is None:\n        offset_clause = _offset_or_limit_clause_asint_if_possible(\n            offset_clause\n        )\n        if offset_clause is None:\n            offset_clause = 0\n\n        if start != 0:\n            offset_clause = offset_clause + start\n\n        if offset_clause == 0:\n            offset_clause = None\n        else:\n            offset_clause = _offset_or_limit_clause(offset_clause)\n\n    return limit_clause, offset_clause\n',
             '    elif start is not None and stop is None:\n        offset_clause = _shift_offset(offset_clause, start)\n\n    return limit_clause, offset_clause\n\n\ndef _shift_offset(offset_clause, start):\n    if start == 0:\n        return None\n    current = _offset_or_limit_clause_asint_if_possible(offset_clause)\n    if current is None:\n        current = 0\n    return _offset_or_limit_clause(current + start)\n'), 'C18-R4')
R.mutant('benign-query-slice-result-via-locals', 'orm/query.py',
         sub('        self._limit_clause, self._offset_clause = sql_util._make_slice(\n            self._limit_clause, self._offset_clause, start, stop\n        )',
             '        current_limit = self._limit_clause\n        new_limit, new_offset = sql_util._make_slice(\n            current_limit, self._offset_clause, start, stop\n        )\n        self._offset_clause = new_offset\n        self._limit_clause = new_limit'), None)
R.mutant('benign-select-slice-result-indexed', 'sql/selectable.py',
         sub('        self._limit_clause, self._offset_clause = sql_util._make_slice(\n            self._limit_clause, self._offset_clause, start, stop\n        )',
             '        sliced = sql_util._make_slice(\n            self._limit_clause, self._offset_clause, start, stop\n        )\n        self._limit_clause = sliced[0]\n        self._offset_clause = sliced[1]'), None)
R.mutant('r4-query-slice-locals-stored-swapped', 'orm/query.py',
         sub('        self._limit_clause, self._offset_clause = sql_util._make_slice(\n            self._limit_clause, self._offset_clause, start, stop\n        )',
             '        new_limit, new_offset = sql_util._make_slice(\n            self._limit_clause, self._offset_clause, start, stop\n        )\n        self._offset_clause = new_limit\n        self._limit_clause = new_offset'), 'C18-R4')
R.mutant('benign-mssql-options-check-bool-local', 'dialects/mssql/base.py',
         sub('        if select._fetch_clause_options is not None and (\n            select._fetch_clause_options["percent"]\n            or select._fetch_clause_options["with_ties"]\n        ):\n            raise exc.CompileError(',
             '        options = select._fetch_clause_options\n        uses_top_only_options = options is not None and (\n            options["percent"] or options["with_ties"]\n        )\n        if uses_top_only_options:\n            raise exc.CompileError('), None)
R.mutant('benign-pg-fetch-suffix-helper', 'dialects/postgresql/base.py',
         sub('                (\n                    "WITH TIES"\n                    if select._fetch_clause_options["with_ties"]\n                    else "ONLY"\n                ),\n            )\n        return text\n',
             '                self._fetch_suffix(select),\n            )\n        return text\n\n    def _fetch_suffix(self, select):\n        if select._fetch_clause_options["with_ties"]:\n            return "WITH TIES"\n        return "ONLY"\n'), None)

# rob-H2: several criteria in one where() call
R.mutant('benign-mssql-bounds-in-one-where-call', 'dialects/mssql/base.py',
         sub('                limitselect = limitselect.where(mssql_rn > offset_clause)\n                if limit_clause is not None:\n                    limitselect = limitselect.where(\n                        mssql_rn <= (limit_clause + offset_clause)\n                    )\n',
             '                if limit_clause is not None:\n                    limitselect = limitselect.where(\n                        mssql_rn > offset_clause,\n                        mssql_rn <= (limit_clause + offset_clause),\n                    )\n                else:\n                    limitselect = limitselect.where(mssql_rn > offset_clause)\n'), None)
R.mutant('r1-mssql-one-where-call-lower-bound-inclusive', 'dialects/mssql/base.py',
         sub('                limitselect = limitselect.where(mssql_rn > offset_clause)\n                if limit_clause is not None:\n                    limitselect = limitselect.where(\n                        mssql_rn <= (limit_clause + offset_clause)\n                    )\n',
             '                if limit_clause is not None:\n                    limitselect = limitselect.where(\n                        mssql_rn >= offset_clause,\n                        mssql_rn <= (limit_clause + offset_clause),\n                    )\n                else:\n                    limitselect = limitselect.where(mssql_rn > offset_clause)\n'), 'C18-R1')

# ---- str2-g: round-2 seeds C18/1 (seeded/C18_3: ORDER BY terms dropped before OVER()) and C18/2 (seeded/C18_4: the
# merged max_row branches lose `+ offset` on one path) and relatives
from ..report import chain as _chain  # noqa: E402

_MS_OB = ('            _order_by_clauses = [\n                sql_util.unwrap_label_reference(elem)\n'
          '                for elem in select._order_by_clause.clauses\n            ]\n')
R.mutant('seed3-mssql-window-order-by-deduplicated', MS,
         sub(_MS_OB,
             '            _order_by_clauses = []\n            for elem in select._order_by_clause.clauses:\n'
             '                elem = sql_util.unwrap_label_reference(elem)\n'
             '                if not any(elem.compare(prev) for prev in _order_by_clauses):\n'
             '                    _order_by_clauses.append(elem)\n'), 'C18-R3')
R.mutant('r3-mssql-window-order-by-comprehension-filter', MS,
         sub(_MS_OB,
             '            _order_by_clauses = [\n                sql_util.unwrap_label_reference(elem)\n'
             '                for elem in select._order_by_clause.clauses\n                if not elem._is_text_clause\n            ]\n'), 'C18-R3')
R.mutant('r3-mssql-window-order-by-skips-with-continue', MS,
         sub(_MS_OB,
             '            _order_by_clauses = []\n            _seen = set()\n            for elem in select._order_by_clause.clauses:\n'
             '                elem = sql_util.unwrap_label_reference(elem)\n'
             '                if str(elem) in _seen:\n                    continue\n'
             '                _seen.add(str(elem))\n                _order_by_clauses.append(elem)\n'), 'C18-R3')
R.mutant('r3-mssql-window-order-by-first-term-only', MS,
         sub('                    .over(order_by=_order_by_clauses)\n', '                    .over(order_by=_order_by_clauses[:1])\n'), 'C18-R3')
R.mutant('r3-mssql-window-order-by-unique-pass', MS,
         sub('                    .over(order_by=_order_by_clauses)\n',
             '                    .over(order_by=list(dict.fromkeys(_order_by_clauses)))\n'), 'C18-R3')
R.mutant('benign-mssql-window-order-by-map', MS,
         sub(_MS_OB,
             '            _order_by_clauses = list(\n                map(\n                    sql_util.unwrap_label_reference,\n'
             '                    select._order_by_clause.clauses,\n                )\n            )\n'), None)
R.mutant('benign-mssql-window-order-by-helper', MS,
         _chain(sub(_MS_OB, '            _order_by_clauses = self._window_order_by(select)\n'),
                sub('    def translate_select_structure(self, select_stmt, **kwargs):\n',
                    '    def _window_order_by(self, select):\n        return [\n'
                    '            sql_util.unwrap_label_reference(elem)\n'
                    '            for elem in select._order_by_clause.clauses\n        ]\n\n'
                    '    def translate_select_structure(self, select_stmt, **kwargs):\n')), None)
R.mutant('benign-mssql-window-order-by-aliases', MS,
         _chain(sub(_MS_OB,
                    '            statement_terms = select._order_by_clause.clauses\n            window_terms = []\n'
                    '            for term in statement_terms:\n                unwrapped = sql_util.unwrap_label_reference(term)\n'
                    '                window_terms.append(unwrapped)\n'),
                sub('                    .over(order_by=_order_by_clauses)\n',
                    '                    .over(order_by=window_terms)\n')), None)
_ORA_MAX = ('                    if select._simple_int_clause(limit_clause) and (\n                        offset_clause is None\n'
            '                        or select._simple_int_clause(offset_clause)\n                    ):\n'
            '                        max_row = limit_clause\n\n                        if offset_clause is not None:\n'
            '                            max_row = max_row + offset_clause\n\n                    else:\n'
            '                        max_row = limit_clause\n\n                        if offset_clause is not None:\n'
            '                            max_row = max_row + offset_clause\n')
R.mutant('seed4-oracle-merged-max-row-loses-offset-when-both-non-simple', OR,
         sub(_ORA_MAX,
             '                    max_row = limit_clause\n\n                    if offset_clause is not None and (\n'
             '                        select._simple_int_clause(limit_clause)\n                        or select._simple_int_clause(offset_clause)\n'
             '                    ):\n                        max_row = max_row + offset_clause\n\n'), 'C18-R1')
R.mutant('r1-oracle-max-row-offset-only-on-simple-path', OR,
         sub(_ORA_MAX,
             '                    max_row = limit_clause\n                    if select._simple_int_clause(limit_clause):\n'
             '                        if offset_clause is not None:\n                            max_row = max_row + offset_clause\n\n'), 'C18-R1')
R.mutant('benign-oracle-max-row-branches-merged', OR,
         sub(_ORA_MAX,
             '                    max_row = limit_clause\n\n                    if offset_clause is not None:\n'
             '                        max_row = max_row + offset_clause\n\n'), None)
R.mutant('benign-oracle-max-row-ternary', OR,
         sub(_ORA_MAX,
             '                    max_row = (\n                        limit_clause\n                        if offset_clause is None\n'
             '                        else limit_clause + offset_clause\n                    )\n\n'), None)

# ---- str2-g: R6 (row-limiting predicates), R7 (compound selects), R3 `:distinct`
# NB the two `benign-*-fix-*` entries patch code that violates on the unchanged tree (KNOWN defects, see notes/str2-g.md): the
# self-test filters baseline keys, so they only show that the fixed shape is understood (no exit 2); that the rules go
# silent on the fixes was checked against a fixed scratch worktree (SQLASTATIC_ROOT).
SEL = "sql/selectable.py"
_HAS_RL = ('            self._limit_clause is not None\n            or self._offset_clause is not None\n'
           '            or self._fetch_clause is not None\n')
R.mutant('r6-select-has-row-limiting-forgets-fetch', SEL,
         sub(_HAS_RL, '            self._limit_clause is not None\n            or self._offset_clause is not None\n'), 'C18-R6')
R.mutant('r6-select-has-row-limiting-forgets-offset', SEL,
         sub(_HAS_RL, '            self._limit_clause is not None\n            or self._fetch_clause is not None\n'), 'C18-R6')
R.mutant('benign-r6-select-has-row-limiting-through-locals', SEL,
         sub('        return (\n' + _HAS_RL + '        )\n',
             '        has_limit = self._limit_clause is not None\n        has_offset = self._offset_clause is not None\n'
             '        has_fetch = self._fetch_clause is not None\n        return has_limit or has_offset or has_fetch\n'), None)
R.mutant('benign-r6-select-has-row-limiting-early-returns', SEL,
         sub('        return (\n' + _HAS_RL + '        )\n',
             '        if self._fetch_clause is not None:\n            return True\n'
             '        return (\n            self._limit_clause is not None\n            or self._offset_clause is not None\n        )\n'), None)
_NEST = ('            or (\n                kwargs.get("offset_clause") is not None\n                and self.multi_row_eager_loaders\n            )\n')
R.mutant('benign-r6-fix-should-nest-selectable-tests-fetch', 'orm/context.py',
         sub(_NEST, _NEST + '            or (\n                kwargs.get("fetch_clause") is not None\n                and self.multi_row_eager_loaders\n            )\n'), None)
R.mutant('r6-query-asks-statement-limit-offset-only', 'orm/strategies.py',
         sub('        if not q._has_row_limiting_clause:\n            q._order_by_clauses = ()\n',
             '        stmt = q._statement\n        if stmt is not None and (\n            stmt._limit_clause is None and stmt._offset_clause is None\n'
             '        ):\n            q._order_by_clauses = ()\n'), 'C18-R6')
R.mutant('r7-base-row-limit-renders-nothing-for-offset-only', 'sql/compiler.py',
         sub('        if cs._fetch_clause is not None:\n            return self.fetch_clause(cs, **kwargs)\n        else:\n            return self.limit_clause(cs, **kwargs)\n',
             '        if cs._fetch_clause is not None:\n            return self.fetch_clause(cs, **kwargs)\n        elif cs._limit_clause is not None:\n'
             '            return self.limit_clause(cs, **kwargs)\n        else:\n            return ""\n'), 'C18-R7')
R.mutant('r7-sqlite-limit-clause-empty', 'dialects/sqlite/base.py',
         sub('    def limit_clause(self, select, **kw):\n        text = ""\n',
             '    def limit_clause(self, select, **kw):\n        text = ""\n        if self.dialect._sqlite_version_info < (3, 0, 0):\n            return text\n'), 'C18-R7')
R.mutant('benign-r7-fix-mssql-compound-select-uses-offset-fetch-or-raises', MS,
         sub('        if self.dialect._supports_offset_fetch and not self._use_top(select):\n            self._check_can_use_fetch_limit(select)\n',
             '        is_compound = isinstance(select, expression.CompoundSelect)\n'
             '        if is_compound and not self.dialect._supports_offset_fetch:\n            raise exc.CompileError(\n'
             '                "LIMIT / OFFSET on a compound select requires OFFSET / FETCH"\n            )\n'
             '        if self.dialect._supports_offset_fetch and (\n            is_compound or not self._use_top(select)\n        ):\n'
             '            self._check_can_use_fetch_limit(select)\n'), None)
R.mutant('benign-r7-base-row-limit-early-return', 'sql/compiler.py',
         sub('        if cs._fetch_clause is not None:\n            return self.fetch_clause(cs, **kwargs)\n        else:\n            return self.limit_clause(cs, **kwargs)\n',
             '        if cs._fetch_clause is None:\n            return self.limit_clause(cs, **kwargs)\n        return self.fetch_clause(cs, **kwargs)\n'), None)
R.mutant('r3-oracle-rownum-added-to-the-statement-itself', OR,
         sub('                orig_select = select\n                select = select._generate()\n                select._oracle_visit = True\n',
             '                orig_select = select\n                select = select._generate()\n                select._oracle_visit = True\n'
             '                select = select.add_columns(\n                    sql.literal_column("ROWNUM").label("ora_rn0")\n                )\n'), 'C18-R3')
R.mutant('benign-oracle-rownum-column-through-local', OR,
         sub('                    limitselect = limitselect.add_columns(\n                        sql.literal_column("ROWNUM").label("ora_rn")\n                    )\n',
             '                    row_number = sql.literal_column("ROWNUM").label("ora_rn")\n'
             '                    limitselect = limitselect.add_columns(row_number)\n'), None)
