"""Helpers of `rob-D1` (C06, C08): `Mini2`, an extension of the concrete mini evaluator of
`_helpers_rules_a.Mini` that makes *model runs* of small methods robust against everyday refactorings:

* extracted helpers: `self.<m>(..)`, `super().<m>(..)`, module level `helper(..)` and bound-method locals are
  followed (the callee's body is run in the same model, bounded depth); properties are evaluated on access;
* model objects (`ModelObj`) with attribute load/store and stubbed methods, so that `binary.right = ...`,
  `self._strings[k] = v`, `lst.append(x)`, `d.get(k)` and comprehension <-> loop rewrites run unchanged;
* f-strings / `%` / `+` / `+=` are all just python string arithmetic in the model.

Like `Mini`, nothing from /repo is imported or executed: the AST of the handful of statements is interpreted
over model values chosen by the rule.  Anything outside the small language raises `Unsupported` (AnalysisError):
callers fall back to their structural matcher or report exit 2 -- never a pass, never a violation.
"""

from __future__ import annotations

import ast
import re
from typing import Any, Callable, Dict, List, Optional

from ..astutil import dotted, func_defaults, name_stores, unparse, walk_local
from ._helpers_rules_a import Mini, Unsupported, _Raise

PROPERTY_DECOS = {"property", "memoized_property", "memoized_attribute", "ro_memoized_property",
                  "non_memoized_property", "ro_non_memoized_property", "rw_hybridproperty", "cached_property"}
TRANSPARENT_DECOS = {"staticmethod", "classmethod", "lru_cache", "cache", "final", "override", "no_type_check"}
MEMO_IGNORES_ARGS = {"memoized_instancemethod"}

_RE_FUNCS = {"re.escape": re.escape, "re.compile": re.compile, "re.sub": re.sub, "re.findall": re.findall,
             "re.match": re.match, "re.search": re.search, "re.fullmatch": re.fullmatch, "re.split": re.split}
_RE_FLAGS = {"re.I": re.I, "re.IGNORECASE": re.I, "re.U": re.U, "re.UNICODE": re.U, "re.S": re.S, "re.M": re.M,
             "re.X": re.X, "re.VERBOSE": re.X}
_CONTAINER_METHODS = {
    list: {"append", "extend", "insert", "index", "count", "copy", "pop"},
    dict: {"get", "setdefault", "items", "keys", "values", "copy", "pop", "update"},
    set: {"add", "update", "discard", "copy", "union"},
    frozenset: {"union", "copy"},
    tuple: {"index", "count"},
}
_STR_METHODS2 = {"replace", "lower", "upper", "strip", "lstrip", "rstrip", "startswith", "endswith", "join",
                 "split", "format", "isupper", "islower", "isdigit", "find", "rfind", "count", "partition",
                 "rpartition", "title", "casefold"}


def _last(d: str) -> str:
    d = d.split("(")[0]
    return d.rsplit(".", 1)[-1]


class ModelStr(str):
    """a str that may carry data attributes (e.g. quoted_name.quote)."""


class ModelObj:
    """Opaque model object with attributes and stubbed methods."""

    def __init__(self, name="obj", attrs=None, methods=None, attr_default=None):
        self.m_name = name
        self.attrs: Dict[str, Any] = dict(attrs or {})
        self.methods: Dict[str, Callable] = dict(methods or {})
        self.attr_default = attr_default  # callable(attr) -> value | NotImplemented

    def __repr__(self):
        return f"<{self.m_name}>"

    def m_getattr(self, attr, mini, node):
        if attr in self.attrs:
            return self.attrs[attr]
        if attr in self.methods:
            return BoundStub(self, attr)
        if self.attr_default is not None:
            r = self.attr_default(attr)
            if r is not NotImplemented:
                self.attrs[attr] = r  # identity-stable (`x is mod.name`)
                return r
        raise Unsupported(f"{mini.what}: attribute `{self.m_name}.{attr}` has no model value")

    def m_setattr(self, attr, value, mini, node):
        self.attrs[attr] = value

    def m_call(self, attr, args, kwargs, mini, node):
        if attr in self.methods:
            return self.methods[attr](*args, **kwargs)
        raise Unsupported(f"{mini.what}: method `{self.m_name}.{attr}()` has no model")


class BoundStub:
    def __init__(self, obj, attr):
        self.obj, self.attr = obj, attr


class BoundMethod:
    def __init__(self, selfobj, fn, start_cls=None):
        self.selfobj, self.fn = selfobj, fn


class ModelSelf(ModelObj):
    """`self` of a class of the analysed tree: attributes come from `attrs`, stubbed methods from `methods`;
    every other method / property is resolved through the static MRO and *followed*."""

    def __init__(self, index, cls, attrs=None, methods=None, name="self", on_follow=None, max_depth=4):
        super().__init__(name, attrs, methods)
        self.index, self.cls = index, cls
        self.on_follow = on_follow
        self.max_depth = max_depth
        self.memo: Dict[str, Any] = {}

    def _resolve(self, attr, after=None):
        mro = self.index.mro(self.cls)
        if after is not None:
            keys = [c.key for c in mro]
            if after.key in keys:
                mro = mro[keys.index(after.key) + 1:]
        for c in mro:
            if c is None:
                continue
            f = c.methods.get(attr)
            if f is not None:
                return f
        return None

    def m_getattr(self, attr, mini, node):
        if attr in self.attrs:
            return self.attrs[attr]
        if attr in self.methods:
            return BoundStub(self, attr)
        f = self._resolve(attr)
        if f is None:
            raise Unsupported(f"{mini.what}: `self.{attr}` has no model value")
        decos = {_last(d) for d in f.decorators}
        if decos & PROPERTY_DECOS:
            if attr in self.memo:
                return self.memo[attr]
            v = mini.run_function(f, [self], {}, selfobj=self)
            if any(d.startswith("memoized") or d.startswith("ro_memoized") or d == "cached_property" for d in decos):
                self.memo[attr] = v
            return v
        return BoundMethod(self, f)

    def m_call(self, attr, args, kwargs, mini, node, after=None):
        if attr in self.methods and after is None:
            return self.methods[attr](*args, **kwargs)
        f = self._resolve(attr, after)
        if f is None:
            raise Unsupported(f"{mini.what}: method `self.{attr}()` not resolvable")
        return mini.call_method(self, f, args, kwargs)


class Mini2(Mini):
    """hooks (all optional): call_hook(call, env, mini), attr_hook(attr_node, env, mini),
    name_hook(name, mini) -> value | NotImplemented (free names: modules, module level functions),
    func_resolver(name) -> FuncInfo | None (module level helpers that are followed)."""

    def __init__(self, call_hook=None, attr_hook=None, name_hook=None, func_resolver=None, what="extracted code",
                 max_depth=4):
        super().__init__(call_hook=call_hook, attr_hook=attr_hook, what=what)
        self.name_hook = name_hook
        self.func_resolver = func_resolver
        self.frames: List[Any] = []
        self.try_depth = 0
        self.max_depth = max_depth
        self.followed: List[Any] = []

    # ------------------------------------------------------------------ following
    def call_method(self, selfobj, fn, args, kwargs):
        decos = {_last(d) for d in fn.decorators}
        unknown = decos - TRANSPARENT_DECOS - MEMO_IGNORES_ARGS - PROPERTY_DECOS
        if unknown:
            raise Unsupported(f"{self.what}: followed `{fn.key}` is decorated {sorted(unknown)}")
        if selfobj is not None and getattr(selfobj, "on_follow", None) is not None:
            selfobj.on_follow(fn, args, kwargs)
        if decos & MEMO_IGNORES_ARGS and selfobj is not None:
            # util.memoized_instancemethod: the first result replaces the method on the instance, whatever the
            # arguments of later calls
            k = "memo:" + fn.name
            if k in selfobj.memo:
                return selfobj.memo[k]
            v = self.run_function(fn, ([selfobj] if "staticmethod" not in decos else []) + list(args), kwargs, selfobj)
            selfobj.memo[k] = v
            return v
        first = [] if "staticmethod" in decos or selfobj is None else [selfobj]
        return self.run_function(fn, first + list(args), kwargs, selfobj)

    def run_top(self, fn, args, kwargs=None, selfobj=None):
        """run_function for the outermost call: a `raise` reached in the model is an unknown idiom."""
        try:
            return self.run_function(fn, args, kwargs or {}, selfobj)
        except _Raise as r:
            raise Unsupported(f"{self.what}: the model run ends in `{unparse(r.node)[:80]}`")
        except RecursionError:
            raise Unsupported(f"{self.what}: recursion in the model run")

    def run_function(self, fn, args, kwargs, selfobj=None):
        """Bind `args/kwargs` to the parameters of `fn` (FuncInfo) and run its body in this model."""
        if len(self.frames) >= self.max_depth:
            raise Unsupported(f"{self.what}: helper nesting deeper than {self.max_depth} at `{fn.key}`")
        a = fn.node.args
        pos = [x.arg for x in a.posonlyargs + a.args]
        env: Dict[str, Any] = {}
        args = list(args)
        if len(args) > len(pos):
            if a.vararg is None:
                raise Unsupported(f"{self.what}: too many arguments for `{fn.key}`")
            env[a.vararg.arg] = tuple(args[len(pos):])
            args = args[:len(pos)]
        elif a.vararg is not None:
            env[a.vararg.arg] = ()
        for p, v in zip(pos, args):
            env[p] = v
        extra = {}
        names = set(pos) | {x.arg for x in a.kwonlyargs}
        for k, v in kwargs.items():
            if k in names:
                if k in env:
                    raise Unsupported(f"{self.what}: `{k}` passed twice to `{fn.key}`")
                env[k] = v
            else:
                extra[k] = v
        if a.kwarg is not None:
            env[a.kwarg.arg] = extra
        elif extra:
            raise Unsupported(f"{self.what}: unexpected keyword(s) {sorted(extra)} for `{fn.key}`")
        defaults = func_defaults(fn.node)
        for p in list(pos) + [x.arg for x in a.kwonlyargs]:
            if p not in env:
                if p not in defaults:
                    raise Unsupported(f"{self.what}: parameter `{p}` of `{fn.key}` is not bound")
                env[p] = self.ev(defaults[p], {})
        self.frames.append((fn, selfobj))
        self.followed.append(fn)
        try:
            kind, val, node = self.run(fn.node.body, env)
        finally:
            self.frames.pop()
        if kind == "raise":
            raise _Raise(node)
        return val if kind == "return" else None

    # ------------------------------------------------------------------ expressions
    def _comp(self, n, env, gens, emit):
        if not gens:
            emit(env)
            return
        g = gens[0]
        if g.is_async:
            raise Unsupported(f"{self.what}: async comprehension")
        it = self.ev(g.iter, env)
        if isinstance(it, dict):
            it = list(it)
        if not isinstance(it, (list, tuple, str, set, frozenset)):
            raise Unsupported(f"{self.what}: comprehension over `{unparse(g.iter)}`")
        for v in it:
            e2 = dict(env)
            self._assign(g.target, v, e2, n)
            if all(self.ev(c, e2) for c in g.ifs):
                self._comp(n, e2, gens[1:], emit)

    def ev(self, n, env):
        if isinstance(n, ast.Name) and n.id not in env and n.id not in ("True", "False", "None"):
            if self.name_hook is not None:
                r = self.name_hook(n.id, self)
                if r is not NotImplemented:
                    return r
            if self.func_resolver is not None:
                f = self.func_resolver(n.id)
                if f is not None:
                    return BoundMethod(None, f)
            raise Unsupported(f"{self.what}: free name `{n.id}`")
        if isinstance(n, (ast.ListComp, ast.GeneratorExp, ast.SetComp)):
            out: List[Any] = []
            self._comp(n, env, n.generators, lambda e: out.append(self.ev(n.elt, e)))
            return set(out) if isinstance(n, ast.SetComp) else out
        if isinstance(n, ast.DictComp):
            d: Dict[Any, Any] = {}

            def put(e):
                d[self.ev(n.key, e)] = self.ev(n.value, e)
            self._comp(n, env, n.generators, put)
            return d
        if isinstance(n, ast.Dict):
            d = {}
            for k, v in zip(n.keys, n.values):
                if k is None:
                    x = self.ev(v, env)
                    if not isinstance(x, dict):
                        raise Unsupported(f"{self.what}: `**{unparse(v)}` in a dict display")
                    d.update(x)
                else:
                    d[self.ev(k, env)] = self.ev(v, env)
            return d
        if isinstance(n, ast.UnaryOp) and isinstance(n.op, ast.Invert):
            v = self.ev(n.operand, env)
            if hasattr(v, "m_invert"):
                return v.m_invert()
            raise Unsupported(f"{self.what}: `~` on `{unparse(n.operand)}`")
        if isinstance(n, ast.BinOp):
            # model terms may define their own `+` / `%`
            a = self.ev(n.left, env)
            b = self.ev(n.right, env)
            try:
                if isinstance(n.op, ast.Add):
                    return a + b
                if isinstance(n.op, ast.Mod) and isinstance(a, str):
                    return a % b
                if isinstance(n.op, ast.Mult):
                    return a * b
                if isinstance(n.op, ast.Sub):
                    return a - b
                if isinstance(n.op, ast.FloorDiv):
                    return a // b
                if isinstance(n.op, ast.BitOr) and isinstance(a, (set, frozenset, int)):
                    return a | b
            except Exception as e:
                raise Unsupported(f"{self.what}: `{unparse(n)}` failed in the model: {e}")
            raise Unsupported(f"{self.what}: operator in `{unparse(n)}`")
        if isinstance(n, ast.Attribute):
            d = dotted(n)
            if d in _RE_FLAGS and "re" not in env:
                return _RE_FLAGS[d]
            if self.attr_hook is not None:
                r = self.attr_hook(n, env, self)
                if r is not NotImplemented:
                    return r
            base = self.ev(n.value, env)
            if isinstance(base, ModelObj):
                return base.m_getattr(n.attr, self, n)
            if isinstance(base, ModelStr) and n.attr in vars(base):
                return vars(base)[n.attr]
            if isinstance(base, re.Pattern) and n.attr == "pattern":
                return base.pattern
            raise Unsupported(f"{self.what}: attribute `{unparse(n)}`")
        if isinstance(n, ast.Starred):
            raise Unsupported(f"{self.what}: starred expression `{unparse(n)}`")
        if isinstance(n, ast.Subscript) and not isinstance(n.slice, ast.Slice) and self.try_depth:
            # inside `try:` a failed lookup is a python exception of the model, not an unknown idiom
            box = self.ev(n.value, env)
            k = self.ev(n.slice, env)
            if isinstance(box, (dict, list, tuple, str)):
                try:
                    return box[k]
                except (KeyError, IndexError) as e:
                    raise _PyExc(type(e).__name__)
                except TypeError as e:
                    raise Unsupported(f"{self.what}: subscript `{unparse(n)}` failed in the model: {e!r}")
            raise Unsupported(f"{self.what}: subscript `{unparse(n)}`")
        return super().ev(n, env)

    def _args(self, n: ast.Call, env):
        args = []
        for a in n.args:
            if isinstance(a, ast.Starred):
                v = self.ev(a.value, env)
                if not isinstance(v, (list, tuple)):
                    raise Unsupported(f"{self.what}: `*{unparse(a.value)}`")
                args.extend(v)
            else:
                args.append(self.ev(a, env))
        kwargs = {}
        for k in n.keywords:
            if k.arg is None:
                v = self.ev(k.value, env)
                if not isinstance(v, dict):
                    raise Unsupported(f"{self.what}: `**{unparse(k.value)}` is not a model dict")
                kwargs.update(v)
            else:
                kwargs[k.arg] = self.ev(k.value, env)
        return args, kwargs

    def _call_value(self, fv, n, env):
        """call of an already evaluated callee value."""
        if isinstance(fv, BoundStub):
            args, kwargs = self._args(n, env)
            return fv.obj.m_call(fv.attr, args, kwargs, self, n)
        if isinstance(fv, BoundMethod):
            args, kwargs = self._args(n, env)
            return self.call_method(fv.selfobj, fv.fn, args, kwargs)
        if callable(fv) and getattr(fv, "m_model_callable", False):
            args, kwargs = self._args(n, env)
            return fv(*args, **kwargs)
        return NotImplemented

    def _call(self, n: ast.Call, env):
        if self.call_hook is not None:
            r = self.call_hook(n, env, self)
            if r is not NotImplemented:
                return r
        f = n.func
        d = dotted(f)
        if d in _RE_FUNCS and "re" not in env:
            args, kwargs = self._args(n, env)
            if not all(isinstance(x, (str, int, re.Pattern)) for x in list(args) + list(kwargs.values())):
                raise Unsupported(f"{self.what}: `{unparse(n)[:80]}`: argument without a string model value")
            try:
                return _RE_FUNCS[d](*args, **kwargs)
            except re.error as e:
                raise Unsupported(f"{self.what}: `{unparse(n)[:80]}` is not a regular expression in the model: {e}")
        if isinstance(f, ast.Attribute):
            # super().m(..)
            if isinstance(f.value, ast.Call) and isinstance(f.value.func, ast.Name) and f.value.func.id == "super" \
                    and not f.value.args and self.frames and self.frames[-1][1] is not None:
                fn, selfobj = self.frames[-1]
                args, kwargs = self._args(n, env)
                return selfobj.m_call(f.attr, args, kwargs, self, n, after=fn.cls)
            recv = self.ev(f.value, env)
            if isinstance(recv, ModelObj):
                args, kwargs = self._args(n, env)
                return recv.m_call(f.attr, args, kwargs, self, n)
            if hasattr(recv, "m_method"):
                args, kwargs = self._args(n, env)
                return recv.m_method(f.attr, args, kwargs, self, n)
            for ty, meths in _CONTAINER_METHODS.items():
                if isinstance(recv, ty) and f.attr in meths:
                    args, kwargs = self._args(n, env)
                    try:
                        return getattr(recv, f.attr)(*args, **kwargs)
                    except Exception as e:
                        raise Unsupported(f"{self.what}: `{unparse(n)[:80]}` failed in the model: {e!r}")
            if isinstance(recv, re.Pattern) and f.attr in ("findall", "finditer", "match", "search", "fullmatch", "sub",
                                                            "split"):
                args, kwargs = self._args(n, env)
                if not all(isinstance(x, (str, int)) for x in args):
                    raise Unsupported(f"{self.what}: `{unparse(n)[:80]}`: non-string argument in the model")
                r = getattr(recv, f.attr)(*args, **kwargs)
                return list(r) if f.attr == "finditer" else r
            if isinstance(recv, re.Match) and f.attr in ("group", "groups", "start", "end"):
                args, kwargs = self._args(n, env)
                return getattr(recv, f.attr)(*args, **kwargs)
            if isinstance(recv, str) and f.attr in _STR_METHODS2 and not n.keywords:
                args, _ = self._args(n, env)
                try:
                    return getattr(str, f.attr)(recv, *args)
                except Exception as e:
                    raise Unsupported(f"{self.what}: `{unparse(n)[:80]}` failed in the model: {e!r}")
            raise Unsupported(f"{self.what}: call `{unparse(n)[:100]}`")
        if isinstance(f, ast.Name):
            if f.id in env:
                r = self._call_value(env[f.id], n, env)
                if r is not NotImplemented:
                    return r
                raise Unsupported(f"{self.what}: call of local `{f.id}`")
            if f.id == "getattr" and len(n.args) in (2, 3) and not n.keywords:
                obj = self.ev(n.args[0], env)
                name = self.ev(n.args[1], env)
                if not isinstance(name, str):
                    raise Unsupported(f"{self.what}: `{unparse(n)}`")
                absent = object()
                val = absent
                if isinstance(obj, ModelObj):
                    try:
                        val = obj.m_getattr(name, self, n)
                    except Unsupported:
                        val = absent
                elif isinstance(obj, ModelStr):
                    val = vars(obj).get(name, absent)
                if val is absent and not isinstance(obj, ModelObj):
                    if not isinstance(obj, (str, int, type(None), tuple)) or hasattr(type(obj), name):
                        raise Unsupported(f"{self.what}: `{unparse(n)}`")
                if val is absent:
                    if len(n.args) == 3:
                        return self.ev(n.args[2], env)
                    raise Unsupported(f"{self.what}: `{unparse(n)}`: attribute absent in the model")
                return val
            if f.id == "dict" and n.keywords:
                args, kwargs = self._args(n, env)
                try:
                    return dict(*args, **kwargs)
                except Exception as e:
                    raise Unsupported(f"{self.what}: `{unparse(n)[:80]}` failed in the model: {e!r}")
            if f.id in ("list", "tuple", "set", "frozenset", "sorted", "reversed", "dict", "any", "all", "enumerate",
                        "zip", "sum") and not n.keywords:
                args, _ = self._args(n, env)
                fnc = {"list": list, "tuple": tuple, "set": set, "frozenset": frozenset, "sorted": sorted,
                       "reversed": lambda x: list(reversed(x)), "dict": dict, "any": any, "all": all,
                       "enumerate": lambda *a: list(enumerate(*a)), "zip": lambda *a: list(zip(*a)), "sum": sum}[f.id]
                try:
                    return fnc(*args)
                except Exception as e:
                    raise Unsupported(f"{self.what}: `{unparse(n)[:80]}` failed in the model: {e!r}")
            if f.id == "isinstance" and len(n.args) == 2:
                v = self.ev(n.args[0], env)
                if isinstance(v, ModelObj) or hasattr(v, "m_isinstance"):
                    t = n.args[1]
                    names = [dotted(e) or unparse(e) for e in (t.elts if isinstance(t, ast.Tuple) else [t])]
                    if hasattr(v, "m_isinstance"):
                        return v.m_isinstance(names)
                    raise Unsupported(f"{self.what}: isinstance of a model object `{unparse(n)}`")
            if f.id not in ("isinstance", "len", "str", "int", "max", "min", "bool", "hex", "abs", "repr"):
                fv = self.ev(f, env)  # name_hook / func_resolver
                r = self._call_value(fv, n, env)
                if r is not NotImplemented:
                    return r
                raise Unsupported(f"{self.what}: call `{unparse(n)[:100]}`")
        hook, self.call_hook = self.call_hook, None
        try:
            return Mini._call(self, n, env)
        finally:
            self.call_hook = hook

    # ------------------------------------------------------------------ statements
    def _assign(self, target, value, env, st):
        if isinstance(target, ast.Subscript):
            box = self.ev(target.value, env)
            if isinstance(box, (dict, list)) and not isinstance(target.slice, ast.Slice):
                try:
                    box[self.ev(target.slice, env)] = value
                except Exception as e:
                    raise Unsupported(f"{self.what}: store `{unparse(st)[:80]}` failed in the model: {e!r}")
                return
            raise Unsupported(f"{self.what}: store `{unparse(st)[:80]}`")
        if isinstance(target, ast.Attribute):
            base = self.ev(target.value, env)
            if isinstance(base, ModelObj):
                base.m_setattr(target.attr, value, self, st)
                return
            raise Unsupported(f"{self.what}: store `{unparse(st)[:80]}`")
        super()._assign(target, value, env, st)

    def _stmt(self, st, env):
        if isinstance(st, ast.Expr) and isinstance(st.value, ast.Call):
            f = st.value.func
            if isinstance(f, ast.Attribute):
                try:
                    recv = self.ev(f.value, env)
                except Unsupported:
                    return  # logging / warning on something outside the model
                if isinstance(recv, (list, dict, set)) or (isinstance(recv, ModelObj) and (
                        f.attr in recv.methods or isinstance(recv, ModelSelf))):
                    self._call(st.value, env)
                return
            return
        if isinstance(st, ast.AugAssign) and isinstance(st.target, ast.Name):
            cur = self.ev(st.target, env)
            rhs = self.ev(st.value, env)
            try:
                if isinstance(st.op, ast.Add):
                    if isinstance(cur, list):
                        cur.extend(rhs)
                        return
                    env[st.target.id] = cur + rhs
                    return
                if isinstance(st.op, ast.Mod) and isinstance(cur, str):
                    env[st.target.id] = cur % rhs
                    return
            except Exception as e:
                raise Unsupported(f"{self.what}: `{unparse(st)[:80]}` failed in the model: {e!r}")
            raise Unsupported(f"{self.what}: statement `{unparse(st)[:80]}`")
        if isinstance(st, ast.If):
            self._block(st.body if self.ev(st.test, env) else st.orelse, env)
            return
        if isinstance(st, ast.For) and not st.orelse:
            it = self.ev(st.iter, env)
            if isinstance(it, (dict, set, frozenset)):
                it = list(it)
            if not isinstance(it, (tuple, list, str)):
                raise Unsupported(f"{self.what}: loop over `{unparse(st.iter)}`")
            for v in it:
                self._assign(st.target, v, env, st)
                try:
                    self._block(st.body, env)
                except _Continue:
                    continue
                except _Break:
                    break
            return
        if isinstance(st, ast.Try) and not st.finalbody:
            self.try_depth += 1
            try:
                try:
                    self._block(st.body, env)
                finally:
                    self.try_depth -= 1
            except _PyExc as e:
                for h in st.handlers:
                    names = [] if h.type is None else [dotted(x) or "?" for x in (
                        h.type.elts if isinstance(h.type, ast.Tuple) else [h.type])]
                    if h.type is None or any(nm in _EXC_PARENTS.get(e.name, ()) for nm in names):
                        if h.name:
                            env[h.name] = e
                        self._block(h.body, env)
                        return
                raise Unsupported(f"{self.what}: {e.name} escapes `try` in the model")
            self._block(st.orelse, env)
            return
        if isinstance(st, ast.Continue):
            raise _Continue()
        if isinstance(st, ast.Break):
            raise _Break()
        super()._stmt(st, env)


class _PyExc(Exception):
    """a python exception raised by a lookup of the model inside `try:`"""

    def __init__(self, name):
        self.name = name


_EXC_PARENTS = {"KeyError": ("KeyError", "LookupError", "Exception", "BaseException"),
                "IndexError": ("IndexError", "LookupError", "Exception", "BaseException")}


class _Continue(Exception):
    pass


class _Break(Exception):
    pass


def model_callable(fn):
    fn.m_model_callable = True
    return fn


# ------------------------------------------------------------------------------------------ small AST helpers
def single_assignments(fn_node) -> Dict[str, ast.expr]:
    """locals bound exactly once by a plain `name = <expr>` (no loop target, no augmented assignment)."""
    seen: Dict[str, List[Any]] = {}
    for nm, v, st in name_stores(fn_node):
        seen.setdefault(nm, []).append((v, st))
    out = {}
    for nm, binds in seen.items():
        if len(binds) == 1 and binds[0][0] is not None and isinstance(binds[0][1], (ast.Assign, ast.AnnAssign)):
            st = binds[0][1]
            tgt = st.targets[0] if isinstance(st, ast.Assign) else st.target
            if isinstance(tgt, ast.Name):
                out[nm] = binds[0][0]
    return out


def resolve_alias(node, singles: Dict[str, ast.expr], params=(), depth=0):
    """Replace single-assignment local names inside `node` by their defining expressions (copy)."""
    if depth > 6:
        return node

    class T(ast.NodeTransformer):
        def visit_Name(self, n):
            if isinstance(n.ctx, ast.Load) and n.id in singles and n.id not in params:
                return resolve_alias(singles[n.id], singles, params, depth + 1)
            return n
    import copy
    return T().visit(copy.deepcopy(node))
