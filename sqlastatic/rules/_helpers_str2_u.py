"""Helpers of the str2-u strengthening pass (C50, round-2 seeds).

Everything here works on `ast` only -- nothing imports or runs SQLAlchemy.

`ProxyExec` executes the methods of an association-proxy collection class (`_AssociationSet`, `_AssociationList`,
`_AssociationDict`) from their own source, on a *model* of the things the class is built on:

* `self.col`      the underlying relationship collection -- a model set / list / dict of intermediary objects with Python's
                  semantics for the operations a collection offers (including "changed size during iteration");
* `self.creator`  builds an intermediary object that carries the proxied value, `self.getter` reads it, `self.setter`
                  replaces it (the documented contract `getter(creator(v)) == v`);
* everything else -- `add`, `remove`, `__contains__`, `__iter__`, helpers, inherited methods -- is *interpreted*: the
  method is looked up through the static MRO and its statements are run by the concrete interpreter `Conc` of
  `_helpers_str2_e` (imported read-only), extended here by try/except, raise with a type, generators (run eagerly), bound
  methods, the full method set of builtin containers and `isinstance`.

A rule then compares, input by input, what the proxy holds afterwards with what the builtin collection of the same values
holds after the same call.  The verdict does not depend on how a method is written (loop, set algebra, helper, delegation).
Anything outside the interpreted subset raises `Unsupported` (-> ANALYSIS-ERROR / exit 2), never a guess.
"""

from __future__ import annotations

import ast
import builtins
from typing import Dict, List, Optional

from ..astutil import unparse, walk_local
from ._helpers_str2_e import BoundModelMethod, Conc, ModelRaise, Obj, Unsupported, _Break, _Continue, _Return

__all__ = ["ProxyExec", "Unsupported", "ModelRaise", "Member", "etype_of"]


class Member(Obj):
    """an intermediary (association) object: carries the proxied value, for dict proxies also the key"""

    def __init__(self, value, key=None, made_by="creator"):
        super().__init__("member")
        self.value = value
        self.key = key
        self.made_by = made_by

    def __repr__(self):
        return f"<member {self.value!r}>"


def etype_of(ex: ModelRaise) -> str:
    """builtin exception type name carried by a ModelRaise ('KeyError', 'IndexError', ...)"""
    t = getattr(ex, "etype", None)
    if t:
        return t
    w = ex.what
    for n in ("KeyError", "IndexError", "ValueError", "TypeError", "RuntimeError", "ZeroDivisionError", "NotImplementedError",
              "StopIteration", "AttributeError"):
        if w.startswith(n) or f"raise {n}" in w:
            return n
    return "Exception"


def _raise(etype: str, text: str = ""):
    ex = ModelRaise(f"{etype}: {text}" if text else etype)
    ex.etype = etype
    return ex


class _Sentinel:
    def __init__(self, name):
        self.name = name

    def __repr__(self):
        return self.name


NOT_IMPLEMENTED = _Sentinel("NotImplemented")
_EXC_NAMES = {n for n in dir(builtins) if isinstance(getattr(builtins, n), type) and issubclass(getattr(builtins, n), BaseException)}
_TYPES = {"slice": slice, "int": int, "list": list, "set": set, "frozenset": frozenset, "dict": dict, "tuple": tuple, "str": str}


class ProxyExec(Conc):
    def __init__(self, ctx, cls, kind: str, initial, budget: int = 60000):
        """kind: 'set' | 'list' | 'dict'; initial: iterable of values (set/list) or of (key, value) pairs (dict)"""
        g = {"NotImplemented": NOT_IMPLEMENTED, "isinstance": isinstance, "iter": iter, "slice": slice, "str": str, "type": type,
             "any": any, "all": all}
        super().__init__(g, budget=budget)
        self.ctx, self.cls, self.kind = ctx, cls, kind
        self.depth = 0
        self.created: List[Member] = []
        self.proxy = Obj("proxy")
        self.colobj = Obj("col")
        if kind == "dict":
            self.members = {k: Member(v, k, "initial") for k, v in initial}
        else:
            self.members = [Member(v, None, "initial") for v in initial]
        self.proxy.attrs.update(col=self.colobj, creator=self._creator, getter=self._getter, setter=self._setter)
        self.collections_mod = Obj("collections", _set_binops_check_strict=self._binop_ok, _set_binops_check_loose=self._binop_ok)
        self.globals["collections"] = self.collections_mod

    # ------------------------------------------------------------------ the contract of creator / getter / setter
    def _creator(self, *a):
        if self.kind == "dict":
            if len(a) != 2:
                raise Unsupported("dict proxy creator takes (key, value)")
            m = Member(a[1], a[0])
        else:
            if len(a) != 1:
                raise Unsupported("creator takes one value")
            m = Member(a[0])
        self.created.append(m)
        return m

    def _getter(self, m):
        if m is None:
            return None         # (AssociationProxy._default_getset: `_getter(instance) if instance is not None else None`)
        if not isinstance(m, Member):
            # (an attrgetter applied to something that is not an intermediary object)
            raise _raise("AttributeError", f"getter applied to {m!r}, which is not an intermediary object")
        return m.value

    def _setter(self, m, *a):
        if not isinstance(m, Member):
            raise _raise("AttributeError", f"setter applied to {m!r}, which is not an intermediary object")
        if self.kind == "dict":
            if len(a) != 2:
                raise Unsupported("dict proxy setter takes (object, key, value)")
            m.value = a[1]
        else:
            if len(a) != 1:
                raise Unsupported("setter takes (object, value)")
            m.value = a[0]

    def _binop_ok(self, me, other):
        # orm.collections._set_binops_check_strict: operators accept sets (and the proxy's own class) only -- like the builtin
        return isinstance(other, (set, frozenset)) or other is self.proxy

    # ------------------------------------------------------------------ observations
    def values(self):
        """proxied values the collection holds now (list: in order; set: as a list, duplicates visible; dict: {key: value})"""
        if self.kind == "dict":
            return {k: m.value for k, m in self.members.items()}
        return [m.value for m in self.members]

    def raw_members(self):
        ms = list(self.members.values()) if self.kind == "dict" else list(self.members)
        return [m for m in ms if not isinstance(m, Member)]

    # ------------------------------------------------------------------ method lookup / calls
    def method(self, name) -> Optional[ast.AST]:
        f = self.ctx.index.resolve_method(self.cls, name)
        if f is None or f.type_only:
            return None
        self.ctx.functions_analysed.add(f.key)
        return f.node

    def bind_call(self, fnode, args: list, kwargs: dict) -> dict:
        a = fnode.args
        params = [p.arg for p in a.posonlyargs + a.args]
        env: Dict[str, object] = {}
        args = list(args)
        kwargs = dict(kwargs)
        ndef = len(a.defaults)
        for i, pn in enumerate(params):
            if i < len(args):
                env[pn] = args[i]
            elif pn in kwargs and i >= len(a.posonlyargs):
                env[pn] = kwargs.pop(pn)
            elif i >= len(params) - ndef:
                env[pn] = self.ev(a.defaults[i - (len(params) - ndef)], {})
            else:
                raise _raise("TypeError", f"{fnode.name}() missing argument `{pn}`")
        extra = args[len(params):]
        if a.vararg:
            env[a.vararg.arg] = tuple(extra)
        elif extra:
            raise _raise("TypeError", f"{fnode.name}() takes {len(params)} positional arguments")
        for p, d in zip(a.kwonlyargs, a.kw_defaults):
            if p.arg in kwargs:
                env[p.arg] = kwargs.pop(p.arg)
            elif d is not None:
                env[p.arg] = self.ev(d, {})
            else:
                raise _raise("TypeError", f"{fnode.name}() missing keyword argument `{p.arg}`")
        if a.kwarg:
            env[a.kwarg.arg] = kwargs
        elif kwargs:
            raise _raise("TypeError", f"{fnode.name}() got unexpected keyword arguments {sorted(kwargs)}")
        return env

    def run_function(self, fnode, args, kwargs):
        decos = {unparse(d).split(".")[-1].split("(")[0] for d in fnode.decorator_list}
        if decos - {"overload", "override", "final", "no_type_check"}:
            raise Unsupported(f"decorated function {fnode.name} ({sorted(decos)})")
        self.depth += 1
        try:
            if self.depth > 12:
                raise Unsupported("call depth (recursion on the model?)")
            env = self.bind_call(fnode, args, kwargs)
            if any(isinstance(n, (ast.Yield, ast.YieldFrom)) for n in walk_local(fnode)):
                saved, self.yielded = self.yielded, []
                try:
                    self.call(fnode, env)
                    return list(self.yielded)
                finally:
                    self.yielded = saved
            return self.call(fnode, env)
        finally:
            self.depth -= 1

    def call_proxy(self, name, args=(), kwargs=None):
        fn = self.method(name)
        if fn is None:
            raise Unsupported(f"`{name}` is not a method defined in the class hierarchy of {self.cls.name} inside the package")
        return self.run_function(fn, [self.proxy] + list(args), kwargs or {})

    def missing_attr(self, obj, attr):
        if obj is self.proxy:
            if attr == "__class__":
                return self.cls
            if self.method(attr) is not None:
                return BoundModelMethod(obj, attr)
        if obj is self.colobj:
            return BoundModelMethod(obj, attr)
        raise Unsupported(f"attribute `{attr}` of model object {obj!r}")

    def call_method(self, obj, name, args, kwargs):
        if obj is self.proxy:
            return self.call_proxy(name, args, kwargs)
        if obj is self.colobj:
            if kwargs:
                raise Unsupported(f"keyword arguments in a call of col.{name}()")
            return self.col_op(name, list(args))
        raise Unsupported(f"call of `{obj!r}.{name}()`")

    def call_function(self, name, args, kwargs):
        if name == "super":
            raise Unsupported("super()")
        tgt = self.ctx.index.resolve(self.cls.module, name)
        node = getattr(tgt, "node", None)
        if isinstance(node, (ast.FunctionDef,)) and getattr(tgt, "cls", None) is None:
            self.ctx.functions_analysed.add(tgt.key)
            return self.run_function(node, args, kwargs)
        raise Unsupported(f"call of `{name}()`")

    # ------------------------------------------------------------------ the underlying collection
    def _idx(self, m):
        for i, x in enumerate(self.members):
            if x is m:
                return i
        return -1

    def col_op(self, name, args):
        k, ms = self.kind, self.members
        try:
            if k == "set":
                if name == "add" and len(args) == 1:
                    if self._idx(args[0]) < 0:
                        ms.append(args[0])
                    return None
                if name in ("discard", "remove") and len(args) == 1:
                    i = self._idx(args[0])
                    if i < 0:
                        if name == "remove":
                            raise _raise("KeyError")
                        return None
                    del ms[i]
                    return None
                if name == "pop" and not args:
                    if not ms:
                        raise _raise("KeyError", "pop from an empty set")
                    return ms.pop(0)
                if name == "clear" and not args:
                    del ms[:]
                    return None
                if name == "update":
                    for it in args:
                        for m in self._iter(it):
                            if self._idx(m) < 0:
                                ms.append(m)
                    return None
                if name == "difference_update":
                    for it in args:
                        for m in self._iter(it):
                            i = self._idx(m)
                            if i >= 0:
                                del ms[i]
                    return None
                if name == "copy" and not args:
                    return list(ms)
            elif k == "list":
                if name in ("append", "insert", "pop", "remove", "clear", "extend", "reverse", "index", "count", "copy",
                            "__getitem__", "__setitem__", "__delitem__", "__len__"):
                    if name == "extend" and len(args) == 1:
                        args = [self._iter(args[0])]
                    if name in ("remove", "index", "count"):
                        # identity semantics of intermediary objects
                        i = self._idx(args[0]) if args else -1
                        if name == "count":
                            return sum(1 for x in ms if x is args[0])
                        if i < 0:
                            raise _raise("ValueError")
                        if name == "index":
                            return i
                        del ms[i]
                        return None
                    r = getattr(ms, name)(*args)
                    return list(r) if name == "copy" else r
            elif k == "dict":
                if name in ("get", "pop", "popitem", "clear", "setdefault", "__getitem__", "__setitem__", "__delitem__",
                            "__contains__", "__len__"):
                    return getattr(ms, name)(*args)
                if name == "keys" and not args:
                    return self.live_iter(lambda: list(ms.keys()))
                if name == "values" and not args:
                    return self.live_iter(lambda: list(ms.values()))
                if name == "items" and not args:
                    return self.live_iter(lambda: list(ms.items()))
                if name == "update":
                    up = {}
                    up.update(*[dict(self._iter(a)) if not isinstance(a, dict) else a for a in args])
                    ms.update(up)
                    return None
                if name == "copy" and not args:
                    return dict(ms)
        except ModelRaise:
            raise
        except (KeyError, IndexError, ValueError, TypeError) as ex:
            raise _raise(type(ex).__name__, f"col.{name}")
        raise Unsupported(f"operation `col.{name}({len(args)} argument(s))` of the underlying {k}")

    def live_iter(self, snapshot):
        """iteration over the underlying collection with Python's rules: a set / dict that changes size while it is iterated
        raises RuntimeError at the next step; a list is simply walked by index"""
        kind = self.kind

        def gen():
            if kind == "list":
                i = 0
                while i < len(self.members):
                    yield self.members[i]
                    i += 1
                return
            n = len(self.members)
            for x in snapshot():
                if len(self.members) != n:
                    raise _raise("RuntimeError", f"{kind} changed size during iteration")
                yield x
        return gen()

    # ------------------------------------------------------------------ Conc extensions
    def _iter(self, v, e=None):
        if v is self.colobj:
            return self.live_iter(lambda: list(self.members))
        if v is self.proxy:
            if self.method("__iter__") is None:
                raise Unsupported("iteration over the proxy: no __iter__ in the package")
            out = self.call_proxy("__iter__")
            if not isinstance(out, list):
                out = list(self._iter(out, e))
            if self.kind == "list":
                return out
            n = len(self.members)
            kind = self.kind

            def gen():
                for x in out:
                    if len(self.members) != n:
                        raise _raise("RuntimeError", f"{kind} changed size during iteration")
                    yield x
            return gen()
        if type(v).__name__ == "generator":
            return v
        if isinstance(v, (slice,)):
            raise _raise("TypeError", "slice is not iterable")
        if isinstance(v, int):
            raise _raise("TypeError", "int is not iterable")
        return super()._iter(v, e)

    def truth(self, v):
        if v is self.proxy:
            if self.method("__bool__") is not None:
                return self.truth(self.call_proxy("__bool__"))
            if self.method("__len__") is not None:
                return self.call_proxy("__len__") != 0
            return True
        if v is self.colobj:
            return bool(self.members)
        if v is NOT_IMPLEMENTED:
            return True
        if type(v).__name__ == "generator":
            return True
        return super().truth(v)

    def getattr(self, base, attr, e=None):
        if isinstance(base, (set, frozenset, list, dict, tuple, str, range)) and not attr.startswith("_") and hasattr(base, attr):
            return getattr(base, attr)
        if isinstance(base, slice) and attr in ("start", "stop", "step", "indices"):
            return getattr(base, attr)
        return super().getattr(base, attr, e)

    def _cmp(self, op, a, b, e):
        if isinstance(op, (ast.In, ast.NotIn)):
            if b is self.proxy:
                if self.method("__contains__") is not None:
                    r = self.truth(self.call_proxy("__contains__", [a]))
                else:
                    r = any(x is a or x == a for x in self._iter(b, e))
                return r == isinstance(op, ast.In)
            if b is self.colobj:
                if self.kind == "dict":
                    r = self._key(a) in self.members
                else:
                    r = self._idx(a) >= 0
                return r == isinstance(op, ast.In)
        if isinstance(op, (ast.Eq, ast.NotEq)) and (a is self.proxy or b is self.proxy):
            raise Unsupported(f"comparison of the proxy itself in `{unparse(e)[:50]}`")
        return super()._cmp(op, a, b, e)

    def _concrete(self, v):
        if v is self.proxy:
            vals = list(self._iter(v))
            return vals
        if v is self.colobj:
            return dict(self.members) if self.kind == "dict" else list(self.members)
        if type(v).__name__ == "generator":
            return list(v)
        return v

    def _apply(self, fn, args, kwargs, e):
        if fn is isinstance and len(args) == 2 and not kwargs:
            v, t = args
            ts = t if isinstance(t, tuple) else (t,)
            if all(isinstance(x, type) for x in ts):
                if isinstance(v, Obj):
                    return False
                return isinstance(v, ts)
            raise Unsupported(f"`{unparse(e)[:50]}`")
        if fn is iter and len(args) == 1 and not kwargs:
            return list(self._iter(args[0], e))
        if fn is len and len(args) == 1:
            if args[0] is self.proxy:
                if self.method("__len__") is None:
                    raise Unsupported("len() of the proxy: no __len__ in the package")
                return self.call_proxy("__len__")
            if args[0] is self.colobj:
                return len(self.members)
        if fn is type:
            raise Unsupported(f"`{unparse(e)[:50]}`")
        if fn is str and len(args) == 1:
            return "<text>"
        if fn is bool and len(args) == 1 and not kwargs:
            return self.truth(args[0])
        self_type = getattr(fn, "__self__", None)
        if fn in (list, tuple, set, frozenset, dict, enumerate, zip, reversed, sorted, sum, min, max, any, all) or \
                isinstance(self_type, (dict, list, set, frozenset, tuple)):
            if fn is dict and any(a is self.proxy for a in args):
                # dict(self): the mapping protocol -- iteration + __getitem__
                args = [{k: self.call_proxy("__getitem__", [k]) for k in list(self._iter(a))} if a is self.proxy else a for a in args]
            args = [self._concrete(a) for a in args]
        if isinstance(self_type, (dict, list, set, frozenset, tuple, str, slice, range)) or any(fn is b for b in _PLAIN_BUILTINS):
            try:
                r = fn(*args, **kwargs)
            except (KeyError, IndexError, ValueError, TypeError, ZeroDivisionError) as ex:
                raise _raise(type(ex).__name__, unparse(e)[:50] if e is not None else "")
            if hasattr(r, "__next__"):          # enumerate, zip, reversed, iterators: materialised
                r = list(r)
            if type(r).__name__ in ("dict_keys", "dict_values", "dict_items"):
                r = list(r)
            return r
        return super()._apply(fn, args, kwargs, e)

    def ev(self, e, env):
        if isinstance(e, ast.Name) and e.id not in env and e.id in _EXC_NAMES:
            return _ExcClass(e.id)
        if isinstance(e, ast.JoinedStr):
            return "<text>"
        if isinstance(e, ast.BinOp) and isinstance(e.op, ast.Mod) and isinstance(e.left, ast.Constant) and isinstance(e.left.value, str):
            return "<text>"
        if isinstance(e, ast.Call) and isinstance(e.func, ast.Name) and e.func.id in ("ItemsView", "ValuesView", "KeysView") \
                and len(e.args) == 1 and not e.keywords and e.func.id not in env:
            # collections.abc views of a mapping: what the mapping protocol (iteration + __getitem__) of the argument gives
            m = self.ev(e.args[0], env)
            if m is not self.proxy:
                raise Unsupported(f"`{unparse(e)}`")
            keys = list(self._iter(m, e))
            if e.func.id == "KeysView":
                return keys
            vals = [self.call_proxy("__getitem__", [k]) for k in keys]
            return vals if e.func.id == "ValuesView" else list(zip(keys, vals))
        return super().ev(e, env)

    def _call(self, e, env):
        f = e.func
        if isinstance(f, ast.Name) and f.id in _EXC_NAMES and f.id not in env:
            for a in e.args:
                self.ev(a, env)
            return _ExcClass(f.id)
        return super()._call(e, env)

    def bind(self, target, value, env):
        if isinstance(target, ast.Subscript):
            box = self.ev(target.value, env)
            if box is self.colobj or box is self.proxy:
                k = self._index(target.slice, env)
                if box is self.colobj:
                    if self.kind == "list" and isinstance(k, slice):
                        value = list(self._iter(value, target))
                    return self.col_op("__setitem__", [k, value])
                return self.call_proxy("__setitem__", [k, value])
        return super().bind(target, value, env)

    def _getitem(self, box, k, e):
        if box is self.colobj:
            r = self.col_op("__getitem__", [k])
            return list(r) if isinstance(k, slice) else r
        if box is self.proxy:
            return self.call_proxy("__getitem__", [k])
        return super()._getitem(box, k, e)

    def stmt(self, st, env):
        if isinstance(st, ast.Raise):
            if st.exc is None:
                cur = env.get("__exc__")
                if cur is None:
                    raise Unsupported("bare raise outside a handler")
                raise cur
            v = self.ev(st.exc, env)
            if isinstance(v, _ExcClass):
                raise _raise(v.name, unparse(st)[:60])
            raise Unsupported(f"`{unparse(st)[:60]}`")
        if isinstance(st, ast.Delete):
            for t in st.targets:
                if isinstance(t, ast.Subscript):
                    box = self.ev(t.value, env)
                    if box is self.colobj:
                        self.col_op("__delitem__", [self._index(t.slice, env)])
                        continue
                    if box is self.proxy:
                        self.call_proxy("__delitem__", [self._index(t.slice, env)])
                        continue
                super().stmt(ast.Delete(targets=[t]), env)
            return
        if isinstance(st, ast.Try):
            return self.do_try(st, env)
        if isinstance(st, ast.Expr) and isinstance(st.value, ast.YieldFrom):
            self.yielded.extend(self._iter(self.ev(st.value.value, env), st))
            return
        if isinstance(st, ast.Assert):
            if not self.truth(self.ev(st.test, env)):
                raise _raise("AssertionError")
            return
        return super().stmt(st, env)

    def do_try(self, st, env):
        try:
            try:
                self.run(st.body, env)
            except ModelRaise as ex:
                et = etype_of(ex)
                for h in st.handlers:
                    if self._handles(h.type, et, env):
                        if h.name:
                            env[h.name] = _ExcClass(et)
                        saved = env.get("__exc__")
                        env["__exc__"] = ex
                        try:
                            self.run(h.body, env)
                        finally:
                            env["__exc__"] = saved
                        break
                else:
                    raise
            else:
                self.run(st.orelse, env)
        finally:
            self.run(st.finalbody, env)

    def _handles(self, htype, et, env):
        if htype is None:
            return True
        names = [unparse(x) for x in htype.elts] if isinstance(htype, ast.Tuple) else [unparse(htype)]
        etc = getattr(builtins, et, None)
        for n in names:
            n = n.split(".")[-1]
            hc = getattr(builtins, n, None)
            if not (isinstance(hc, type) and issubclass(hc, BaseException)):
                raise Unsupported(f"`except {n}`")
            if isinstance(etc, type) and issubclass(etc, hc):
                return True
        return False


class _ExcClass:
    def __init__(self, name):
        self.name = name

    def __repr__(self):
        return f"<exception {self.name}>"


_PLAIN_BUILTINS = (len, list, dict, tuple, set, frozenset, enumerate, zip, range, min, max, sorted, reversed, bool, int, abs, divmod,
                   sum, any, all)
