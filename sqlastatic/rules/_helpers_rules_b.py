"""Helpers shared by the rule modules written by `rules-b` (C19, C14, C10, C16, C12, C13, C09, C55).

OrderFlow: a small "iteration-order taint" analysis (intraprocedural with reaching definitions from
the CFG; follows calls into functions of the package for their returned / yielded value).  It
classifies an expression that denotes a collection as

* ORD      -- a sequence whose order is a function of ordered inputs only (list/tuple displays,
              `list(ordered)`, `sorted(..)`, comprehension over ordered iterables, dict views
              (insertion order), `OrderedSet(..)`, a list that is only appended to inside loops over
              ORD iterables),
* SET      -- unordered by type (`set(..)`, set displays/comprehensions, set algebra on sets),
* TAINTED  -- a sequence whose order comes from iterating a SET (`list(a_set)`, a list appended to
              inside `for x in a_set`, a value obtained by `a_set.pop()`),
* PARAM    -- a parameter of a function (the caller decides; rules follow call sites),
* UNKNOWN  -- anything else (rules turn this into ANALYSIS-ERROR, never into pass/violation).
"""

from __future__ import annotations

import ast
import re
from typing import Dict, List, Optional, Tuple

from ..astutil import (
    FuncNode, ancestors, call_name, calls_in, dotted, enclosing_stmt, name_stores, unparse, walk_local,
)
from ..index import FuncInfo

ORD, SET, TAINTED, PARAM, UNKNOWN = "ord", "set", "tainted", "param", "unknown"

SEQ_CTORS = {"list", "tuple", "reversed", "iter", "enumerate", "OrderedSet", "unique_list", "to_list", "deque"}
SET_CTORS = {"set", "frozenset"}
SET_ALGEBRA = {"difference", "union", "intersection", "symmetric_difference", "copy"}
DICT_VIEWS = {"values", "keys", "items"}
DICT_CTORS = {"dict", "defaultdict", "OrderedDict"}
LIST_GROW = {"append", "extend", "insert", "appendleft", "extendleft"}
NS_OK = ("util", "collections", "builtins")


class Kind:
    __slots__ = ("k", "why", "param", "fn_key")

    def __init__(self, k, why="", param=None, fn_key=None):
        self.k = k
        self.why = why
        self.param = param
        self.fn_key = fn_key

    def __repr__(self):
        return f"{self.k}({self.why})"


def join(kinds: List[Kind]) -> Kind:
    """Worst case over alternatives: tainted > set > unknown > param > ord."""
    if not kinds:
        return Kind(UNKNOWN, "no binding")
    for want in (TAINTED, SET, UNKNOWN, PARAM):
        for k in kinds:
            if k.k == want:
                return k
    return kinds[0]


def as_sequence(k: Kind, how: str) -> Kind:
    """Kind of `list(x)` / `[.. for v in x]` / `for v in x` given the kind of x."""
    if k.k == SET:
        return Kind(TAINTED, f"{how} iterates a set ({k.why})")
    return k


class OrderFlow:
    def __init__(self, ctx, max_depth: int = 30, param_kinds: Optional[Dict[Tuple[str, str], Kind]] = None):
        self.ctx = ctx
        self.ix = ctx.index
        self.max_depth = max_depth
        self.param_kinds = dict(param_kinds or {})  # (function key, parameter) -> Kind by contract
        self._active = set()

    # ------------------------------------------------------------------ public
    def kind(self, e: ast.AST, fn: FuncInfo, depth: int = 0, at: Optional[ast.stmt] = None) -> Kind:
        """Kind of expression `e` evaluated in statement `at` of function `fn`
        (`at` None: the enclosing statement is looked up)."""
        if depth > self.max_depth:
            return Kind(UNKNOWN, "depth bound")
        if at is None:
            at = enclosing_stmt(fn.module.parents(), e)
        d = depth + 1
        K = lambda x: self.kind(x, fn, d, at)  # noqa: E731
        if isinstance(e, (ast.List, ast.Tuple)):
            ks = [as_sequence(K(x.value), "unpacking") for x in e.elts if isinstance(x, ast.Starred)]
            return join(ks) if ks else Kind(ORD, "display")
        if isinstance(e, (ast.ListComp, ast.GeneratorExp)):
            return join([as_sequence(K(g.iter), "comprehension") for g in e.generators])
        if isinstance(e, (ast.Set, ast.SetComp)):
            return Kind(SET, "set display")
        if isinstance(e, ast.Dict):
            return Kind(ORD, "dict display")
        if isinstance(e, ast.DictComp):
            return join([as_sequence(K(g.iter), "dict comprehension") for g in e.generators])
        if isinstance(e, ast.Starred):
            return K(e.value)
        if isinstance(e, ast.IfExp):
            return join([K(e.body), K(e.orelse)])
        if isinstance(e, ast.BinOp) and isinstance(e.op, (ast.Add, ast.BitOr, ast.BitAnd, ast.Sub, ast.BitXor)):
            return join([K(e.left), K(e.right)])
        if isinstance(e, ast.Subscript):
            if isinstance(e.slice, ast.Slice):
                return K(e.value)
            return self._subscript(e, fn, d, at)
        if isinstance(e, ast.Call):
            return self._call(e, fn, d, at)
        if isinstance(e, ast.Name):
            return self._name(e.id, fn, d, at)
        if isinstance(e, ast.Attribute):
            return self._attribute(e, fn, d)
        if isinstance(e, ast.NamedExpr):
            return K(e.value)
        return Kind(UNKNOWN, f"expression `{unparse(e)[:60]}`")

    def loop_context(self, node: ast.AST, fn: FuncInfo, depth: int = 0) -> Kind:
        """Join of the kinds of the iterables of every `for` loop of `fn` that lexically encloses
        `node`: ORD when every one of them iterates an ordered collection (or there is none)."""
        pm = fn.module.parents()
        ks = []
        child = node
        for anc in ancestors(pm, node):
            if anc is fn.node:
                break
            if isinstance(anc, (ast.For, ast.AsyncFor)) and any(child is x for x in anc.body):
                k = as_sequence(self.kind(anc.iter, fn, depth + 1, anc), f"loop `for {unparse(anc.target)} in {unparse(anc.iter)[:40]}`")
                ks.append(k)
            if isinstance(anc, FuncNode):
                break
            child = anc
        bad = [k for k in ks if k.k != ORD]
        return join(bad) if bad else Kind(ORD, "no unordered loop around")

    # ------------------------------------------------------------------ pieces
    def _call(self, c: ast.Call, fn: FuncInfo, d: int, at) -> Kind:
        recv = c.func.value if isinstance(c.func, ast.Attribute) else None
        short = c.func.attr if isinstance(c.func, ast.Attribute) else (c.func.id if isinstance(c.func, ast.Name) else "")
        plain = recv is None or dotted(recv) in NS_OK
        if short == "sorted" and recv is None:
            return Kind(ORD, "sorted()")
        if short in SET_CTORS and plain:
            return Kind(SET, f"{short}()")
        if short in SEQ_CTORS and plain:
            if not c.args:
                return Kind(ORD, f"empty {short}()")
            return as_sequence(self.kind(c.args[0], fn, d, at), f"{short}()")
        if short in DICT_CTORS and plain:
            if short == "defaultdict" or not c.args:
                return Kind(ORD, f"empty {short}()")
            return as_sequence(self.kind(c.args[0], fn, d, at), f"{short}()")
        if short == "zip" and recv is None:
            return join([as_sequence(self.kind(a, fn, d, at), "zip()") for a in c.args])
        if short == "cast" and len(c.args) == 2:
            return self.kind(c.args[1], fn, d, at)
        if recv is not None and short in DICT_VIEWS and not c.args:
            rk = self.kind(recv, fn, d, at)
            if rk.k in (TAINTED, SET):
                return Kind(TAINTED, f".{short}() of a mapping filled in set order ({rk.why})")
            # a dict iterates in insertion order (language guarantee)
            return Kind(ORD, f"dict .{short}() view (insertion order)")
        if recv is not None and short in SET_ALGEBRA:
            rk = self.kind(recv, fn, d, at)
            if rk.k in (ORD, SET, TAINTED):
                return Kind(rk.k, f"{rk.why}.{short}()")
            return rk
        callee = self.resolve_callee(c, fn)
        if callee is not None:
            return self.result_kind(callee, d)
        return Kind(UNKNOWN, f"call `{unparse(c)[:60]}`")

    def resolve_callee(self, c: ast.Call, fn: FuncInfo) -> Optional[FuncInfo]:
        nm = call_name(c)
        if not nm or "()" in nm:
            return None
        parts = nm.split(".")
        if parts[0] in ("self", "cls") and len(parts) == 2 and fn.cls is not None:
            return self.ix.resolve_method(fn.cls, parts[1])
        r = self.ix.resolve(fn.module, nm)
        if isinstance(r, FuncInfo):
            return r
        return None

    def result_kind(self, callee: FuncInfo, d: int) -> Kind:
        """Join over the values the function returns; for a generator, over the loop contexts of
        its yields (the generator is an ordered sequence when no yield sits in an unordered loop)
        and the operands of `yield from`."""
        key = ("result", callee.key)
        if key in self._active:
            return Kind(ORD, "recursive")
        self._active.add(key)
        try:
            self.ctx.functions_analysed.add(callee.key)
            ks = []
            yields = [n for n in walk_local(callee.node) if isinstance(n, (ast.Yield, ast.YieldFrom))]
            if yields:
                for y in yields:
                    ks.append(self.loop_context(y, callee, d))
                    if isinstance(y, ast.YieldFrom):
                        ks.append(as_sequence(self.kind(y.value, callee, d), "yield from"))
                return join(ks)
            for r in walk_local(callee.node):
                if isinstance(r, ast.Return) and r.value is not None:
                    ks.append(self.kind(r.value, callee, d, r))
            return join(ks)
        finally:
            self._active.discard(key)

    def element_kind(self, it: ast.AST, fn: FuncInfo, d: int) -> Kind:
        """Kind of ONE ELEMENT produced by iterating `it` (only for generators of the package whose
        yielded values are themselves collections)."""
        if isinstance(it, ast.Call):
            callee = self.resolve_callee(it, fn)
            if callee is not None:
                ys = [n for n in walk_local(callee.node) if isinstance(n, ast.Yield) and n.value is not None]
                if ys:
                    self.ctx.functions_analysed.add(callee.key)
                    return join([self.kind(y.value, callee, d) for y in ys])
        return Kind(UNKNOWN, f"element of `{unparse(it)[:50]}`")

    def reaching(self, name: str, fn: FuncInfo, at: Optional[ast.stmt]):
        """(bindings of `name` that reach statement `at`, does-the-parameter/closure-value reach)."""
        binds = [(v, st) for n, v, st in name_stores(fn.node) if n == name]
        if at is None or not binds:
            return binds, True
        g = self.ctx.cfg(fn)
        use = g.nodes_for(at)
        if not use:
            return binds, True
        bnodes = {}
        for v, st in binds:
            ids = g.nodes_for(st)
            if not ids:  # e.g. a walrus inside an expression: keep conservatively
                return binds, True
            bnodes[id(st)] = ids
        allb = {i for ids in bnodes.values() for i in ids}
        out = []
        for v, st in binds:
            mine = bnodes[id(st)]
            w = g.witness(mine, use, avoid=allb - set(use))
            if w is not None:
                out.append((v, st))
        entry_reaches = g.witness([g.entry], use, avoid=allb - set(use)) is not None
        return out, entry_reaches

    def _name(self, name: str, fn: FuncInfo, d: int, at) -> Kind:
        key = (fn.key, name, id(at))
        if key in self._active:
            return Kind(ORD, "recursive")
        self._active.add(key)
        try:
            binds, entry = self.reaching(name, fn, at)
            ks: List[Kind] = []
            if entry or not binds:
                if name in fn.params:
                    pk = self.param_kinds.get((fn.key, name))
                    ks.append(pk or Kind(PARAM, f"parameter `{name}` of {fn.qualname}", param=name, fn_key=fn.key))
                elif fn.parent_func is not None and not binds:
                    return self._name(name, fn.parent_func, d, None)
                elif not binds:
                    return Kind(UNKNOWN, f"name `{name}` is not bound in {fn.qualname}")
            for v, st in binds:
                if v is not None and not isinstance(st, (ast.With, ast.AsyncWith)):
                    ks.append(self.kind(v, fn, d, st))
                elif isinstance(st, (ast.For, ast.AsyncFor)) and isinstance(st.target, ast.Name):
                    ks.append(self.element_kind(st.iter, fn, d))
                elif isinstance(st, ast.AugAssign):
                    ks.append(join([self.kind(st.value, fn, d, st), self.loop_context(st, fn, d)]))
                else:
                    ks.append(Kind(UNKNOWN, f"binding `{unparse(st)[:50]}`"))
            base = join(ks)
            if base.k in (ORD, PARAM):
                t = self._growth_taint(name, fn, d)
                if t is not None:
                    return t
            return base
        finally:
            self._active.discard(key)

    def _growth_taint(self, name: str, fn: FuncInfo, d: int) -> Optional[Kind]:
        """A list that is appended to inside a loop over a set (or with values popped from a set, or
        extended from a set) has set-derived order."""
        for c in calls_in(fn.node):
            f = c.func
            if not (isinstance(f, ast.Attribute) and isinstance(f.value, ast.Name) and f.value.id == name):
                continue
            if f.attr not in LIST_GROW:
                continue
            lc = self.loop_context(c, fn, d)
            if lc.k != ORD:
                return Kind(lc.k, f"`{unparse(c)[:50]}` runs inside {lc.why}", lc.param, lc.fn_key)
            if f.attr in ("extend", "extendleft") and c.args:
                ak = as_sequence(self.kind(c.args[0], fn, d), f"`{unparse(c)[:50]}`")
                if ak.k == TAINTED:
                    return ak
            elif c.args:
                v = c.args[-1]
                if isinstance(v, ast.Name):
                    for n2, v2, st2 in name_stores(fn.node):
                        if n2 == v.id and isinstance(v2, ast.Call) and isinstance(v2.func, ast.Attribute) \
                                and v2.func.attr == "pop" and not v2.args:
                            rk = self.kind(v2.func.value, fn, d, st2)
                            if rk.k == SET:
                                return Kind(TAINTED, f"`{unparse(c)[:50]}` appends a value popped from a set ({rk.why})")
        return None

    def _subscript(self, e: ast.Subscript, fn: FuncInfo, d: int, at) -> Kind:
        # m[k] where m is a local `defaultdict(set)` / `defaultdict(list)`
        if isinstance(e.value, ast.Name):
            for n, v, st in name_stores(fn.node):
                if n == e.value.id and isinstance(v, ast.Call) and (call_name(v) or "").rsplit(".", 1)[-1] == "defaultdict" and v.args:
                    fac = unparse(v.args[0])
                    if fac in ("set", "frozenset"):
                        return Kind(SET, f"value of defaultdict(set) `{e.value.id}`")
                    if fac in ("list", "OrderedSet", "util.OrderedSet"):
                        t = self._growth_taint_sub(e.value.id, fn, d)
                        return t or Kind(ORD, f"value of defaultdict({fac})")
        return Kind(UNKNOWN, f"subscript `{unparse(e)[:50]}`")

    def _growth_taint_sub(self, name, fn, d):
        for c in calls_in(fn.node):
            f = c.func
            if isinstance(f, ast.Attribute) and f.attr in LIST_GROW and isinstance(f.value, ast.Subscript) \
                    and isinstance(f.value.value, ast.Name) and f.value.value.id == name:
                lc = self.loop_context(c, fn, d)
                if lc.k != ORD:
                    return Kind(lc.k, f"`{unparse(c)[:50]}` runs inside {lc.why}", lc.param, lc.fn_key)
        return None

    def _attribute(self, e: ast.Attribute, fn: FuncInfo, d: int) -> Kind:
        """`self.x`: join over every store to `self.x` in the class hierarchy of the method."""
        if isinstance(e.value, ast.Name) and e.value.id == "self" and fn.cls is not None:
            key = ("attr", fn.cls.key, e.attr)
            if key in self._active:
                return Kind(ORD, "recursive")
            self._active.add(key)
            try:
                ks = []
                for k in self.ix.mro(fn.cls):
                    for m in k.methods.values():
                        for n in walk_local(m.node):
                            if not isinstance(n, ast.Assign) or is_none_const(n.value):
                                continue
                            for t in n.targets:
                                if isinstance(t, ast.Attribute) and t.attr == e.attr and isinstance(t.value, ast.Name) and t.value.id == "self":
                                    ks.append(self.kind(n.value, m, d, n))
                if ks:
                    return join(ks)
            finally:
                self._active.discard(key)
        return Kind(UNKNOWN, f"attribute `{unparse(e)[:50]}`")


def is_none_const(n) -> bool:
    return isinstance(n, ast.Constant) and n.value is None


def _needle_lines(src: str, needle: str) -> List[int]:
    return [i for i, line in enumerate(src.split("\n"), 1) if needle in line]


def call_sites(index, target: FuncInfo, modules=None) -> List[Tuple[FuncInfo, ast.Call]]:
    """Every call (inside an indexed function, nested functions included) in the package whose
    callee resolves (through imports / re-exports / `self.` / `cls.`) to `target`; sorted by
    module, position.  Only functions whose text contains `name(` are parsed for calls."""
    out = []
    seen = set()
    needle = target.name + "("
    for m in (modules or index.all_modules()):
        if needle not in m.source:
            continue
        lines = _needle_lines(m.source, needle)
        for f in index.all_functions(m):
            lo, hi = f.node.lineno, getattr(f.node, "end_lineno", f.node.lineno)
            if not any(lo <= ln <= hi for ln in lines):
                continue
            for c in calls_in(f.node, into_nested=True):
                if id(c) in seen:
                    continue
                nm = call_name(c)
                if not nm or "()" in nm or nm.rsplit(".", 1)[-1] != target.name:
                    continue
                parts = nm.split(".")
                if parts[0] in ("self", "cls") and len(parts) == 2 and f.cls is not None:
                    r = index.resolve_method(f.cls, parts[1])
                else:
                    r = index.resolve(m, nm)
                if r is target:
                    seen.add(id(c))
                    out.append((f, c))
    out.sort(key=lambda fc: (fc[0].module.relpath, fc[1].lineno, fc[1].col_offset))
    return out


def _accepts(callee: FuncInfo, call: ast.Call) -> bool:
    a = callee.node.args
    pos = [x.arg for x in a.posonlyargs + a.args]
    if callee.cls is not None and pos and pos[0] in ("self", "cls"):
        pos = pos[1:]
    if any(isinstance(x, ast.Starred) for x in call.args) or any(k.arg is None for k in call.keywords):
        return True
    if len(call.args) > len(pos) and a.vararg is None:
        return False
    names = set(pos) | {x.arg for x in a.kwonlyargs}
    if a.kwarg is None and any(k.arg not in names for k in call.keywords):
        return False
    required = pos[: len(pos) - len(a.defaults)]
    given = set(pos[: len(call.args)]) | {k.arg for k in call.keywords}
    return all(r in given for r in required)


def method_call_sites(index, target: FuncInfo) -> List[Tuple[FuncInfo, ast.Call]]:
    """May-call sites of a METHOD by name on an arbitrary receiver (`x.name(...)`): every call whose
    attribute name is the method's and whose arguments fit the method's signature.  Receivers `self`/`cls`
    are resolved exactly; other receivers are kept when the signature fits (class-hierarchy
    approximation: may include calls of an unrelated method of the same name and arity)."""
    out, seen = [], set()
    needle = "." + target.name + "("
    for m in index.all_modules():
        if needle not in m.source:
            continue
        lines = _needle_lines(m.source, needle)
        for f in index.all_functions(m):
            lo, hi = f.node.lineno, getattr(f.node, "end_lineno", f.node.lineno)
            if not any(lo <= ln <= hi for ln in lines):
                continue
            for c in calls_in(f.node, into_nested=True):
                if id(c) in seen or not (isinstance(c.func, ast.Attribute) and c.func.attr == target.name):
                    continue
                recv = dotted(c.func.value)
                if recv in ("self", "cls") and f.cls is not None:
                    if index.resolve_method(f.cls, target.name) is not target:
                        continue
                elif recv == "super()":
                    continue
                elif not _accepts(target, c):
                    continue
                seen.add(id(c))
                out.append((f, c))
    out.sort(key=lambda fc: (fc[0].module.relpath, fc[1].lineno, fc[1].col_offset))
    return out


def arg_for(call: ast.Call, callee: FuncInfo, pname: str) -> Optional[ast.AST]:
    """The argument expression bound to parameter `pname` of `callee` at `call` (None if defaulted)."""
    params = list(callee.params)
    if callee.cls is not None and params and params[0] in ("self", "cls"):
        params = params[1:]
    for k in call.keywords:
        if k.arg == pname:
            return k.value
    if pname in params:
        i = params.index(pname)
        if i < len(call.args) and not any(isinstance(a, ast.Starred) for a in call.args[: i + 1]):
            return call.args[i]
    return None


def ordinal_keys(items, base):
    """Stable per-function ordinals: [(key, item)] with `base(item)` + '#n' when base repeats."""
    counts: Dict[str, int] = {}
    tot: Dict[str, int] = {}
    for it in items:
        tot[base(it)] = tot.get(base(it), 0) + 1
    out = []
    for it in items:
        b = base(it)
        counts[b] = counts.get(b, 0) + 1
        out.append((b if tot[b] == 1 else f"{b}#{counts[b]}", it))
    return out


TOPO = "util/topological.py"


def topo_flow(ctx) -> OrderFlow:
    """OrderFlow with the contract of util/topological.py: the 1st parameter (edge pairs) of
    sort / sort_as_subsets is an unordered collection (callers pass sets), the 2nd (items) carries the
    caller's order; find_cycles is order-free."""
    pk = {}
    for name in ("sort_as_subsets", "sort"):
        f = ctx.func(f"{TOPO}::{name}")
        ctx.require(len(f.params) >= 2, f"{name} no longer takes (edge pairs, items)")
        pk[(f.key, f.params[0])] = Kind(SET, f"edge-pair parameter `{f.params[0]}` (callers pass sets)")
        pk[(f.key, f.params[1])] = Kind(ORD, f"items parameter `{f.params[1]}` (the caller's order)")
    f = ctx.func(f"{TOPO}::find_cycles")
    for p in f.params[:2]:
        pk[(f.key, p)] = Kind(SET, f"parameter `{p}` of find_cycles (order-free by contract)")
    return OrderFlow(ctx, param_kinds=pk)
