"""Helpers of the rob-H1 robustification pass (C50, C51, C52, C54): rules must judge what the code DOES, not how
it is spelled.  Nothing here imports or runs SQLAlchemy; everything works on `ast`.

* `nform`            -- rob-A's refactoring-robust normal form of a function (private helpers inlined at the call,
                        single-assignment call-free locals resolved, optionally "inline temp"), imported read-only.
* `tri` / `tri_edges` -- three-valued evaluation of a branch condition under a set of facts, and the CFG edges that
                        the facts refute (compound `and` == nested ifs == early return == inverted if/else).
* `expand_properties` -- `self.<prop>` replaced by the expression a one-line @property returns.
* `str_parts`        -- one reading for `"a:" + x`, `f"a:{x}"`, `"a:%s" % (x,)`, `"a:{}".format(x)`: the list of
                        literal / expression parts.
* `local_defs` / `resolve_local` / `contributing_stmts` -- single-assignment locals.
* `dominating_atoms` -- branch outcomes that hold at every CFG node evaluating an expression.
* `implied` -- is a predicate on atoms implied by a guard (handles `or`, De Morgan, `not`).
* `reachable_methods` -- methods of a class reachable on an instance through the public interface (self-calls
                        followed through the MRO).
"""

from __future__ import annotations

import ast
import copy
import re
from typing import Callable, Dict, Iterable, List, Optional, Sequence, Set, Tuple

from ..astutil import call_name, dotted, guard_atoms, unparse, walk_local
from ._helpers_rob_a import helper_callers, normal_form as _normal_form


def foreign_callees(ctx, f) -> Set[str]:
    """names called in `f` that resolve to a function of ANOTHER module (`class_mapper(cls)`, `util.warn(..)`): a
    collaboration, not an extracted helper -- such calls stay calls in the normal form"""
    from ..index import FuncInfo
    out: Set[str] = set()
    for n in ast.walk(f.node):
        if not isinstance(n, ast.Call):
            continue
        fn = n.func
        if isinstance(fn, ast.Name):
            nm, path = fn.id, fn.id
        elif isinstance(fn, ast.Attribute) and dotted(fn) and "()" not in dotted(fn) and dotted(fn).split(".")[0] not in ("self", "cls"):
            nm, path = fn.attr, dotted(fn)
        else:
            continue
        try:
            r = ctx.index.resolve(f.module, path)
        except Exception:
            r = None
        if isinstance(r, FuncInfo) and r.module is not f.module:
            out.add(nm)
    return out


def nform(ctx, f, keep: Iterable[str] = (), temps: bool = False, alias: Optional[str] = "all", inline: bool = True,
          local_only: bool = True):
    """normal form of `f`; never raises for a shape the normaliser does not understand (the function is then analysed
    as written -- the rule sees what it saw before).  local_only: only helpers of the same class / module are inlined."""
    keep = set(keep)
    if inline and local_only:
        keep |= foreign_callees(ctx, f)
    try:
        return _normal_form(ctx, f, keep=keep, temps=temps, alias=alias, inline=inline)
    except (AttributeError, TypeError, ValueError, KeyError, IndexError, RecursionError):
        return _normal_form(ctx, f, keep=keep, inline=False, alias=None)


# ---------------------------------------------------------------------------------------------- locals
def local_defs(fnode) -> Dict[str, List[ast.expr]]:
    """name -> values of the plain `name = value` / `name: T = value` statements of fnode (None for any other kind
    of binding: loop target, unpacking, augmented assignment, with/except ... as, walrus)."""
    out: Dict[str, List[Optional[ast.expr]]] = {}

    def other(t):
        for x in ast.walk(t):
            if isinstance(x, ast.Name):
                out.setdefault(x.id, []).append(None)
    for n in walk_local(fnode):
        if isinstance(n, ast.Assign):
            for t in n.targets:
                if isinstance(t, ast.Name):
                    out.setdefault(t.id, []).append(n.value)
                elif isinstance(t, (ast.Tuple, ast.List, ast.Starred)):
                    other(t)
        elif isinstance(n, ast.AnnAssign) and isinstance(n.target, ast.Name) and n.value is not None:
            out.setdefault(n.target.id, []).append(n.value)
        elif isinstance(n, ast.AugAssign) and isinstance(n.target, ast.Name):
            out.setdefault(n.target.id, []).append(None)
        elif isinstance(n, (ast.For, ast.AsyncFor)):
            other(n.target)
        elif isinstance(n, ast.comprehension):
            pass
        elif isinstance(n, (ast.With, ast.AsyncWith)):
            for it in n.items:
                if it.optional_vars is not None:
                    other(it.optional_vars)
        elif isinstance(n, ast.ExceptHandler) and n.name:
            out.setdefault(n.name, []).append(None)
        elif isinstance(n, ast.NamedExpr) and isinstance(n.target, ast.Name):
            out.setdefault(n.target.id, []).append(None)
    return out


def resolve_local(fnode, e, depth: int = 4, defs=None):
    """follow a Name bound exactly once (by a plain assignment) in fnode to its value"""
    defs = local_defs(fnode) if defs is None else defs
    params = {a.arg for a in fnode.args.posonlyargs + fnode.args.args + fnode.args.kwonlyargs}
    while isinstance(e, ast.Name) and depth > 0 and e.id not in params:
        vs = defs.get(e.id)
        if not vs or len(vs) != 1 or vs[0] is None:
            break
        e, depth = vs[0], depth - 1
    return e


def contributing_stmts(fnode, stmt) -> List[ast.stmt]:
    """`stmt` and, transitively, the single plain assignments that define the locals it reads"""
    assigns: Dict[str, List[ast.stmt]] = {}
    for n in walk_local(fnode):
        if isinstance(n, ast.Assign) and len(n.targets) == 1 and isinstance(n.targets[0], ast.Name):
            assigns.setdefault(n.targets[0].id, []).append(n)
        elif isinstance(n, ast.AnnAssign) and isinstance(n.target, ast.Name) and n.value is not None:
            assigns.setdefault(n.target.id, []).append(n)
    defs = local_defs(fnode)
    out, todo, seen = [], [stmt], set()
    while todo:
        st = todo.pop()
        if id(st) in seen:
            continue
        seen.add(id(st))
        out.append(st)
        val = st.value if isinstance(st, (ast.Assign, ast.AnnAssign, ast.Expr, ast.Return)) else st
        for x in ast.walk(val) if val is not None else []:
            if isinstance(x, ast.Name) and isinstance(x.ctx, ast.Load) and len(defs.get(x.id, [])) == 1 and len(assigns.get(x.id, [])) == 1:
                todo.append(assigns[x.id][0])
    return out


# ---------------------------------------------------------------------------------------------- guards
def dominating_atoms(g, expr_or_stmt) -> Set[Tuple[str, bool]]:
    """branch outcomes (normalised atoms) that dominate every CFG node evaluating `expr_or_stmt`"""
    nodes = g.nodes_containing(expr_or_stmt)
    sets = [set(guard_atoms(g.edge_guards(i))) for i in nodes]
    return set.intersection(*sets) if sets else set()


def tri(e, fact: Callable[[ast.expr], Optional[bool]]) -> Optional[bool]:
    """three-valued truth of condition `e` when `fact(sub-expression)` answers True/False for the sub-expressions
    it knows about (None otherwise)"""
    v = fact(e)
    if v is not None:
        return v
    if isinstance(e, ast.UnaryOp) and isinstance(e.op, ast.Not):
        v = tri(e.operand, fact)
        return None if v is None else not v
    if isinstance(e, ast.BoolOp):
        vs = [tri(x, fact) for x in e.values]
        if isinstance(e.op, ast.And):
            if any(v is False for v in vs):
                return False
            return True if all(v is True for v in vs) else None
        if any(v is True for v in vs):
            return True
        return False if all(v is False for v in vs) else None
    if isinstance(e, ast.Compare) and len(e.ops) == 1 and isinstance(e.ops[0], (ast.Is, ast.IsNot)) \
            and isinstance(e.comparators[0], ast.Constant) and e.comparators[0].value is None:
        v = fact(e.left)
        if v is True:           # a truthy object is not None
            return isinstance(e.ops[0], ast.IsNot)
        return None
    if isinstance(e, ast.Call) and call_name(e) == "bool" and len(e.args) == 1 and not e.keywords:
        return tri(e.args[0], fact)
    if isinstance(e, ast.NamedExpr):
        return tri(e.value, fact)
    return None


def tri_edges(g, fact) -> Set[Tuple[int, str]]:
    """(test node id, label) of the branch edges that cannot be taken when the facts hold"""
    cut = set()
    for n in g.nodes:
        if n.kind == "test" and hasattr(n.stmt, "test"):
            v = tri(n.stmt.test, fact)
            if v is True:
                cut.add((n.id, "false"))
            elif v is False:
                cut.add((n.id, "true"))
    return cut


def implied(t, pol: bool, base: Callable[[ast.expr], bool]) -> bool:
    """does the outcome `pol` of condition `t` imply that `base(atom)` holds for one of the atoms that must be true?
    (`a or b` true with base(a) and base(b); `not a and not b` false likewise; `x and a` true with base(a))"""
    if isinstance(t, ast.UnaryOp) and isinstance(t.op, ast.Not):
        return implied(t.operand, not pol, base)
    if isinstance(t, ast.BoolOp):
        conj = isinstance(t.op, ast.And) == pol        # and/True, or/False: every operand has outcome pol
        vs = [implied(v, pol, base) for v in t.values]
        return any(vs) if conj else all(vs)
    return pol and base(t)


# ---------------------------------------------------------------------------------------------- properties
_PROPERTY_DECOS = {"property", "memoized_property", "memoized_attribute", "ro_memoized_property", "cached_property",
                   "non_memoized_property", "ro_non_memoized_property"}


def property_value(ctx, cls, name: str) -> Optional[ast.expr]:
    """the expression returned by the one-line property `name` of cls (through the MRO), else None"""
    f = ctx.index.resolve_method(cls, name) if cls is not None else None
    if f is None or not any(d.split(".")[-1] in _PROPERTY_DECOS for d in f.decorators):
        return None
    body = [s for s in f.node.body if not (isinstance(s, ast.Expr) and isinstance(s.value, ast.Constant))]
    if len(body) != 1 or not isinstance(body[0], ast.Return) or body[0].value is None:
        return None
    me = f.node.args.args[0].arg if f.node.args.args else None
    if me != "self":
        return None
    for sub_ in ctx.index.subclasses(cls):
        if name in sub_.methods or name in sub_.assigns:
            return None
    ctx.functions_analysed.add(f.key)
    return body[0].value


def expand_properties(ctx, cls, e, depth: int = 2):
    """copy of expression e with `self.<one-line property>` replaced by the returned expression"""
    class T(ast.NodeTransformer):
        def __init__(self, d):
            self.d = d

        def visit_Attribute(self, n):
            self.generic_visit(n)
            if isinstance(n.value, ast.Name) and n.value.id == "self" and isinstance(n.ctx, ast.Load) and self.d > 0:
                v = property_value(ctx, cls, n.attr)
                if v is not None:
                    return T(self.d - 1).visit(copy.deepcopy(v))
            return n
    return T(depth).visit(copy.deepcopy(e))


# ---------------------------------------------------------------------------------------------- string building
_PCT = re.compile(r"%(?:\(\w+\))?[-#0 +]*\d*(?:\.\d+)?[sdr]|%%")
_BRACE = re.compile(r"\{(\d*)(![rsa])?(:[^{}]*)?\}|\{\{|\}\}")


def str_parts(e) -> Optional[List[object]]:
    """a string-building expression as a flat list of parts: `str` for literal text, `ast.expr` for an interpolated
    value.  Understands `+`, f-strings, `"lit %s" % x` / `% (x, y)` and `"lit {}".format(x, y)`; None otherwise."""
    if isinstance(e, ast.Constant) and isinstance(e.value, str):
        return [e.value]
    if isinstance(e, ast.BinOp) and isinstance(e.op, ast.Add):
        a, b = str_parts(e.left), str_parts(e.right)
        a = a if a is not None else [e.left]
        b = b if b is not None else [e.right]
        return a + b
    if isinstance(e, ast.JoinedStr):
        out: List[object] = []
        for v in e.values:
            if isinstance(v, ast.Constant):
                out.append(v.value)
            elif isinstance(v, ast.FormattedValue):
                out.append(v.value)
        return out
    if isinstance(e, ast.BinOp) and isinstance(e.op, ast.Mod) and isinstance(e.left, ast.Constant) and isinstance(e.left.value, str):
        args = list(e.right.elts) if isinstance(e.right, ast.Tuple) else [e.right]
        if isinstance(e.right, ast.Dict):
            return None
        out, pos, i = [], 0, 0
        for m in _PCT.finditer(e.left.value):
            if m.start() > pos:
                out.append(e.left.value[pos:m.start()])
            pos = m.end()
            if m.group(0) == "%%":
                out.append("%")
                continue
            if "(" in m.group(0) or i >= len(args):
                return None
            out.append(args[i])
            i += 1
        if pos < len(e.left.value):
            out.append(e.left.value[pos:])
        if i != len(args) or "%" in "".join(p for p in out if isinstance(p, str) and p != "%"):
            return None
        return out
    if isinstance(e, ast.Call) and isinstance(e.func, ast.Attribute) and e.func.attr == "format" and not e.keywords \
            and isinstance(e.func.value, ast.Constant) and isinstance(e.func.value.value, str) \
            and not any(isinstance(a, ast.Starred) for a in e.args):
        s, out, pos, auto = e.func.value.value, [], 0, 0
        for m in _BRACE.finditer(s):
            if m.start() > pos:
                out.append(s[pos:m.start()])
            pos = m.end()
            if m.group(0) in ("{{", "}}"):
                out.append(m.group(0)[0])
                continue
            idx = int(m.group(1)) if m.group(1) else auto
            auto += 1
            if idx >= len(e.args):
                return None
            out.append(e.args[idx])
        if pos < len(s):
            out.append(s[pos:])
        return out
    return None


# ---------------------------------------------------------------------------------------------- call graph of a class
def reachable_methods(ctx, cls) -> Dict[str, object]:
    """{method name: FuncInfo} of the methods that can run on an instance of `cls`: every non-private method of the
    MRO (public names and dunders, resolved to their first definition), every private method whose callers cannot be
    enumerated, and -- transitively -- what they call on `self`."""
    ix = ctx.index
    names: Set[str] = set()
    for k in ix.mro(cls):
        names |= {n for n, m in k.methods.items() if not m.type_only}
    roots = set()
    for n in names:
        f = ix.resolve_method(cls, n)
        if f is None:
            continue
        private = n.startswith("_") and not (n.startswith("__") and n.endswith("__"))
        if not private or helper_callers(ix, f) is None:
            roots.add(n)
    out: Dict[str, object] = {}
    todo = sorted(roots)
    while todo:
        n = todo.pop()
        if n in out:
            continue
        f = ix.resolve_method(cls, n)
        if f is None or f.type_only:
            continue
        out[n] = f
        me = f.node.args.args[0].arg if f.node.args.args else None
        for x in ast.walk(f.node):
            if isinstance(x, ast.Attribute) and isinstance(x.value, ast.Name) and x.value.id == me and x.attr in names:
                todo.append(x.attr)
    return out
