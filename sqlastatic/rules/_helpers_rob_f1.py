"""Helpers of the rob-F1 robustify pass (C28 / C29): rules must not depend on how locals are spelled.

* `Inliner`       -- substitutes locals that are bound exactly once in a function (`x = <expr>`, `x: T = <expr>`)
                     by their defining expression, so that `clslevel = self._clslevel; clslevel[cls].append(f)`
                     is read as `self._clslevel[cls].append(f)` and the boolean local in
                     `added = key.append_to_list(...); if added and propagate:` is read as the call it stands for.
* `rcall_nodes` / `test_edges_inl` -- the CFG queries of _helpers_rules_c with callee / test atoms taken after
                     inlining.
* `FlowResolver`  -- path-sensitive version for locals that are bound on several branches (`if async: flag = a
                     else: flag = b`, defaults-then-override, nested ifs): under a *scenario* (truth values of a
                     few canonical atoms) branch edges that the scenario contradicts are cut, and a name is
                     replaced by the value of its unique reaching definition.  What a flag *means* under the
                     scenario is then decided by three-valued evaluation / enumeration of the remaining atoms
                     (`truths`), never by the shape of the assignment.
"""

from __future__ import annotations

import ast
import copy
import itertools
from typing import Callable, Dict, Iterable, List, Optional, Set, Tuple

from ..astutil import (
    attr_stores, dotted, guard_atoms, name_stores, subscript_stores, test_atoms, unparse,
)
from ..cfg import no_exc
from ._helpers_rules_c import outcome, own_calls

_PURE = (
    ast.Name, ast.Attribute, ast.Subscript, ast.Constant, ast.Compare, ast.BoolOp, ast.UnaryOp, ast.IfExp,
    ast.Tuple, ast.Call, ast.keyword, ast.Starred, ast.expr_context, ast.boolop, ast.unaryop, ast.cmpop, ast.Slice,
)


def _params(fnode) -> Set[str]:
    a = fnode.args
    out = {x.arg for x in a.posonlyargs + a.args + a.kwonlyargs}
    if a.vararg:
        out.add(a.vararg.arg)
    if a.kwarg:
        out.add(a.kwarg.arg)
    return out


def _is_pure(v: ast.expr, allow_calls: bool) -> bool:
    for x in ast.walk(v):
        if not isinstance(x, _PURE):
            return False
        if isinstance(x, ast.Call) and not allow_calls:
            return False
    return True


class Inliner:
    """inl(expr) -> copy of `expr` in which every local that the function binds exactly once (plain assignment,
    not a parameter, not a loop / with / except target) is replaced by its defining expression, recursively.
    A snapshot of an attribute path (or of a container slot) that the function itself re-binds is not an alias
    and is left alone."""

    def __init__(self, fnode, allow_calls: bool = True):
        self.fnode = fnode
        binds: Dict[str, List[Tuple[Optional[ast.expr], ast.AST]]] = {}
        for nm, v, st in name_stores(fnode):
            binds.setdefault(nm, []).append((v, st))
        for n in ast.walk(fnode):
            if isinstance(n, ast.ExceptHandler) and n.name:
                binds.setdefault(n.name, []).append((None, n))
            elif isinstance(n, ast.Delete):
                for t in n.targets:
                    if isinstance(t, ast.Name):
                        binds.setdefault(t.id, []).append((None, n))
            elif isinstance(n, (ast.Global, ast.Nonlocal)):
                for nm in n.names:
                    binds.setdefault(nm, []).append((None, n))
        params = _params(fnode)
        rebound_attrs = {d for d, _, _ in attr_stores(fnode)}
        rebound_slots = {d for d, _, _ in subscript_stores(fnode)}
        self.env: Dict[str, ast.expr] = {}
        for nm, vs in binds.items():
            if nm in params or len(vs) != 1:
                continue
            v, st = vs[0]
            if v is None or not isinstance(st, (ast.Assign, ast.AnnAssign)) or not _is_pure(v, allow_calls):
                continue
            stale = False
            for x in ast.walk(v):
                if isinstance(x, ast.Attribute) and dotted(x) in rebound_attrs:
                    stale = True
                if isinstance(x, ast.Subscript) and dotted(x.value) in rebound_slots:
                    stale = True
            if not stale:
                self.env[nm] = v

    def __call__(self, e: Optional[ast.AST], depth: int = 0):
        if e is None:
            return None
        env = self.env
        if not env:
            return e
        outer = self

        class T(ast.NodeTransformer):
            def visit_Name(self, n):
                if isinstance(n.ctx, ast.Load) and n.id in env and depth < 6:
                    return outer(copy.deepcopy(env[n.id]), depth + 1)
                return n

            def visit_Lambda(self, n):
                return n
        return T().visit(copy.deepcopy(e))

    def dotted(self, e) -> Optional[str]:
        return dotted(self(e)) if e is not None else None

    def text(self, e) -> str:
        return unparse(self(e))

    def call_name(self, c: ast.Call) -> Optional[str]:
        return dotted(self(c.func))

    def atoms(self, guards: Iterable[Tuple[ast.expr, bool]]) -> List[Tuple[str, bool]]:
        return guard_atoms([(self(t), p) for t, p in guards])


def with_inlined_tests(fnode):
    """Deep copy of a function in which every branch test (`if` / `while` / `assert` / conditional expression) is
    written out with its once-bound locals replaced by what they stand for, so that a path-sensitive search sees
    `if not failed or not retry:` where the source says `mark = not failed or not retry; if mark:`.  The copy has
    its own node identities: build CFG, parent map and stores from the copy."""
    new = copy.deepcopy(fnode)
    inl2 = Inliner(new, allow_calls=False)
    for n in ast.walk(new):
        if isinstance(n, (ast.If, ast.While, ast.Assert, ast.IfExp)):
            n.test = inl2(n.test)
    ast.fix_missing_locations(new)
    return new


def rcall_nodes(g, inl: Inliner, pred: Callable[[str, ast.Call], bool]) -> List[int]:
    """CFG nodes whose own expression contains a call with pred(callee after alias resolution, call)."""
    out = []
    for n in g.nodes:
        for c in own_calls(n):
            nm = inl.call_name(c)
            if nm is not None and pred(nm, c):
                out.append(n.id)
                break
    return out


def test_edges_inl(g, inl: Inliner, atom_pred: Callable[[str, bool], bool]) -> List[Tuple[int, str, int]]:
    """[(test node, label, successor)] for branch edges whose outcome implies an atom accepted by atom_pred;
    atoms are taken from the test after alias resolution."""
    out = []
    for n in g.nodes:
        if n.kind != "test":
            continue
        t = inl(n.stmt.test)
        for b, lab0 in g.succ[n.id]:
            lab = outcome(g, n.id, lab0)
            if lab is None:
                continue
            if any(atom_pred(txt, pol) for txt, pol in test_atoms(t, lab == "true")):
                out.append((n.id, lab0, b))
    return out


# ---------------------------------------------------------------------- three-valued evaluation over canonical atoms
Canon = Callable[[str], Optional[Tuple[str, bool]]]   # atom text -> (canonical key, same polarity?) | None


def _atom_of(e: ast.expr) -> Tuple[str, bool]:
    return test_atoms(e, True)[0]


def ev3(e: ast.expr, facts: Dict[str, bool], canon: Optional[Canon] = None) -> Optional[bool]:
    """True / False / None (unknown) of `e`; `facts` is keyed by canonical atom keys (see `canon`) and raw atom texts."""
    if isinstance(e, ast.UnaryOp) and isinstance(e.op, ast.Not):
        v = ev3(e.operand, facts, canon)
        return None if v is None else (not v)
    if isinstance(e, ast.BoolOp):
        vals = [ev3(v, facts, canon) for v in e.values]
        if isinstance(e.op, ast.And):
            if any(v is False for v in vals):
                return False
            return True if all(v is True for v in vals) else None
        if any(v is True for v in vals):
            return True
        return False if all(v is False for v in vals) else None
    if isinstance(e, ast.IfExp):
        c = ev3(e.test, facts, canon)
        if c is None:
            a, b = ev3(e.body, facts, canon), ev3(e.orelse, facts, canon)
            return a if a == b else None
        return ev3(e.body if c else e.orelse, facts, canon)
    if isinstance(e, ast.Constant):
        return bool(e.value)
    txt, pol = _atom_of(e)
    key, same = txt, True
    if canon is not None:
        c = canon(txt)
        if c is not None:
            key, same = c
    if key in facts:
        v = facts[key] if same else (not facts[key])
        return v if pol else (not v)
    return None


def atom_keys(e: ast.expr, canon: Optional[Canon] = None) -> List[str]:
    seen: List[str] = []

    def visit(x):
        if isinstance(x, ast.UnaryOp) and isinstance(x.op, ast.Not):
            return visit(x.operand)
        if isinstance(x, ast.BoolOp):
            for v in x.values:
                visit(v)
            return
        if isinstance(x, ast.IfExp):
            visit(x.test), visit(x.body), visit(x.orelse)
            return
        if isinstance(x, ast.Constant):
            return
        txt, _ = _atom_of(x)
        c = canon(txt) if canon is not None else None
        k = c[0] if c is not None else txt
        if k not in seen:
            seen.append(k)
    visit(e)
    return seen


def truths(e: ast.expr, fixed: Dict[str, bool], canon: Optional[Canon] = None, limit: int = 10) -> Set[Optional[bool]]:
    """Set of values `e` can take when the atoms in `fixed` are pinned and every other atom is free."""
    free = [k for k in atom_keys(e, canon) if k not in fixed]
    if len(free) > limit:
        return {None}
    out: Set[Optional[bool]] = set()
    for vals in itertools.product((True, False), repeat=len(free)):
        facts = dict(fixed)
        facts.update(zip(free, vals))
        out.add(ev3(e, facts, canon))
    return out


# ---------------------------------------------------------------------- path-sensitive reaching definitions
class Scenario:
    def __init__(self, fr: "FlowResolver", fixed: Dict[str, bool]):
        self.fr = fr
        self.fixed = dict(fixed)
        g = fr.g
        self.cut: Set[Tuple[int, Optional[str]]] = set()
        self.live: Set[int] = g.reachable([g.entry], edge_ok=no_exc)
        for _ in range(5):
            new_cut = set()
            for n in g.nodes:
                if n.kind != "test" or n.id not in self.live:
                    continue
                v = ev3(self.resolve(n.stmt.test, n.id), self.fixed, fr.canon)
                if v is None:
                    continue
                for b, lab0 in g.succ[n.id]:
                    o = outcome(g, n.id, lab0)
                    if o is not None and (o == "true") != v:
                        new_cut.add((n.id, lab0))
            if new_cut == self.cut:
                break
            self.cut = new_cut
            self.live = g.reachable([g.entry], edge_ok=self.edge_ok)

    def edge_ok(self, a, b, lab) -> bool:
        return lab != "exc" and (a, lab) not in self.cut

    def reaching(self, var: str, at: int) -> Set[Optional[int]]:
        """definition nodes of `var` that reach node `at` along live, scenario-consistent, non-exceptional edges
        (None: the function entry is reached without a definition)."""
        g = self.fr.g
        defs = self.fr.defs.get(var, {})
        out: Set[Optional[int]] = set()
        seen, stack = set(), [at]
        while stack:
            a = stack.pop()
            for p, lab in g.pred[a]:
                if p in seen or p not in self.live or not self.edge_ok(p, a, lab):
                    continue
                seen.add(p)
                if p in defs:
                    out.add(p)
                    continue
                if p == g.entry:
                    out.add(None)
                stack.append(p)
        return out

    def resolve(self, e: ast.expr, at: int, depth: int = 0) -> ast.expr:
        """copy of `e` (evaluated at CFG node `at`) with every local replaced by the value of its unique reaching
        definition (all reaching definitions resolving to the same text count as one)."""
        fr = self.fr
        sc = self

        class T(ast.NodeTransformer):
            def visit_Name(self, n):
                if not isinstance(n.ctx, ast.Load) or n.id in fr.opaque or n.id not in fr.defs or depth >= 6:
                    return n
                rd = sc.reaching(n.id, at)
                if not rd or None in rd:
                    return n
                vals = {}
                for d in rd:
                    v = fr.defs[n.id][d]
                    if v is None or not _is_pure(v, True):
                        return n
                    r = sc.resolve(v, d, depth + 1)
                    vals.setdefault(unparse(r), r)
                if len(vals) != 1:
                    return n
                return next(iter(vals.values()))

            def visit_Lambda(self, n):
                return n
        return T().visit(copy.deepcopy(e))


class FlowResolver:
    def __init__(self, g, fnode, canon: Optional[Canon] = None):
        self.g = g
        self.fnode = fnode
        self.canon = canon
        self.defs: Dict[str, Dict[int, Optional[ast.expr]]] = {}
        self.opaque: Set[str] = set()
        for nm, v, st in name_stores(fnode):
            nodes = g.nodes_for(st) if isinstance(st, ast.stmt) else []
            if not nodes or not isinstance(st, (ast.Assign, ast.AnnAssign)):
                self.opaque.add(nm)
                continue
            for n in nodes:
                self.defs.setdefault(nm, {})[n] = v
        for n in ast.walk(fnode):
            if isinstance(n, ast.ExceptHandler) and n.name:
                self.opaque.add(n.name)
            elif isinstance(n, (ast.Global, ast.Nonlocal)):
                self.opaque.update(n.names)
            elif isinstance(n, ast.Delete):
                # `del x` ends the life of x: a read after it is an error, not a stale value; as a definition it
                # has no value, which keeps the name unresolved
                for t in n.targets:
                    if isinstance(t, ast.Name):
                        for k in g.nodes_for(n):
                            self.defs.setdefault(t.id, {})[k] = None

    def scenario(self, **fixed: bool) -> Scenario:
        return Scenario(self, fixed)
