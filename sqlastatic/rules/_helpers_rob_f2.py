"""Helpers of the rob-F2 robustification pass (C37/C38/C39): make handler analyses independent of the *shape* of the code.

* `inline_local_calls` -- follow extracted helpers: calls of sibling closures / module functions are inlined (one or two
  levels) into a private copy of the analysed function, so that "the handler performs X under guard G" is decided on the
  same terms whether X is written in the handler or in a helper it calls.
* `dominating_guards` / `atoms` -- branch outcomes that dominate a node, read from the CFG (early returns, inverted
  if/else, nested ifs) plus the and/or/ternary context inside the statement; boolean locals and aliases with a single
  definition are expanded (`recursing = initiator is tok`, `if not recursing:`).
* `env_of`, `resolve_name` -- single-assignment locals.

Nothing here changes any shared helper; it is only used by c37.py/c38.py/c39.py.
"""

from __future__ import annotations

import ast
import copy
from typing import Callable, Dict, List, Optional, Tuple

from ..astutil import FuncNode, ancestors, lexical_guards, parent_map, unparse, walk_local


# ------------------------------------------------------------------------------------------------ locals
def env_of(fn) -> Dict[str, List[ast.expr]]:
    """name -> [defining expressions] inside fn (tuple unpacking of a tuple literal resolved element-wise;
    a tuple target unpacked from anything else is recorded as `None` = defined but not understood)."""
    env: Dict[str, List[ast.expr]] = {}

    def bind(t, v):
        if isinstance(t, ast.Name):
            env.setdefault(t.id, []).append(v)
        elif isinstance(t, (ast.Tuple, ast.List)):
            if isinstance(v, (ast.Tuple, ast.List)) and len(t.elts) == len(v.elts) and not any(isinstance(e, ast.Starred) for e in t.elts + v.elts):
                for a, b in zip(t.elts, v.elts):
                    bind(a, b)
            else:
                for a in t.elts:
                    bind(a.value if isinstance(a, ast.Starred) else a, None)

    for n in walk_local(fn):
        if isinstance(n, ast.Assign):
            for t in n.targets:
                bind(t, n.value)
        elif isinstance(n, ast.AnnAssign) and n.value is not None:
            bind(n.target, n.value)
        elif isinstance(n, ast.AugAssign):
            bind(n.target, None)
        elif isinstance(n, (ast.For, ast.AsyncFor)):
            bind(n.target, None)
        elif isinstance(n, ast.NamedExpr):
            bind(n.target, n.value)
        elif isinstance(n, (ast.With, ast.AsyncWith)):
            for it in n.items:
                if it.optional_vars is not None:
                    bind(it.optional_vars, None)
    return env


def resolve_name(env, node, depth=4):
    """follow `b = a` aliases (single definition) to the defining expression; returns the node itself otherwise"""
    while depth > 0 and isinstance(node, ast.Name):
        ds = env.get(node.id, [])
        if len(ds) != 1 or ds[0] is None:
            break
        node = ds[0]
        depth -= 1
    return node


# ------------------------------------------------------------------------------------------------ guards
_BOOLISH = (ast.Compare, ast.BoolOp, ast.UnaryOp, ast.Name, ast.Call)
_FLIP = {ast.IsNot: ast.Is, ast.NotEq: ast.Eq, ast.NotIn: ast.In}


def atom_exprs(test: ast.expr, polarity: bool = True, env=None, depth: int = 4) -> List[Tuple[ast.expr, bool]]:
    """Conjunctive atoms (expr, polarity) of a branch outcome, like astutil.test_atoms, but a local with exactly one
    definition that is itself a condition / an alias is replaced by that definition first; `is not`/`!=`/`not in`
    are normalised to the positive operator with flipped polarity."""
    if isinstance(test, ast.UnaryOp) and isinstance(test.op, ast.Not):
        return atom_exprs(test.operand, not polarity, env, depth)
    if isinstance(test, ast.BoolOp):
        if (isinstance(test.op, ast.And) and polarity) or (isinstance(test.op, ast.Or) and not polarity):
            out = []
            for v in test.values:
                out.extend(atom_exprs(v, polarity, env, depth))
            return out
        return [(test, polarity)]
    if isinstance(test, ast.Name) and env is not None and depth > 0:
        ds = env.get(test.id, [])
        if len(ds) == 1 and ds[0] is not None and isinstance(ds[0], _BOOLISH) and not (isinstance(ds[0], ast.Name) and ds[0].id == test.id):
            return atom_exprs(ds[0], polarity, env, depth - 1)
    if isinstance(test, ast.NamedExpr):
        return atom_exprs(test.value, polarity, env, depth)
    if isinstance(test, ast.Compare) and len(test.ops) == 1:
        op = test.ops[0]
        left, right = test.left, test.comparators[0]
        # `"x" == t` is `t == "x"`
        if isinstance(op, (ast.Eq, ast.NotEq)) and isinstance(left, ast.Constant) and not isinstance(right, ast.Constant):
            left, right = right, left
            test = ast.copy_location(ast.Compare(left=left, ops=[op], comparators=[right]), test)
        for neg, pos in _FLIP.items():
            if isinstance(op, neg):
                t2 = ast.copy_location(ast.Compare(left=left, ops=[pos()], comparators=[right]), test)
                return [(t2, not polarity)]
    if isinstance(test, ast.Constant):
        return []  # `while True:` scaffolding of an inlined helper / constant conditions say nothing
    return [(test, polarity)]


def atoms(test: ast.expr, polarity: bool = True, env=None, depth: int = 4, expand: bool = False) -> List[Tuple[str, bool]]:
    return [(unparse(expand_aliases(e, env) if expand and env is not None else e), p)
            for e, p in atom_exprs(test, polarity, env, depth)]


class _AliasExpander(ast.NodeTransformer):
    def __init__(self, env, depth):
        self.env, self.depth = env, depth

    def visit_Name(self, n):
        if not isinstance(n.ctx, ast.Load) or self.depth <= 0:
            return n
        ds = self.env.get(n.id, [])
        if len(ds) == 1 and ds[0] is not None and _is_access_path(ds[0]) and not any(
                isinstance(x, ast.Name) and x.id == n.id for x in ast.walk(ds[0])):
            return _AliasExpander(self.env, self.depth - 1).visit(copy.deepcopy(ds[0]))
        return n


def _is_access_path(e) -> bool:
    """`a`, `a.b.c`, `a.b[k]` with constant/Name subscripts: reading it again gives the same object (pure alias)"""
    while isinstance(e, (ast.Attribute, ast.Subscript)):
        if isinstance(e, ast.Subscript) and not isinstance(e.slice, (ast.Constant, ast.Name, ast.Attribute)):
            return False
        e = e.value
    return isinstance(e, ast.Name)


def expand_aliases(expr, env, depth: int = 3):
    """copy of `expr` in which a local that has exactly one definition, and that definition is a plain access path
    (`cascade = prop.cascade`, `orphans = self.cascade.delete_orphan`), is replaced by the path"""
    return _AliasExpander(env, depth).visit(copy.deepcopy(expr))


def _stmt_of(pm, node):
    cur = node
    while cur is not None and not isinstance(cur, ast.stmt):
        cur = pm.get(cur)
    return cur


def dominating_guards(g, pm, node) -> List[Tuple[ast.expr, bool]]:
    """(test expr, polarity) outcomes under which `node` executes: CFG-dominating branch outcomes of its statement
    (if/elif/else, early return/raise/continue, loops) followed by the and/or/ternary context inside the statement."""
    st = _stmt_of(pm, node)
    out: List[Tuple[ast.expr, bool]] = []
    if st is not None:
        ids = g.nodes_for(st)
        per = []
        for i in ids:
            per.append(g.edge_guards(i))
        if per:
            first = per[0]
            for t, pol in first:
                if all(any(t2 is t and p2 == pol for t2, p2 in other) for other in per[1:]):
                    out.append((t, pol))
        if node is not st:
            out.extend(lexical_guards(pm, node, stop=st))
    return out


def guard_atom_exprs_at(g, pm, node, env=None) -> List[Tuple[ast.expr, bool]]:
    out = []
    for t, pol in dominating_guards(g, pm, node):
        out.extend(atom_exprs(t, pol, env))
    return out


def guard_atoms_at(g, pm, node, env=None, expand: bool = False) -> List[Tuple[str, bool]]:
    return [(unparse(expand_aliases(e, env) if expand and env is not None else e), p)
            for e, p in guard_atom_exprs_at(g, pm, node, env)]


def prune_edges(g, implied_false: Callable[[List[Tuple[str, bool]]], bool], env=None):
    """edge_ok predicate that does not follow (a) exceptional edges and (b) a branch outcome whose atoms satisfy
    `implied_false` (the outcome contradicts the assumption under which the caller asks)."""
    dead = set()
    for n in g.nodes:
        if n.kind != "test" or not hasattr(n.stmt, "test"):
            continue
        for lab, pol in (("true", True), ("false", False)):
            if implied_false(atoms(n.stmt.test, pol, env)):
                dead.add((n.id, lab))

    def ok(a, b, lab):
        return lab != "exc" and (a, lab) not in dead

    return ok


# ------------------------------------------------------------------------------------------------ inlining
class _Rewrite(ast.NodeTransformer):
    def __init__(self, subst, rename):
        self.subst = subst
        self.rename = rename

    def visit_Name(self, n):
        if isinstance(n.ctx, ast.Load) and n.id in self.subst:
            return copy.deepcopy(self.subst[n.id])
        if n.id in self.rename:
            return ast.copy_location(ast.Name(id=self.rename[n.id], ctx=n.ctx), n)
        return n


def _stored_names(fn) -> set:
    out = set()
    for n in walk_local(fn):
        if isinstance(n, ast.Name) and isinstance(n.ctx, (ast.Store, ast.Del)):
            out.add(n.id)
    return out


def _all_names(fn) -> set:
    out = {a.arg for a in fn.args.args + fn.args.kwonlyargs + fn.args.posonlyargs}
    if fn.args.vararg:
        out.add(fn.args.vararg.arg)
    if fn.args.kwarg:
        out.add(fn.args.kwarg.arg)
    for n in ast.walk(fn):
        if isinstance(n, ast.Name):
            out.add(n.id)
    return out


def _bind(call: ast.Call, h) -> Optional[Dict[str, ast.expr]]:
    """parameter -> argument expression, None when the call shape is not understood (* / ** / missing)"""
    a = h.args
    if a.vararg or any(isinstance(x, ast.Starred) for x in call.args) or any(k.arg is None for k in call.keywords):
        return None
    pos = list(a.posonlyargs) + list(a.args)
    if len(call.args) > len(pos):
        return None
    out: Dict[str, ast.expr] = {}
    for p, v in zip(pos, call.args):
        out[p.arg] = v
    names = {p.arg for p in pos} | {p.arg for p in a.kwonlyargs}
    for k in call.keywords:
        if k.arg not in names:
            if a.kwarg:
                continue
            return None
        if k.arg in out:
            return None
        out[k.arg] = k.value
    dpos = dict(zip([p.arg for p in pos][len(pos) - len(a.defaults):], a.defaults)) if a.defaults else {}
    dkw = {p.arg: d for p, d in zip(a.kwonlyargs, a.kw_defaults) if d is not None}
    for p in names:
        if p not in out:
            d = dpos.get(p, dkw.get(p))
            if d is None:
                return None
            out[p] = d
    return out


def _strip_doc(body):
    if body and isinstance(body[0], ast.Expr) and isinstance(body[0].value, ast.Constant) and isinstance(body[0].value.value, str):
        return body[1:]
    return body


def _returns(body) -> List[ast.Return]:
    out = []
    for st in body:
        if isinstance(st, FuncNode + (ast.ClassDef,)):
            continue
        if isinstance(st, ast.Return):
            out.append(st)
            continue
        for n in walk_local(st):
            if isinstance(n, ast.Return):
                out.append(n)
    return out


def _return_in_loop(body) -> bool:
    def go(stmts, in_loop):
        for st in stmts:
            if isinstance(st, ast.Return) and in_loop:
                return True
            if isinstance(st, FuncNode + (ast.ClassDef,)):
                continue
            for fld in ("body", "orelse", "finalbody"):
                sub = getattr(st, fld, None)
                if isinstance(sub, list) and sub and isinstance(sub[0], ast.stmt):
                    if go(sub, in_loop or isinstance(st, (ast.For, ast.AsyncFor, ast.While))):
                        return True
            for hd in getattr(st, "handlers", []) or []:
                if go(hd.body, in_loop):
                    return True
            for case in getattr(st, "cases", []) or []:
                if go(case.body, in_loop):
                    return True
        return False

    return go(body, False)


class _ReturnRewriter(ast.NodeTransformer):
    """replace `return V` of an inlined body by `make(V)` statements (+ break)"""

    def __init__(self, make, with_break):
        self.make = make
        self.with_break = with_break

    def visit_FunctionDef(self, n):
        return n

    visit_AsyncFunctionDef = visit_FunctionDef
    visit_Lambda = visit_FunctionDef
    visit_ClassDef = visit_FunctionDef

    def visit_Return(self, n):
        out = list(self.make(n))
        if self.with_break:
            out.append(ast.copy_location(ast.Break(), n))
        if not out:
            out.append(ast.copy_location(ast.Pass(), n))
        return out


def _instantiate(call, h, caller_names, tag):
    """(prologue stmts, body stmts) of helper h specialised to `call`, or None"""
    b = _bind(call, h)
    if b is None:
        return None
    stored = _stored_names(h)
    params = set(b)
    subst = {}
    rename = {}
    pro = []
    for nm in sorted(stored | params):
        if nm in params and nm not in stored:
            continue
        if nm in caller_names:
            rename[nm] = f"{nm}__{tag}"
    for p, v in b.items():
        if p in stored:
            tgt = ast.Name(id=rename.get(p, p), ctx=ast.Store())
            pro.append(ast.copy_location(ast.Assign(targets=[tgt], value=copy.deepcopy(v)), call))
        elif not (isinstance(v, ast.Name) and v.id == p):
            subst[p] = v
    body = [copy.deepcopy(s) for s in _strip_doc(h.body)]
    rw = _Rewrite(subst, rename)
    body = [rw.visit(s) for s in body]
    # nonlocal/global declarations have no meaning once inlined
    body = [s for s in body if not isinstance(s, (ast.Nonlocal, ast.Global))]
    return pro, body


def _top_call(st) -> Optional[ast.Call]:
    if isinstance(st, ast.Expr) and isinstance(st.value, ast.Call):
        return st.value
    if isinstance(st, (ast.Assign, ast.Return)) and isinstance(st.value, ast.Call):
        return st.value
    if isinstance(st, ast.AnnAssign) and isinstance(st.value, ast.Call):
        return st.value
    return None


def _callee(resolve, call):
    """(helper FunctionDef | None, call with the receiver of a method call prepended to the arguments).
    `resolve(call)` returns None, a FunctionDef (plain function: `f(..)`), or (FunctionDef, receiver expr) for a
    method whose first parameter is bound to the receiver (`self.helper(..)`)."""
    r = resolve(call)
    if r is None:
        return None, call
    if isinstance(r, tuple):
        h, recv = r
        if recv is not None:
            call = ast.copy_location(ast.Call(func=call.func, args=[recv] + list(call.args), keywords=list(call.keywords)), call)
        return h, call
    return r, call


def _inline_stmt(st, resolve, caller_names, counter):
    """list of statements replacing `st`, or None when st is not a direct call of a resolvable helper"""
    call = _top_call(st)
    if call is None:
        return None
    h, call = _callee(resolve, call)
    if h is None:
        return None
    counter[0] += 1
    tag = f"{h.name.strip('_')}{counter[0]}"
    inst = _instantiate(call, h, caller_names, tag)
    if inst is None:
        return None
    pro, body = inst
    rets = _returns(body)
    if isinstance(st, ast.Return):
        # a fall-off-the-end of the helper returns None from the caller as well
        tail = [] if (body and isinstance(body[-1], (ast.Return, ast.Raise))) else [ast.copy_location(ast.Return(value=None), st)]
        return pro + body + tail
    if isinstance(st, ast.Expr):
        def make(r):
            return [ast.copy_location(ast.Expr(value=r.value), r)] if (r.value is not None and any(isinstance(x, ast.Call) for x in ast.walk(r.value))) else []
        fall = []
    else:
        targets = st.targets if isinstance(st, ast.Assign) else [st.target]

        def make(r):
            v = r.value if r.value is not None else ast.Constant(value=None)
            return [ast.copy_location(ast.Assign(targets=[copy.deepcopy(t) for t in targets], value=v), r)]
        fall = [ast.copy_location(ast.Assign(targets=[copy.deepcopy(t) for t in targets], value=ast.Constant(value=None)), st)]
    only_tail = not rets or (len(rets) == 1 and body and rets[0] is body[-1])
    if only_tail:
        new = []
        for s in body:
            if isinstance(s, ast.Return):
                new.extend(make(s))
            else:
                new.append(s)
        if not rets:
            new.extend(fall)
        return pro + (new or [ast.copy_location(ast.Pass(), st)])
    if _return_in_loop(body):
        return None
    rr = _ReturnRewriter(make, True)
    new = []
    for s in body:
        r = rr.visit(s)
        new.extend(r if isinstance(r, list) else [r])
    if not (new and isinstance(new[-1], (ast.Break, ast.Raise))):
        new.extend(fall)
        new.append(ast.copy_location(ast.Break(), st))
    loop = ast.copy_location(ast.While(test=ast.Constant(value=True), body=new, orelse=[]), st)
    loop._inline_scaffold = True  # not a loop of the program: every path through the body leaves it
    return pro + [loop]


def _pure_expr_helper(h):
    """(assign stmts, returned expr) when the helper is `a = ..; b = ..; return <expr>` (straight line), else None"""
    body = _strip_doc(h.body)
    if not body or not isinstance(body[-1], ast.Return) or body[-1].value is None:
        return None
    for s in body[:-1]:
        if not (isinstance(s, ast.Assign) or (isinstance(s, ast.AnnAssign) and s.value is not None)):
            return None
    return body[:-1], body[-1]


class _ExprInliner(ast.NodeTransformer):
    def __init__(self, resolve, caller_names, counter):
        self.resolve = resolve
        self.caller_names = caller_names
        self.counter = counter
        self.hoisted: List[ast.stmt] = []
        self.n = 0

    def visit_FunctionDef(self, n):
        return n

    visit_AsyncFunctionDef = visit_FunctionDef
    visit_Lambda = visit_FunctionDef
    visit_ClassDef = visit_FunctionDef

    def visit_Call(self, c):
        self.generic_visit(c)
        h, bound = _callee(self.resolve, c)
        if h is None or _pure_expr_helper(h) is None:
            return c
        self.counter[0] += 1
        inst = _instantiate(bound, h, self.caller_names, f"{h.name.strip('_')}{self.counter[0]}")
        if inst is None:
            return c
        pro, body = inst
        self.hoisted.extend(pro + body[:-1])
        self.n += 1
        return body[-1].value


def _walk_blocks(fn):
    """yield every statement list of fn (not of nested scopes)"""
    stack = [fn.body]
    while stack:
        blk = stack.pop()
        yield blk
        for st in blk:
            if isinstance(st, (ast.FunctionDef, ast.AsyncFunctionDef, ast.ClassDef)):
                continue
            for fld in ("body", "orelse", "finalbody"):
                sub = getattr(st, fld, None)
                if isinstance(sub, list) and sub and isinstance(sub[0], ast.stmt):
                    stack.append(sub)
            for hd in getattr(st, "handlers", []) or []:
                stack.append(hd.body)
            for case in getattr(st, "cases", []) or []:
                stack.append(case.body)


def by_name(table: Callable[[str], Optional[ast.FunctionDef]]):
    """resolver for plain-name callees: `helper(..)`"""
    def resolve(call):
        return table(call.func.id) if isinstance(call.func, ast.Name) else None
    return resolve


def inline_local_calls(fn, resolve, depth: int = 3):
    """A private deep copy of `fn` in which calls of helpers that `resolve(call)` knows (sibling closures, module
    functions) are replaced by the helper's body, parameters bound to the arguments:

    * `helper(..)` / `x = helper(..)` / `return helper(..)` as a whole statement: the body is spliced in; a `return`
      in the middle of the helper becomes `break` out of a `while True:` block (assignment of the value for `x = ..`);
    * `helper(..)` inside an expression, when the helper is straight-line assignments + `return <expr>`: the
      assignments are hoisted before the statement and the call is replaced by the expression.

    Returns (copy, number of call sites inlined).  Helpers whose shape is not understood are left as calls."""
    new = copy.deepcopy(fn)
    total = 0
    counter = [0]
    own = fn.name

    def res(call):
        r = resolve(call)
        h = r[0] if isinstance(r, tuple) else r
        if h is None or h is fn or h.name == own:
            return None
        return r

    for _ in range(depth):
        changed = 0
        caller_names = _all_names(new)
        for blk in list(_walk_blocks(new)):
            i = 0
            while i < len(blk):
                st = blk[i]
                rep = _inline_stmt(st, res, caller_names, counter)
                if rep is None and not isinstance(st, (ast.While, ast.For, ast.AsyncFor, ast.FunctionDef, ast.AsyncFunctionDef, ast.ClassDef, ast.Try, ast.With, ast.AsyncWith)):
                    ei = _ExprInliner(res, caller_names, counter)
                    if isinstance(st, ast.If):
                        st.test = ei.visit(st.test)
                    else:
                        ei.generic_visit(st)
                    if ei.hoisted:
                        blk[i:i] = ei.hoisted
                        i += len(ei.hoisted)
                    changed += ei.n
                    i += 1
                    continue
                if rep is None:
                    i += 1
                    continue
                blk[i:i + 1] = rep
                i += len(rep)
                changed += 1
        total += changed
        if not changed:
            break
    ast.fix_missing_locations(new)
    return new, total
