"""C32 -- A failed flush leaves the session recoverable (failure-path obligations)."""

from __future__ import annotations

import ast
from typing import List, Optional

from ..astutil import (
    ancestors, call_name, calls_in, calls_named, dotted, enclosing_stmt, enclosing_try, lexical_guards, name_stores, parent_map,
    test_atoms, unparse, walk_local, walk_stmts,
)
from ..report import Registry, chain, sub
from ._helpers_rob_b1 import (
    bindings, dominating_guards, expand_test, expanded_atoms, inline_helpers, resolve_alias, resolved_dotted,
)
from ._helpers_rules_d import (
    attr_store_nodes, call_nodes, callee_is, const_is, ends_with_name, guard_atom_set, is_catch_all, kw, lexically_inside,
)  # noqa: F401

R = Registry(
    "C32",
    title="A failed flush leaves the database untouched and the session recoverable",
    decides=(
        "Session._flush runs execute()..commit() inside one try whose catch-all handler rolls the flush "
        "subtransaction back (capturing the exception) under safe_reraise, on every exceptional path; objects are "
        "marked flushed only after execute() completed normally; Session.flush resets its re-entrancy flag on every "
        "exit; SessionTransaction.rollback restores the snapshot and deactivates the transaction even when the "
        "connection rollback raises, and re-raises that error afterwards; a deactivated transaction refuses "
        "further work with the documented errors; _restore_snapshot undoes new / deleted / key-switched objects and "
        "expires the rest, and does not re-key an object it has just made transient; InstanceState._expire (what the "
        "rollback uses to discard in-memory changes) empties every unflushed-change buffer that a successful flush "
        "empties, and _expire_attributes removes the expired key from each of them; Session-side maintenance of the "
        "transaction's bookkeeping maps does not depend on the kind of the current transaction (a flush "
        "subtransaction shares its parent's maps); the operations that issue statements inside a live transaction "
        "(connection, _connection_for_bind, _begin) leave it, on every exit, in a state from which the rollback that "
        "Session._flush's handler performs is admissible; the undo of new objects (_expunge_states) copes with states "
        "that a failed Session._register_persistent left both pending and registered in the identity map."
    ),
    not_decided="equality of post-rollback object state with the database; behaviour of the DBAPI connection itself.",
)

SESSION = "orm/session.py"
SC = "orm/state_changes.py"
ST = f"{SESSION}::SessionTransaction"
BOOKKEEPING = ("_new", "_deleted", "_dirty", "_key_switches")


def _atoms(ctx, f, g, nid) -> set:
    """branch outcomes dominating a CFG node as (atom text, polarity), with single-assignment locals
    (`exc = self._rollback_exception`, `parent = self._parent`) and predicate helpers expanded"""
    return set(expanded_atoms(ctx, f, g.edge_guards(nid)))


def _local_bound_to_call(fn_node, callee_suffix: str) -> List[str]:
    out = []
    for st in walk_stmts(fn_node.body):
        if isinstance(st, ast.Assign) and isinstance(st.value, ast.Call) and callee_is(st.value, callee_suffix):
            for t in st.targets:
                if isinstance(t, ast.Name):
                    out.append(t.id)
    return out


def _method_call_on(c: ast.Call, recv_names, method: str) -> bool:
    return isinstance(c.func, ast.Attribute) and c.func.attr == method and isinstance(c.func.value, ast.Name) and c.func.value.id in recv_names


@R.rule("C32-R1", floor=5, template="T-PATH",
        desc="Session._flush: execute()..commit() inside one try; catch-all handler rolls back with "
             "_capture_exception under safe_reraise on every exceptional path; finalize_flush_changes() only after "
             "execute() completed normally; commit() is the last statement of the try")
def r1(ctx):
    f = inline_helpers(ctx, ctx.func(f"{SESSION}::Session._flush"))   # statement-level private helpers read in place
    g = ctx.cfg(f.node)
    pm = parent_map(f.node)
    fcs = _local_bound_to_call(f.node, "UOWTransaction")
    txs = _local_bound_to_call(f.node, "_begin")
    ctx.require(fcs and txs, "_flush does not bind a UOWTransaction and a begun subtransaction to locals")
    exec_n = call_nodes(g, lambda c: _method_call_on(c, fcs, "execute"))
    fin_n = call_nodes(g, lambda c: _method_call_on(c, fcs, "finalize_flush_changes"))
    commit_n = call_nodes(g, lambda c: _method_call_on(c, txs, "commit"))
    rb_n = call_nodes(g, lambda c: _method_call_on(c, txs, "rollback"))
    ctx.require(exec_n and fin_n and commit_n, "_flush lacks execute()/finalize_flush_changes()/commit() calls")
    exec_stmt = g.node(exec_n[0]).stmt
    # (a) one try around execute()..commit(), commit last
    T = None
    for t, part in enclosing_try(pm, exec_stmt):
        if part == "body" and t.handlers:
            last = t.body[-1]
            if isinstance(last, ast.Expr) and isinstance(last.value, ast.Call) and _method_call_on(last.value, txs, "commit"):
                T = t
    ctx.check(T is not None, f"{f.key}:try-execute-to-commit",
              "flush_context.execute() and transaction.commit() are not inside one try whose last statement is the commit",
              "try: ... execute() ... finalize ... commit()", f.loc)
    if T is None:
        cands = [t for t, part in enclosing_try(pm, exec_stmt) if part == "body" and t.handlers]
        T = cands[-1] if cands else None
    if T is None:
        ctx.violation(f"{f.key}:handler", "no exception handler around flush_context.execute()", f.loc)
        ctx.violation(f"{f.key}:exceptional-paths-roll-back", "no exception handler around flush_context.execute()", f.loc)
        return
    # (b) handlers
    bad = []
    catch_all = False
    for h in T.handlers:
        ok_h = False
        for st in h.body:
            if isinstance(st, ast.With) and any(isinstance(i.context_expr, ast.Call) and callee_is(i.context_expr, "safe_reraise") for i in st.items):
                for c in calls_in(st):
                    if _method_call_on(c, txs, "rollback") and const_is(kw(c, "_capture_exception"), True):
                        ok_h = True
        if not ok_h:
            bad.append(f"handler `except {unparse(h.type) if h.type else ''}` does not roll back with _capture_exception=True under util.safe_reraise()")
        catch_all = catch_all or (is_catch_all(h) and ok_h)
    ctx.check(catch_all and not bad, f"{f.key}:handler",
              "; ".join(bad) or "no catch-all (bare / BaseException) handler: KeyboardInterrupt-class errors leave the subtransaction open",
              "except: with util.safe_reraise(): transaction.rollback(_capture_exception=True)", f.loc)
    # (c) every exceptional edge leaving the try body reaches the rollback before leaving the function
    body_nodes = [n.id for n in g.nodes if n.stmt is not None and n.kind not in ("handler",) and lexically_inside(pm, n.stmt, T.body)]
    starts = [n for n in body_nodes if g.exc_succ(n)]
    # entering `with util.safe_reraise():` is not treated as a raising statement (trusted idiom)
    sr_enter = {n.id for n in g.nodes if n.kind == "with_enter" and any(
        isinstance(i.context_expr, ast.Call) and callee_is(i.context_expr, "safe_reraise") for i in n.stmt.items)}
    w = g.must_pass(starts, [g.exit, g.raise_exit], rb_n, start_edge_ok=lambda a, b, l: l == "exc",
                    edge_ok=lambda a, b, l: not (a in sr_enter and l == "exc"))
    ctx.check(w is None and bool(rb_n), f"{f.key}:exceptional-paths-roll-back",
              "an exception raised between execute() and commit() can leave _flush without transaction.rollback()",
              f"{len(starts)} raising statements, all routed through rollback()", f.loc, w)
    # (d) finalize only after normal completion of execute
    w = g.always_preceded(fin_n[0], exec_n)
    from_exc = set()
    for n in exec_n:
        from_exc |= g.reachable(g.exc_succ(n))
    ctx.check(w is None and fin_n[0] not in from_exc, f"{f.key}:finalize-after-execute",
              "finalize_flush_changes() (marks objects persistent/clean) is reachable without a normally completed execute()",
              "dominated by execute(); unreachable from its exceptional edge", f.loc, w)
    # (e) commit after finalize
    w = g.always_preceded(commit_n[-1], fin_n)
    ctx.check(w is None, f"{f.key}:commit-after-finalize", "transaction.commit() can run before finalize_flush_changes()",
              "commit() dominated by finalize_flush_changes()", f.loc, w)


@R.rule("C32-R2", floor=3, template="T-PATH",
        desc="Session.flush: _flushing is set before _flush() runs and reset on every exit; re-entrant flush is refused")
def r2(ctx):
    f = ctx.func(f"{SESSION}::Session.flush")
    g = ctx.cfg(f)
    sets = attr_store_nodes(g, "_flushing", lambda v: const_is(v, True), "self")
    resets = attr_store_nodes(g, "_flushing", lambda v: const_is(v, False), "self")
    calls = call_nodes(g, lambda c: callee_is(c, "self._flush"))
    ctx.require(sets and calls, "Session.flush does not set _flushing / call _flush")
    w = g.must_pass(sets, [g.exit, g.raise_exit], resets)
    ctx.check(w is None and bool(resets), f"{f.key}:reset-on-every-exit", "a path leaves flush() with _flushing still True", "reset in finally", f.loc, w)
    w = g.always_preceded(calls[0], sets)
    ctx.check(w is None, f"{f.key}:set-before-_flush", "_flush() can run without _flushing set", "set before _flush()", f.loc, w)
    raises = g.find(lambda n: n.kind == "stmt" and isinstance(n.stmt, ast.Raise))
    guarded = [n for n in raises if ("self._flushing", True) in _atoms(ctx, f, g, n)]
    ok_set = all(("self._flushing", False) in _atoms(ctx, f, g, n) for n in sets)
    ctx.check(bool(guarded) and ok_set, f"{f.key}:reentrancy", "flush() does not refuse a re-entrant call while _flushing", "raises when already flushing", f.loc)


def check_rollback_restores(ctx):
    """C32-R3 == C33-R3: SessionTransaction.rollback restores the snapshot in the `finally` of the
    connection-rollback try, deactivates on every path and re-raises a rollback error afterwards."""
    f = ctx.func(f"{ST}.rollback")
    g = ctx.cfg(f)
    pm = f.module.parents()
    # connection rollbacks: `.rollback()` calls inside a loop over `<t>._connections`
    conn_loops = [n for n in walk_local(f.node) if isinstance(n, ast.For) and "._connections" in unparse(n.iter)]
    ctx.require(conn_loops, "rollback() has no loop over the transaction's connections")
    lp = conn_loops[0]
    owner = None
    for n in ast.walk(lp.iter):
        if isinstance(n, ast.Attribute) and n.attr == "_connections":
            owner = dotted(n.value)
    ctx.require(owner, "cannot determine whose _connections are rolled back")
    rb = [nid for nid in call_nodes(g, lambda c: isinstance(c.func, ast.Attribute) and c.func.attr == "rollback")
          if lexically_inside(pm, g.node(nid).stmt, lp.body)]
    ctx.require(rb, "no connection-level rollback() call in the loop")
    restore = call_nodes(g, lambda c: isinstance(c.func, ast.Attribute) and c.func.attr == "_restore_snapshot" and dotted(c.func.value) == owner)
    deact = attr_store_nodes(g, "_state", lambda v: ends_with_name(v, "DEACTIVE"), owner)
    starts = rb + [lp_n for lp_n in g.nodes_for(lp)]
    w = g.must_pass(starts, [g.exit, g.raise_exit], restore)
    ctx.check(w is None and bool(restore), f"{f.key}:restore-on-every-path",
              "a path from the connection rollback (including its failure) leaves rollback() without _restore_snapshot()",
              "_restore_snapshot() on every path, incl. exceptional", f.loc, w)
    w = g.must_pass(starts, [g.exit, g.raise_exit], deact)
    ctx.check(w is None and bool(deact), f"{f.key}:deactive-on-every-path",
              "a path from the connection rollback leaves the transaction without _state = DEACTIVE", "DEACTIVE on every path", f.loc, w)
    # lexical confirmation: in the finally of the try that contains the connection rollback, dirty_only=<owner>.nested
    fin_ok = False
    for t, part in enclosing_try(pm, g.node(rb[0]).stmt):
        if part == "body" and t.finalbody:
            for c in calls_in(ast.Module(body=t.finalbody, type_ignores=[])):
                if isinstance(c.func, ast.Attribute) and c.func.attr == "_restore_snapshot" and dotted(c.func.value) == owner:
                    d = kw(c, "dirty_only") or (c.args[0] if c.args else None)
                    fin_ok = d is not None and dotted(d) == f"{owner}.nested"
    ctx.check(fin_ok, f"{f.key}:restore-in-finally",
              "_restore_snapshot(dirty_only=<transaction>.nested) is not in the finally of the connection-rollback try",
              f"finally: {owner}._restore_snapshot(dirty_only={owner}.nested)", f.loc)
    # a failed connection rollback is remembered and re-raised after close()
    errs = [n for n, v, st in name_stores(f.node) if isinstance(v, ast.Call) and callee_is(v, "exc_info")]
    raises = g.find(lambda n: n.kind == "stmt" and isinstance(n.stmt, ast.Raise) and n.stmt.exc is not None and any(isinstance(x, ast.Name) and x.id in errs for x in ast.walk(n.stmt.exc)))
    closes = call_nodes(g, lambda c: callee_is(c, "self.close"))
    good = bool(raises) and bool(closes) and all(g.always_preceded(r, closes) is None for r in raises)
    ctx.check(good, f"{f.key}:reraise-after-close",
              "an error raised by the connection rollback is not re-raised after the transaction has been closed",
              "rollback error captured, re-raised after close()", f.loc)


@R.rule("C32-R3", floor=4, template="T-PATH",
        desc="SessionTransaction.rollback: snapshot restored in the finally of the connection-rollback try "
             "(dirty_only=nested), DEACTIVE on every path, rollback error re-raised after close()")
def r3(ctx):
    check_rollback_restores(ctx)


def declared_methods(ctx):
    """{method name: (FuncInfo, prerequisite names or 'ANY', moves_to name)} for @declare_states methods."""
    cls = ctx.index.cls(ST)
    out = {}
    for name, f in cls.methods.items():
        for d in f.node.decorator_list:
            if isinstance(d, ast.Call) and (call_name(d) or "").endswith("declare_states"):
                ctx.require(len(d.args) == 2, f"{f.key}: declare_states with {len(d.args)} args")
                pre, to = d.args
                if isinstance(pre, ast.Tuple):
                    pres = []
                    for e in pre.elts:
                        dd = dotted(e)
                        ctx.require(dd is not None, f"{f.key}: prerequisite `{unparse(e)}` is not a state constant")
                        pres.append(dd)
                else:
                    dd = dotted(pre)
                    ctx.require(dd is not None and dd.endswith(".ANY"), f"{f.key}: prerequisite `{unparse(pre)}` not understood")
                    pres = "ANY"
                out[name] = (f, pres, dotted(to))
    return out


RECOVERY_METHODS = {
    "rollback": "the documented way out of a deactivated transaction",
    "close": "closing is allowed from any state",
}


@R.rule("C32-R4", floor=9, template="T-GUARD",
        desc="a deactivated transaction refuses work: the state-change decorator checks the prerequisite states before "
             "running the method, SessionTransaction._raise_for_prerequisite_state always raises (PendingRollbackError "
             "when a flush error was captured), SQL-emitting methods exclude DEACTIVE/CLOSED, and rollback() records "
             "the captured exception on the parent")
def r4(ctx):
    # (a) decorator
    dec = ctx.func(f"{SC}::_StateChange.declare_states")
    go = None
    for n in ast.walk(dec.node):
        if isinstance(n, ast.FunctionDef) and n is not dec.node and any(a.arg == "fn" for a in n.args.args):
            go = n
    ctx.require(go is not None, "declare_states has no inner wrapper taking `fn`")
    g = ctx.cfg(go)
    fn_calls = call_nodes(g, lambda c: isinstance(c.func, ast.Name) and c.func.id == "fn")
    ctx.require(fn_calls, "wrapper never calls fn")
    cur = [n for n, v, st in name_stores(go) if v is not None and dotted(v) == "self._state"]
    tests = []
    for n in walk_local(go):
        if isinstance(n, ast.If) and any(callee_is(c, "_raise_for_prerequisite_state") for s in n.body for c in calls_in(s)):
            tests.append(n)
    good = False
    if tests:
        t = tests[0].test
        atoms = test_atoms(t, True)
        member = any(any(a == f"{c} in {coll}" and pol is False for a, pol in atoms) for c in cur for coll in ("prerequisite_state_collection", "prerequisite_states"))
        dominated = all(any(tt is t and pol is False for tt, pol in g.edge_guards(n)) for n in fn_calls)
        good = member and dominated
    ctx.check(good, f"{dec.key}:prerequisite-check",
              "the wrapped method can run although self._state is not among the declared prerequisite states",
              "fn() is only reached when the prerequisite test failed to raise", dec.loc)
    # (b) the raiser
    rf = ctx.func(f"{ST}._raise_for_prerequisite_state")
    g = ctx.cfg(rf)
    ctx.check(g.exit not in g.reachable([g.entry]), f"{rf.key}:always-raises", "_raise_for_prerequisite_state can return normally", "raises on every path", rf.loc)
    pend = g.find(lambda n: n.kind == "stmt" and isinstance(n.stmt, ast.Raise) and n.stmt.exc is not None
                  and "PendingRollbackError" in unparse(resolve_alias(rf.node, n.stmt.exc)).split("(")[0])
    state_param = rf.params[2] if len(rf.params) > 2 else "state"
    good = False
    for n in pend:
        # branch outcomes that dominate the raise (if/else either way round, guard clause + fall-through raise),
        # with a local that snapshots self._rollback_exception resolved
        atoms = _atoms(ctx, rf, g, n)
        deactive = any(p and a.endswith("DEACTIVE") and (a.startswith(f"{state_param} is ") or a.startswith(f"{state_param} == ")) for a, p in atoms)
        captured = ("self._rollback_exception", True) in atoms or ("self._rollback_exception is None", False) in atoms
        good = good or (deactive and captured)
    ctx.check(good, f"{rf.key}:pending-rollback-error",
              "PendingRollbackError is not raised exactly for state DEACTIVE with a captured _rollback_exception",
              "DEACTIVE and _rollback_exception -> PendingRollbackError", rf.loc)
    # (c) declared prerequisites
    decl = declared_methods(ctx)
    ctx.require(len(decl) >= 7, f"only {len(decl)} @declare_states methods on SessionTransaction")
    for name, (f, pres, to) in sorted(decl.items()):
        if name in RECOVERY_METHODS:
            continue
        bad = pres == "ANY" or any(p.rsplit(".", 1)[-1] in ("DEACTIVE", "CLOSED") for p in pres)
        ctx.check(not bad, f"{f.key}:prerequisites", f"{name}() may run in a deactivated/closed transaction (prerequisites {pres})",
                  f"prerequisites {[p.rsplit('.', 1)[-1] for p in pres]}", f.loc)
    # (d) capture
    rb = ctx.func(f"{ST}.rollback")
    g = ctx.cfg(rb)
    stores = attr_store_nodes(g, "_rollback_exception")
    good = False
    for n in stores:
        st = g.node(n).stmt
        atoms = _atoms(ctx, rb, g, n)
        tgt_parent = any(isinstance(t, ast.Attribute) and resolved_dotted(rb.node, t.value) == "self._parent" for t in st.targets)
        good = good or (tgt_parent and ("_capture_exception", True) in atoms and "exc_info" in unparse(resolve_alias(rb.node, st.value)))
    ctx.check(good, f"{rb.key}:captures-exception",
              "rollback(_capture_exception=True) does not record the in-flight exception on the parent transaction",
              "self._parent._rollback_exception = sys.exc_info()[1] under _capture_exception", rb.loc)


def _tv3(expr, val_of):
    """three-valued truth of a condition (True / False / None = unknown) given the value of its atoms"""
    if isinstance(expr, ast.UnaryOp) and isinstance(expr.op, ast.Not):
        v = _tv3(expr.operand, val_of)
        return None if v is None else not v
    if isinstance(expr, ast.BoolOp):
        vals = [_tv3(v, val_of) for v in expr.values]
        if isinstance(expr.op, ast.And):
            return False if any(v is False for v in vals) else (True if all(v is True for v in vals) else None)
        return True if any(v is True for v in vals) else (False if all(v is False for v in vals) else None)
    return val_of(expr)


@R.rule("C32-R5", floor=6, template="T-FLOW",
        desc="_restore_snapshot expunges the new objects, restores key switches, reverts deletions, expires the "
             "remaining identity-map states, reads exactly the bookkeeping maps that _take_snapshot binds, and never "
             "re-keys a state it has just expunged to transient")
def r5(ctx):
    f = ctx.func(f"{ST}._restore_snapshot")
    body = f.node
    binds = {n: v for n, v, st in name_stores(body) if v is not None}

    def mentions(expr, attr, depth=0):
        if any(isinstance(n, ast.Attribute) and n.attr == attr and dotted(n.value) == "self" for n in ast.walk(expr)):
            return True
        if depth < 3:
            for n in ast.walk(expr):
                if isinstance(n, ast.Name) and n.id in binds and mentions(binds[n.id], attr, depth + 1):
                    return True
        return False

    # (a) new objects expunged to transient
    good = False
    for c in calls_named(body, "_expunge_states"):
        if c.args and mentions(c.args[0], "_new") and const_is(kw(c, "to_transient"), True):
            good = True
    ctx.check(good, f"{f.key}:expunge-new", "objects added in the transaction (self._new) are not expunged to transient", "_expunge_states(self._new | session._new, to_transient=True)", f.loc)
    # (b) key switches restored to the OLD key
    good = False
    for lp in [n for n in walk_local(body) if isinstance(n, ast.For)]:
        if mentions(lp.iter, "_key_switches") and isinstance(lp.target, ast.Tuple) and len(lp.target.elts) == 2:
            s = lp.target.elts[0]
            second = lp.target.elts[1]
            olds = set()   # spellings of the FIRST component of the (old key, new key) entry
            if isinstance(second, ast.Tuple) and second.elts:
                olds.add(unparse(second.elts[0]))
            elif isinstance(second, ast.Name):
                olds.add(f"{second.id}[0]")
                for st in walk_stmts(lp.body):
                    if isinstance(st, ast.Assign) and len(st.targets) == 1 and isinstance(st.targets[0], ast.Tuple) and st.targets[0].elts \
                            and isinstance(st.value, ast.Name) and st.value.id == second.id:
                        olds.add(unparse(st.targets[0].elts[0]))
                    elif isinstance(st, ast.Assign) and len(st.targets) == 1 and isinstance(st.targets[0], ast.Name) and unparse(st.value) == f"{second.id}[0]":
                        olds.add(st.targets[0].id)
            for st in walk_stmts(lp.body):
                if isinstance(st, ast.Assign) and any(isinstance(t, ast.Attribute) and t.attr == "key" and unparse(t.value) == unparse(s) for t in st.targets) and unparse(st.value) in olds:
                    good = True
    ctx.check(good, f"{f.key}:restore-key-switches", "primary-key switches are not undone with the first (original) key of each _key_switches entry", "s.key = oldkey", f.loc)
    # (c) deletions reverted
    good = False
    for lp in [n for n in walk_local(body) if isinstance(n, ast.For)]:
        if mentions(lp.iter, "_deleted") and isinstance(lp.target, ast.Name):
            for c in calls_named(lp, "_update_impl"):
                if c.args and unparse(c.args[0]) == lp.target.id and const_is(kw(c, "revert_deletion"), True):
                    good = True
    ctx.check(good, f"{f.key}:revert-deleted", "objects deleted in the transaction (self._deleted) are not restored to persistent", "_update_impl(s, revert_deletion=True) for self._deleted | session._deleted", f.loc)
    # (d) the rest is expired (all of it unless dirty_only): decided on the branch outcomes that dominate the
    #     `<state>._expire(..)` call in a loop over identity_map.all_states() -- `if c: expire`, `if not c: continue`,
    #     split or De-Morganed conditions are the same thing.  Whenever (not dirty_only or modified or in _dirty) holds
    #     the call must run.
    good = False
    g5 = ctx.cfg(f)
    pm5 = f.module.parents()
    b5 = bindings(body)
    dirty_p = f.params[1] if len(f.params) > 1 else "dirty_only"
    for lp in [n for n in walk_local(body) if isinstance(n, ast.For)]:
        if not ("all_states" in unparse(resolve_alias(body, lp.iter, b5)) and isinstance(lp.target, ast.Name)):
            continue
        X = lp.target.id
        for c in calls_in(lp):
            if not (isinstance(c.func, ast.Attribute) and c.func.attr == "_expire" and unparse(c.func.value) == X):
                continue
            st = enclosing_stmt(pm5, c)
            guards = [(expand_test(ctx, f, t, b5), pol) for t, pol in dominating_guards(g5, pm5, body, c, st)
                      if any(t is x for x in ast.walk(lp))]

            def val(e, A):
                if isinstance(e, ast.Name) and e.id == dirty_p:
                    return A[0]
                if isinstance(e, ast.Attribute) and e.attr == "modified" and unparse(e.value) == X:
                    return A[1]
                if isinstance(e, ast.Compare) and len(e.ops) == 1 and isinstance(e.ops[0], (ast.In, ast.NotIn)) and unparse(e.left) == X \
                        and mentions(e.comparators[0], "_dirty"):
                    return A[2] if isinstance(e.ops[0], ast.In) else not A[2]
                return None

            ok_all = True
            for A in [(a, b_, c_) for a in (False, True) for b_ in (False, True) for c_ in (False, True)]:
                expected = (not A[0]) or A[1] or A[2]
                runs = all(_tv3(t, lambda e: val(e, A)) == pol for t, pol in guards)
                if expected and not runs:
                    ok_all = False
            good = good or ok_all
    ctx.check(good, f"{f.key}:expire-rest", "remaining identity-map states are not expired (all of them unless dirty_only, then modified/_dirty ones)",
              "expire when not dirty_only or modified or in self._dirty", f.loc)
    # (e) reader/writer agreement with _take_snapshot
    ts = ctx.func(f"{ST}._take_snapshot")
    written = {t.attr for st in walk_stmts(ts.node.body) if isinstance(st, ast.Assign) for t in st.targets if isinstance(t, ast.Attribute) and dotted(t.value) == "self"}
    read = {n.attr for n in ast.walk(body) if isinstance(n, ast.Attribute) and dotted(n.value) == "self" and n.attr in BOOKKEEPING}
    ctx.check(read == set(BOOKKEEPING) and set(BOOKKEEPING) <= written, f"{f.key}:bookkeeping-agreement",
              f"_restore_snapshot reads {sorted(read)}, _take_snapshot binds {sorted(written & set(BOOKKEEPING))}; expected all of {list(BOOKKEEPING)}",
              "reads the four maps bound by _take_snapshot", f.loc)


    # (f) objects made transient by the expunge step stay transient: any later re-keying `X.key = <key>` is
    #     restricted to states that were not expunged
    exp_calls = [c for c in calls_named(body, "_expunge_states") if c.args and mentions(c.args[0], "_new")]
    if exp_calls and isinstance(exp_calls[0].args[0], ast.Name):
        E = exp_calls[0].args[0].id
        g = ctx.cfg(f)
        pm = f.module.parents()
        exp_nodes = call_nodes(g, lambda c: c is exp_calls[0])
        after = g.reachable(exp_nodes, include_starts=False)
        bad = []
        n_stores = 0
        for nid in attr_store_nodes(g, "key"):
            if nid not in after:
                continue
            st = g.node(nid).stmt
            if const_is(st.value, None):
                continue
            for t in st.targets:
                if isinstance(t, ast.Attribute) and t.attr == "key" and isinstance(t.value, ast.Name):
                    n_stores += 1
                    atoms = _atoms(ctx, f, g, nid)
                    if (f"{t.value.id} in {E}", False) not in atoms:
                        bad.append(f"`{unparse(st)}` runs for every state of the loop, including those in `{E}` that were just expunged to transient")
        ctx.check(not bad, f"{f.key}:new-objects-stay-transient",
                  "; ".join(bad) + f": an object added in the rolled-back transaction ends up with an identity key (detached) instead of transient",
                  f"{n_stores} re-keying store(s) after the expunge, each under `not in {E}`", f.loc)
    else:
        ctx.require(False, "_restore_snapshot: the set of expunged states is not bound to a local name")


# ---------------------------------------------------------------------- C32-R6: unflushed-change buffers of a state
STATE = "orm/state.py"
IS = f"{STATE}::InstanceState"


def _atom_nodes(test, pol=True):
    if isinstance(test, ast.UnaryOp) and isinstance(test.op, ast.Not):
        return _atom_nodes(test.operand, not pol)
    if isinstance(test, ast.BoolOp) and ((isinstance(test.op, ast.And) and pol) or (isinstance(test.op, ast.Or) and not pol)):
        out = []
        for v in test.values:
            out.extend(_atom_nodes(v, pol))
        return out
    if isinstance(test, ast.Compare) and len(test.ops) == 1 and isinstance(test.comparators[0], ast.Constant) and test.comparators[0].value is None:
        # `x is not None` ~ x (existence), `x is None` ~ not x
        if isinstance(test.ops[0], ast.IsNot):
            return [(test.left, pol)]
        if isinstance(test.ops[0], ast.Is):
            return [(test.left, not pol)]
    return [(test, pol)]


def _state_dict_names(fn_node, subject):
    return {n for n, v, st in name_stores(fn_node) if v is not None and dotted(v) == f"{subject}.__dict__"}


def _is_state_dict(e, subject, aliases):
    return dotted(e) == f"{subject}.__dict__" or (isinstance(e, ast.Name) and e.id in aliases)


def buffer_effects(fn_node, subject, helpers=None, _depth=0):
    """{attr: [(kind, stmt)]} for whole-buffer effects on `<subject>`: kind 'empty' (`.clear()`, `del`, `__dict__.pop`)
    or 'flag' (assignment of a constant).  `helpers` ({method name: FunctionDef}) lets `<subject>.<helper>()` statements
    contribute the effects of the helper's body (one level; attributed to the calling statement)."""
    al = _state_dict_names(fn_node, subject)
    out = {}
    for st in walk_stmts(fn_node.body):
        if isinstance(st, ast.Expr) and isinstance(st.value, ast.Call) and isinstance(st.value.func, ast.Attribute):
            c = st.value
            recv = c.func.value
            if helpers and _depth == 0 and dotted(recv) == subject and c.func.attr in helpers and not c.args and not c.keywords:
                h = helpers[c.func.attr]
                hself = h.args.args[0].arg if h.args.args else "self"
                hpm = {ch: par for par in ast.walk(h) for ch in ast.iter_child_nodes(par)}
                hal = _state_dict_names(h, hself)
                for a, effs in buffer_effects(h, hself, None, 1).items():
                    for k, hst in effs:
                        # only effects the helper performs on every call (own-existence guards aside) are credited
                        cond = [(at, ap) for t, pol in lexical_guards(hpm, hst, stop=h) for at, ap in _atom_nodes(t, pol)]
                        if all(ap and isinstance(at, ast.Compare) and len(at.ops) == 1 and isinstance(at.ops[0], ast.In) and isinstance(at.left, ast.Constant)
                               and at.left.value == a and _is_state_dict(at.comparators[0], hself, hal) for at, ap in cond):
                            out.setdefault(a, []).append((k, st))
                continue
            if c.func.attr == "clear" and not c.args and isinstance(recv, ast.Attribute) and dotted(recv.value) == subject:
                out.setdefault(recv.attr, []).append(("empty", st))
            elif c.func.attr == "pop" and c.args and isinstance(c.args[0], ast.Constant) and isinstance(c.args[0].value, str) and _is_state_dict(recv, subject, al):
                out.setdefault(c.args[0].value, []).append(("empty", st))
        elif isinstance(st, ast.Delete):
            for t in st.targets:
                if isinstance(t, ast.Subscript) and isinstance(t.slice, ast.Constant) and isinstance(t.slice.value, str) and _is_state_dict(t.value, subject, al):
                    out.setdefault(t.slice.value, []).append(("empty", st))
                elif isinstance(t, ast.Attribute) and dotted(t.value) == subject:
                    out.setdefault(t.attr, []).append(("empty", st))
        elif isinstance(st, ast.Assign) and isinstance(st.value, ast.Constant):
            for t in st.targets:
                if isinstance(t, ast.Attribute) and dotted(t.value) == subject:
                    out.setdefault(t.attr, []).append(("flag", st))
    return out


@R.rule("C32-R6", floor=7, template="T-SIBLING",
        desc="InstanceState: every unflushed-change buffer that a successful flush empties (_commit_all_states) is also "
             "emptied by _expire -- the operation Session rollback uses to discard in-memory changes when the flush did "
             "not complete -- conditioned at most on the buffer's own existence / the modified flag; _expire_attributes "
             "removes the expired key from each container among them")
def r6(ctx):
    com = ctx.func(f"{IS}._commit_all_states")
    loops = [n for n in walk_local(com.node) if isinstance(n, ast.For) and isinstance(n.iter, ast.Name) and n.iter.id in com.params
             and isinstance(n.target, ast.Tuple) and n.target.elts and isinstance(n.target.elts[0], ast.Name)]
    ctx.require(len(loops) == 1, "_commit_all_states: no single loop `for <state>, <dict> in <parameter>`")
    subj = loops[0].target.elts[0].id
    base = buffer_effects(loops[0], subj)
    containers = sorted(a for a, effs in base.items() if any(k == "empty" for k, _ in effs))
    flags = sorted(a for a, effs in base.items() if a not in containers)
    ctx.require(len(containers) >= 2 and len(flags) >= 2, f"_commit_all_states empties {containers} and resets {flags}: fewer buffers than understood")
    exp = ctx.func(f"{IS}._expire")
    pm = exp.module.parents()
    helpers = {n: f_.node for n, f_ in ctx.index.cls(IS).methods.items() if n not in ("_expire", "_commit_all_states", "_commit_all", "_commit")}
    mine = buffer_effects(exp.node, "self", helpers)
    al = _state_dict_names(exp.node, "self")
    for a in containers + flags:
        key = f"{exp.key}:discards:{a}"
        want = "empty" if a in containers else "flag"
        effs = [(k, st) for k, st in mine.get(a, []) if k == want]
        if not effs:
            ctx.violation(key, f"`{a}` is {'emptied' if want == 'empty' else 'reset'} after a successful flush (_commit_all_states) but not by _expire(): "
                               f"after a failed flush + rollback the state keeps its unflushed `{a}`", exp.loc)
            continue
        extra = []
        for k, st in effs:
            for t, pol in lexical_guards(pm, st, stop=exp.node):
                for at, ap in _atom_nodes(t, pol):
                    exists = (isinstance(at, ast.Compare) and len(at.ops) == 1 and isinstance(at.ops[0], ast.In) and isinstance(at.left, ast.Constant)
                              and at.left.value == a and _is_state_dict(at.comparators[0], "self", al) and ap)
                    own = dotted(at) == f"self.{a}" and ap
                    flag = ap and isinstance(at, ast.Attribute) and dotted(at.value) == "self" and at.attr in flags
                    if not (exists or own or flag):
                        extra.append(f"{'not ' if not ap else ''}{unparse(at)}")
        ctx.check(not extra, key, f"_expire() discards `{a}` only when {extra}: otherwise the unflushed `{a}` survives a rollback",
                  f"{want} in _expire (unconditional up to existence / modified flag)", exp.loc)
    # per-key sibling
    ea = ctx.func(f"{IS}._expire_attributes")
    pm = ea.module.parents()
    kloops = [n for n in walk_local(ea.node) if isinstance(n, ast.For) and isinstance(n.iter, ast.Name) and n.iter.id in ea.params and isinstance(n.target, ast.Name)]
    ctx.require(len(kloops) == 1, "_expire_attributes: no single loop over the attribute-name parameter")
    lp = kloops[0]
    K = lp.target.id
    alias = {}
    for n, v, st in name_stores(ea.node):
        if v is None:
            continue
        if isinstance(v, ast.Attribute) and dotted(v.value) == "self":
            alias[n] = v.attr
        elif (isinstance(v, ast.Call) and isinstance(v.func, ast.Attribute) and v.func.attr == "get" and dotted(v.func.value) == "self.__dict__"
              and v.args and isinstance(v.args[0], ast.Constant)):
            alias[n] = v.args[0].value

    def buf_of(e):
        if isinstance(e, ast.Attribute) and dotted(e.value) == "self":
            return e.attr
        if isinstance(e, ast.Name):
            return alias.get(e.id)
        return None

    for a in containers:
        key = f"{ea.key}:discards-key:{a}"
        hits = []
        for st in walk_stmts(lp.body):
            if isinstance(st, ast.Expr) and isinstance(st.value, ast.Call) and isinstance(st.value.func, ast.Attribute) and st.value.func.attr == "pop":
                c = st.value
                if buf_of(c.func.value) == a and c.args and isinstance(c.args[0], ast.Name) and c.args[0].id == K:
                    hits.append(st)
            elif isinstance(st, ast.Delete):
                for t in st.targets:
                    if isinstance(t, ast.Subscript) and buf_of(t.value) == a and isinstance(t.slice, ast.Name) and t.slice.id == K:
                        hits.append(st)
        if not hits:
            ctx.violation(key, f"_expire_attributes() does not remove the expired key from `{a}` although _expire() empties it: "
                               f"an unflushed change of an expired attribute is applied again on the next load", ea.loc)
            continue
        extra = []
        for st in hits:
            for t, pol in lexical_guards(pm, st, stop=lp):
                for at, ap in _atom_nodes(t, pol):
                    own = ap and buf_of(at) == a
                    member = ap and isinstance(at, ast.Compare) and len(at.ops) == 1 and isinstance(at.ops[0], ast.In) and buf_of(at.comparators[0]) == a
                    if not (own or member):
                        extra.append(f"{'not ' if not ap else ''}{unparse(at)}")
        ctx.check(not extra, key, f"the key is removed from `{a}` only when {extra}", f"`{a}`.pop({K}) for every expired key", ea.loc)


# ---------------------------------------------------------------------- C32-R7: Session-side bookkeeping
def _tx_exprs(fn_node):
    """local names bound to `<x>._transaction`."""
    return {n for n, v, st in name_stores(fn_node) if v is not None and isinstance(v, ast.Attribute) and v.attr == "_transaction"}


def _is_tx(e, aliases):
    return (isinstance(e, ast.Attribute) and e.attr == "_transaction") or (isinstance(e, ast.Name) and e.id in aliases)


def transaction_kind_attrs(ctx):
    """Attributes of a SessionTransaction that tell its kind / position in the stack: bound by __init__ from the
    `origin` / `parent` constructor parameters, plus the properties computed from those."""
    cls = ctx.index.cls(ST)
    init = cls.methods.get("__init__")
    ctx.require(init is not None, "SessionTransaction has no __init__")
    params = [p for p in init.params if p not in ("self", "session")]
    kind = set()
    for st in walk_stmts(init.node.body):
        if isinstance(st, ast.Assign) and any(isinstance(n, ast.Name) and n.id in params for n in ast.walk(st.value)):
            for t in st.targets:
                if isinstance(t, ast.Attribute) and dotted(t.value) == "self":
                    kind.add(t.attr)
    ctx.require(len(kind) >= 3, f"SessionTransaction.__init__ binds only {sorted(kind)} from origin/parent")
    for name, f in cls.methods.items():
        if any((d or "").endswith("property") for d in f.decorators):
            if any(isinstance(n, ast.Attribute) and dotted(n.value) == "self" and n.attr in kind for n in ast.walk(f.node)):
                kind.add(name)
    return kind


@R.rule("C32-R7", floor=5, template="T-GUARD/T-SIBLING",
        desc="every place outside SessionTransaction that maintains the current transaction's bookkeeping maps "
             "(<session>._transaction._new/_deleted/_dirty/_key_switches) does so for any kind of current transaction: no "
             "guard reads an attribute telling the transaction's kind / position (what __init__ binds from origin and "
             "parent -- nested, origin, _parent -- and the properties computed from them) -- flush subtransactions "
             "share their parent's maps, so _restore_snapshot relies on them being maintained from any level")
def r7(ctx):
    found = 0
    kind = transaction_kind_attrs(ctx)
    for m in ctx.index.all_modules():
        if not m.relpath.startswith("orm/") or "_transaction" not in m.source:
            continue
        pm = None
        for f in ctx.index.all_functions(m):
            if f.cls is not None and f.cls.name == "SessionTransaction":
                continue
            if f.type_only:
                continue
            al = _tx_exprs(f.node)
            sites = {}
            for n in walk_local(f.node):
                if isinstance(n, ast.Attribute) and n.attr in BOOKKEEPING and _is_tx(n.value, al):
                    sites.setdefault(n.attr, []).append(n)
            if not sites:
                continue
            ctx.functions_analysed.add(f.key)
            pm = pm or m.parents()
            g = ctx.cfg(f)
            for fld, nodes in sorted(sites.items()):
                bad = []
                for n in nodes:
                    guards = list(lexical_guards(pm, n, stop=f.node))
                    for nid in g.nodes_containing(n):
                        guards.extend(g.edge_guards(nid))
                    for t, pol in guards:
                        for a in ast.walk(t):
                            if isinstance(a, ast.Attribute) and _is_tx(a.value, al) and a.attr in kind:
                                txt = f"`{unparse(a)}` (in `{unparse(t)}`)"
                                if txt not in bad:
                                    bad.append(txt)
                found += 1
                ctx.check(not bad, f"{f.key}:{fld}:any-transaction-kind",
                          f"the transaction's {fld} map is maintained only when {', '.join(bad)}: while a flush subtransaction is current "
                          f"(it shares the enclosing transaction's {fld}) the entry is left stale and _restore_snapshot acts on it",
                          f"{len(nodes)} access(es), conditioned on the existence of a transaction only", f.loc)
    ctx.require(found >= 1, "no Session-side access to the transaction bookkeeping maps found")


# ---------------------------------------------------------------------- C32-R8: the recovery call stays admissible
def _flush_recovery_methods(ctx, decl):
    """declared SessionTransaction methods that the exception handlers of Session._flush call on the flush
    subtransaction (today: rollback)"""
    fl = inline_helpers(ctx, ctx.func(f"{SESSION}::Session._flush"))
    txs = _local_bound_to_call(fl.node, "_begin")
    ctx.require(txs, "_flush does not bind the begun subtransaction to a local")
    out = set()
    for n in ast.walk(fl.node):
        if isinstance(n, ast.ExceptHandler):
            for c in calls_in(ast.Module(body=n.body, type_ignores=[])):
                if isinstance(c.func, ast.Attribute) and isinstance(c.func.value, ast.Name) and c.func.value.id in txs and c.func.attr in decl:
                    out.add(c.func.attr)
    ctx.require(out, "no state-declared SessionTransaction method is called on the flush subtransaction by a handler of _flush")
    return sorted(out)


@R.rule("C32-R8", floor=3, template="T-PATH",
        desc="however a statement-issuing operation of a transaction ends, the recovery call of the flush stays admissible: "
             "the operations that run inside a live transaction (declare_states methods that declare NO_CHANGE: connection, "
             "_connection_for_bind, _begin) may park _state in a value that the prerequisites of the method Session._flush's "
             "handler calls on the subtransaction (rollback) exclude, but every exit -- exceptional ones included, private "
             "helpers read in place -- passes a store of an admissible state first")
def r8(ctx):
    decl = declared_methods(ctx)
    recovery = _flush_recovery_methods(ctx, decl)
    admissible = None   # None = any state
    for r in recovery:
        pres = decl[r][1]
        if pres != "ANY":
            names = {p.rsplit(".", 1)[-1] for p in pres}
            admissible = names if admissible is None else admissible & names
    n = 0
    for name, (f0, pres, to) in sorted(decl.items()):
        if not (to or "").endswith("NO_CHANGE"):
            continue
        n += 1
        key = f"{f0.key}:recovery-admissible-on-every-exit"
        f = inline_helpers(ctx, f0)
        g = ctx.cfg(f.node)
        stores = []
        for nid in attr_store_nodes(g, "_state", None, "self"):
            v = resolve_alias(f.node, g.node(nid).stmt.value)
            d = dotted(v)
            ctx.require(d is not None and "()" not in d, f"{f0.key}: `{unparse(g.node(nid).stmt)}` stores a computed state")
            stores.append((nid, d.rsplit(".", 1)[-1]))
        if not stores or admissible is None:
            ctx.ok(key, "no _state write" if not stores else f"{recovery} admissible in any state", nontrivial=False)
            continue
        parked = [(nid, s) for nid, s in stores if s not in admissible]
        back = [nid for nid, s in stores if s in admissible]
        w = g.must_pass([nid for nid, _ in parked], [g.exit, g.raise_exit], back) if parked else None
        ctx.check(w is None, key,
                  f"{name}() can end (see path) with the transaction still in {sorted({s for _, s in parked})}, a state that the prerequisites "
                  f"of {'/'.join(recovery)}() ({sorted(admissible)}) exclude: when a flush statement fails at that point, the handler of "
                  f"Session._flush cannot roll the subtransaction back (the state check raises instead and replaces the original error), the "
                  f"subtransaction stays current and every later Session.rollback()/commit()/flush() is refused the same way",
                  f"{len(parked)} parked state(s), each replaced by one of {sorted(admissible)} on every exit", f0.loc, w)
    ctx.require(n >= 1, "no NO_CHANGE method declared on SessionTransaction")


# ---------------------------------------------------------------------- C32-R9: pending XOR registered, or an undo that copes
def _session_coll(fnode, e, binds, attr: str) -> bool:
    return resolved_dotted(fnode, e, binds) == f"self.{attr}"


@R.rule("C32-R9", floor=1, template="T-SIBLING/T-PATH",
        desc="Session._expunge_states -- the undo _restore_snapshot applies to the objects added in the transaction -- files each "
             "state either as pending (in Session._new) or as registered (in the identity map); a Session method that promotes "
             "pending states (registers them in the identity map and removes them from _new afterwards) and can be left by an "
             "exception in between produces states that are both, so for such a state the undo must take it out of _new and out "
             "of the identity map alike")
def r9(ctx):
    from ..cfg import no_exc  # noqa: F401
    sess = ctx.index.cls(f"{SESSION}::Session")
    # (1) promotion windows
    windows = []
    for name, f0 in sorted(sess.methods.items()):
        attrs = {n.attr for n in ast.walk(f0.node) if isinstance(n, ast.Attribute)}
        if f0.type_only or not {"identity_map", "_new"} <= attrs:
            continue
        f = inline_helpers(ctx, f0)
        b = bindings(f.node)
        g = None
        reg, rem = [], []
        for c in calls_in(f.node):
            if isinstance(c.func, ast.Attribute) and c.func.attr in ("replace", "add") and _session_coll(f.node, c.func.value, b, "identity_map"):
                reg.append(c)
            elif isinstance(c.func, ast.Attribute) and c.func.attr in ("pop", "discard", "remove") and _session_coll(f.node, c.func.value, b, "_new"):
                rem.append(c)
        dels = [st for st in walk_stmts(f.node.body) if isinstance(st, ast.Delete)
                and any(isinstance(t, ast.Subscript) and _session_coll(f.node, t.value, b, "_new") for t in st.targets)]
        if not reg or not (rem or dels):
            continue
        ctx.functions_analysed.add(f0.key)
        g = ctx.cfg(f.node)
        reg_n = sorted({n for c in reg for n in g.nodes_containing(c)})
        rem_n = sorted({n for c in rem for n in g.nodes_containing(c)} | {n for st in dels for n in g.nodes_for(st)})
        if not (set(g.reachable(reg_n, include_starts=False)) & set(rem_n)):
            continue   # the removal does not follow the registration: not a promotion
        # witness: preferably an explicit `raise` reached after the registration completed normally (a later round of the loop)
        raises = g.find(lambda n: n.kind == "stmt" and isinstance(n.stmt, ast.Raise))
        after = lambda a, b_, lab: lab != "exc"   # noqa: E731
        w = g.must_pass(reg_n, raises, rem_n, edge_ok=after, start_edge_ok=after) if raises else None
        w = w or g.must_pass(reg_n, [g.raise_exit], rem_n, start_edge_ok=after)
        if w is not None:
            windows.append((f0, w))
    # (2) the undo
    rs = ctx.func(f"{ST}._restore_snapshot")
    ctx.require(any(c.args and const_is(kw(c, "to_transient"), True) for c in calls_named(rs.node, "_expunge_states")),
                "_restore_snapshot no longer undoes the new objects through _expunge_states(.., to_transient=True)")
    ex0 = ctx.func(f"{SESSION}::Session._expunge_states")
    ex = inline_helpers(ctx, ex0)
    key = f"{ex0.key}:pending-and-registered"
    if not windows:
        ctx.ok(key, "no Session method can be left between registering a pending state and removing it from _new", nontrivial=False)
        return
    g = ctx.cfg(ex.node)
    pm = parent_map(ex.node)
    b = bindings(ex.node)
    states_p = ex.params[1] if len(ex.params) > 1 else None
    loops = [n for n in walk_local(ex.node) if isinstance(n, ast.For) and isinstance(n.target, ast.Name)
             and isinstance(resolve_alias(ex.node, n.iter, b), ast.Name) and resolve_alias(ex.node, n.iter, b).id == states_p]
    ctx.require(loops, "_expunge_states has no loop over its states parameter")

    def scenario_ok(X):
        """one loop round for a state that is in _new AND in the identity map: membership tests decided, the rest open"""
        def val(e):
            if isinstance(e, ast.Compare) and len(e.ops) == 1 and isinstance(e.ops[0], (ast.In, ast.NotIn)) and unparse(e.left) == X \
                    and (_session_coll(ex.node, e.comparators[0], b, "_new") or _session_coll(ex.node, e.comparators[0], b, "identity_map")):
                return isinstance(e.ops[0], ast.In)
            if isinstance(e, ast.Call) and isinstance(e.func, ast.Attribute) and e.func.attr == "contains_state" \
                    and _session_coll(ex.node, e.func.value, b, "identity_map") and len(e.args) == 1 and unparse(e.args[0]) == X:
                return True
            return None

        def ok(a_, b2, lab):
            if lab == "exc":
                return False
            n = g.nodes[a_]
            if n.kind == "test" and lab in ("true", "false") and isinstance(n.stmt, (ast.If, ast.While)):
                v = _tv3(expand_test(ctx, ex, n.stmt.test, b), val)
                if v is not None and v != (lab == "true"):
                    return False
            return True
        return ok

    unmapped = unpended = False
    for lp in loops:
        X = lp.target.id
        head = g.nodes_for(lp)[0]
        starts = [n2 for n2, lab in g.succ[head] if lab == "true"]
        ctx.require(starts, "_expunge_states: loop body not found on the CFG")
        unmap_n, unpend_n = [], []
        for c in calls_in(lp):
            if not (isinstance(c.func, ast.Attribute) and c.args and unparse(c.args[0]) == X):
                continue
            if c.func.attr in ("safe_discard", "discard", "_fast_discard") and _session_coll(ex.node, c.func.value, b, "identity_map"):
                unmap_n.extend(g.nodes_containing(c))
            elif c.func.attr in ("pop", "discard", "remove") and _session_coll(ex.node, c.func.value, b, "_new"):
                unpend_n.extend(g.nodes_containing(c))
        for st in walk_stmts(lp.body):
            if isinstance(st, ast.Delete) and any(isinstance(t, ast.Subscript) and _session_coll(ex.node, t.value, b, "_new") and unparse(t.slice) == X
                                                  for t in st.targets):
                unpend_n.extend(g.nodes_for(st))
        ok = scenario_ok(X)
        # every way through one round (to the next round or out of the loop) performs the effect
        unmapped = unmapped or (bool(unmap_n) and g.must_pass(starts, [head, g.exit], unmap_n, edge_ok=ok) is None)
        unpended = unpended or (bool(unpend_n) and g.must_pass(starts, [head, g.exit], unpend_n, edge_ok=ok) is None)
    f0, w = windows[0]
    missing = [t for t, okk in (("removed from Session._new", unpended), ("discarded from the identity map", unmapped)) if not okk]
    ctx.check(not missing, key,
              f"{', '.join(f_.qualname for f_, _ in windows)} registers pending states in the identity map and removes them from Session._new only "
              f"afterwards, and can be left by an exception in between (see path): after such a failed flush a new object is pending AND "
              f"registered, but _expunge_states() treats the two as exclusive -- for such a state it is not {' / not '.join(missing)}. "
              f"Session.rollback() then leaves the identity map holding entries for rows that were rolled back, and the expire-all pass of "
              f"_restore_snapshot wipes the attribute values of the objects it has just made transient (repeating the work inserts NULLs / "
              f"fails with 'cannot be refreshed')",
              f"a state that is both pending and registered is taken out of both ({len(windows)} promotion window(s) with an exceptional exit)",
              ex0.loc, w)


# ---------------------------------------------------------------------- self-test battery
R.mutant("flush-commit-outside-try", SESSION,
         sub("            self.dispatch.after_flush_postexec(self, flush_context)\n\n            transaction.commit()\n\n        except:\n            with util.safe_reraise():\n                transaction.rollback(_capture_exception=True)\n",
             "            self.dispatch.after_flush_postexec(self, flush_context)\n\n        except:\n            with util.safe_reraise():\n                transaction.rollback(_capture_exception=True)\n        transaction.commit()\n"), "C32-R1")
R.mutant("flush-handler-no-rollback", SESSION,
         sub("        except:\n            with util.safe_reraise():\n                transaction.rollback(_capture_exception=True)\n\n    def bulk_save_objects", "        except:\n            raise\n\n    def bulk_save_objects"), "C32-R1")
R.mutant("flush-handler-narrowed", SESSION,
         sub("        except:\n            with util.safe_reraise():\n                transaction.rollback(_capture_exception=True)\n\n    def bulk_save_objects", "        except sa_exc.SQLAlchemyError:\n            with util.safe_reraise():\n                transaction.rollback(_capture_exception=True)\n\n    def bulk_save_objects"), "C32-R1")
R.mutant("flush-finalize-in-finally", SESSION,
         sub("            finally:\n                self._warn_on_events = False\n\n            self.dispatch.after_flush(self, flush_context)\n\n            flush_context.finalize_flush_changes()\n",
             "            finally:\n                self._warn_on_events = False\n                flush_context.finalize_flush_changes()\n\n            self.dispatch.after_flush(self, flush_context)\n"), "C32-R1")
R.mutant("flush-no-capture-exception", SESSION, sub("                transaction.rollback(_capture_exception=True)\n\n    def bulk_save_objects", "                transaction.rollback()\n\n    def bulk_save_objects"), "C32-R1")
R.mutant("flushing-reset-not-in-finally", SESSION,
         sub("            self._flush(objects)\n        finally:\n            self._flushing = False\n", "            self._flush(objects)\n        finally:\n            pass\n        self._flushing = False\n"), "C32-R2")
R.mutant("flushing-set-after", SESSION,
         sub("            self._flushing = True\n            self._flush(objects)\n", "            self._flush(objects)\n            self._flushing = True\n"), "C32-R2")
R.mutant("flush-no-reentrancy-guard", SESSION, sub("        if self._flushing:\n            raise sa_exc.InvalidRequestError(\"Session is already flushing\")\n", ""), "C32-R2")
R.mutant("rollback-restore-not-in-finally", SESSION,
         sub("                    finally:\n                        transaction._state = SessionTransactionState.DEACTIVE\n                        transaction._restore_snapshot(\n                            dirty_only=transaction.nested\n                        )\n",
             "                    else:\n                        transaction._restore_snapshot(\n                            dirty_only=transaction.nested\n                        )\n                    finally:\n                        transaction._state = SessionTransactionState.DEACTIVE\n"), "C32-R3")
R.mutant("rollback-restore-wrong-dirty-only", SESSION,
         sub("                        transaction._restore_snapshot(\n                            dirty_only=transaction.nested\n                        )\n                    boundary = transaction",
             "                        transaction._restore_snapshot(\n                            dirty_only=True\n                        )\n                    boundary = transaction"), "C32-R3")
R.mutant("rollback-error-swallowed", SESSION, sub("        if rollback_err and rollback_err[1]:\n            raise rollback_err[1].with_traceback(rollback_err[2])\n", ""), "C32-R3")
R.mutant("decorator-skips-prerequisite", SC,
         sub("                self._raise_for_prerequisite_state(fn.__name__, current_state)\n", "                pass\n"), "C32-R4")
R.mutant("pending-rollback-error-for-any-state", SESSION,
         sub("        if state is SessionTransactionState.DEACTIVE:\n            if self._rollback_exception:", "        if state is SessionTransactionState.DEACTIVE or True:\n            if not self._rollback_exception:"), "C32-R4")
R.mutant("connection-allowed-when-deactive", SESSION,
         sub("    @_StateChange.declare_states(\n        (SessionTransactionState.ACTIVE,), _StateChangeStates.NO_CHANGE\n    )\n    def _connection_for_bind(",
             "    @_StateChange.declare_states(\n        (SessionTransactionState.ACTIVE, SessionTransactionState.DEACTIVE), _StateChangeStates.NO_CHANGE\n    )\n    def _connection_for_bind("), "C32-R4")
R.mutant("rollback-does-not-capture", SESSION, sub("        if self._parent and _capture_exception:\n", "        if self._parent and not _capture_exception:\n"), "C32-R4")
R.mutant("restore-keeps-new-objects", SESSION, sub("        self.session._expunge_states(to_expunge, to_transient=True)\n", "        self.session._expunge_states(to_expunge)\n"), "C32-R5")
R.mutant("restore-key-switch-new-key", SESSION, sub("            s.key = oldkey\n", "            s.key = newkey\n"), "C32-R5")
R.mutant("restore-forgets-deleted", SESSION, sub("        for s in set(self._deleted).union(self.session._deleted):\n            self.session._update_impl(s, revert_deletion=True)\n", "        for s in set(self.session._deleted):\n            self.session._update_impl(s, revert_deletion=True)\n"), "C32-R5")
R.mutant("restore-expires-only-dirty", SESSION, sub("            if not dirty_only or s.modified or s in self._dirty:\n", "            if s.modified or s in self._dirty:\n"), "C32-R5")
# benign
R.mutant("benign-rename-transaction-local", SESSION,
         sub("        flush_context.transaction = transaction = self._autobegin_t()._begin()\n", "        flush_context.transaction = transaction = self._autobegin_t()._begin()\n        _dbg = transaction\n"), None)
R.mutant("benign-log-in-rollback", SESSION, sub("        boundary = self\n        rollback_err = None\n", "        rollback_err = None\n        boundary = self\n        _n = len(self._connections)\n"), None)
R.mutant("benign-rename-loop-var", SESSION, sub("        for s in set(self._deleted).union(self.session._deleted):\n            self.session._update_impl(s, revert_deletion=True)\n", "        for st_ in set(self._deleted).union(self.session._deleted):\n            self.session._update_impl(st_, revert_deletion=True)\n"), None)

# --- str-n: C32-R5(f) / R6 / R7
# C32-R5 `new-objects-stay-transient` fires on the unchanged tree (findings/C32_rollback_rekeys_expunged_new_object.py); self-tests are judged
# relative to that baseline, so its breaking mutant can only be enabled once the defect is fixed in /repo:
# R.mutant("restore-rekeys-expunged-state", SESSION,
#          sub("            if s not in to_expunge:\n                s.key = oldkey\n                self.session.identity_map.replace(s)\n",
#              "            s.key = oldkey\n            if s not in to_expunge:\n                self.session.identity_map.replace(s)\n"), "C32-R5")
R.mutant("seed-expire-keeps-pending-mutations", STATE,
         sub("        self._strong_obj = None\n\n        if \"_pending_mutations\" in self.__dict__:\n            del self.__dict__[\"_pending_mutations\"]\n\n", "        self._strong_obj = None\n\n"), "C32-R6")
R.mutant("expire-keeps-committed-state", STATE,
         sub("            modified_set.discard(self)\n            self.committed_state.clear()\n            self.modified = False\n", "            modified_set.discard(self)\n            self.modified = False\n"), "C32-R6")
R.mutant("expire-pending-only-when-clean", STATE,
         sub("        if \"_pending_mutations\" in self.__dict__:\n            del self.__dict__[\"_pending_mutations\"]\n\n        if \"parents\"",
             "        if \"_pending_mutations\" in self.__dict__ and not self._strong_obj:\n            del self.__dict__[\"_pending_mutations\"]\n\n        if \"parents\""), "C32-R6")
R.mutant("expire-attributes-keeps-pending-key", STATE,
         sub("            self.committed_state.pop(key, None)\n            if pending:\n                pending.pop(key, None)\n", "            self.committed_state.pop(key, None)\n"), "C32-R6")
R.mutant("expire-keeps-strong-ref", STATE, sub("            self.modified = False\n\n        self._strong_obj = None\n\n        if \"_pending", "            self.modified = False\n\n        if \"_pending"), "C32-R6")
R.mutant("seed-expunge-prunes-deleted-only-at-boundary", SESSION,
         sub("            elif self._transaction:\n                # state is \"detached\"", "            elif (\n                self._transaction\n                and self._transaction._is_transaction_boundary\n            ):\n                # state is \"detached\""), "C32-R7")
R.mutant("register-altered-only-root", SESSION,
         sub("        if self._transaction:\n            for state in states:\n                if state in self._new:\n                    self._transaction._new[state] = True",
             "        if self._transaction and self._transaction._parent is None:\n            for state in states:\n                if state in self._new:\n                    self._transaction._new[state] = True"), "C32-R7")
R.mutant("newly-deleted-not-in-subtransaction", SESSION,
         sub("            if self._transaction:\n                self._transaction._deleted[state] = True\n",
             "            trans = self._transaction\n            if trans is not None and (trans.nested or trans.parent is None):\n                trans._deleted[state] = True\n"), "C32-R7")
R.mutant("benign-expire-pop-pending", STATE,
         sub("        if \"_pending_mutations\" in self.__dict__:\n            del self.__dict__[\"_pending_mutations\"]\n\n        if \"parents\" in self.__dict__:\n            del self.__dict__[\"parents\"]\n",
             "        if \"parents\" in self.__dict__:\n            del self.__dict__[\"parents\"]\n\n        self.__dict__.pop(\"_pending_mutations\", None)\n"), None)
R.mutant("benign-expire-extracted-helper", STATE,
         chain(sub("        if \"_pending_mutations\" in self.__dict__:\n            del self.__dict__[\"_pending_mutations\"]\n\n        if \"parents\"", "        self._drop_queued()\n\n        if \"parents\""),
               sub("    def _expire(\n        self, dict_: _InstanceDict, modified_set", "    def _drop_queued(self) -> None:\n        if \"_pending_mutations\" in self.__dict__:\n            del self.__dict__[\"_pending_mutations\"]\n\n    def _expire(\n        self, dict_: _InstanceDict, modified_set")), None)
R.mutant("benign-expire-attributes-rename-pending", STATE,
         chain(sub("        pending = self.__dict__.get(\"_pending_mutations\", None)\n", "        queued = self.__dict__.get(\"_pending_mutations\", None)\n"),
                             sub("            if pending:\n                pending.pop(key, None)\n", "            if queued is not None and key in queued:\n                del queued[key]\n")), None)
R.mutant("benign-expunge-local-transaction", SESSION,
         sub("            elif self._transaction:\n                # state is \"detached\" from being deleted, but still present\n                # in the transaction snapshot\n                self._transaction._deleted.pop(state, None)\n",
             "            else:\n                trans = self._transaction\n                if trans is not None:\n                    trans._deleted.pop(state, None)\n"), None)
R.mutant("benign-newly-deleted-active-transaction", SESSION,
         sub("            if self._transaction:\n                self._transaction._deleted[state] = True\n",
             "            if self._transaction is not None:\n                _n = len(self._transaction._deleted)\n                self._transaction._deleted[state] = True\n"), None)

# ------------------------------------------------------------------ rob-B1: refactoring families with breaking twins
from ._helpers_rob_b1 import ast_edit, t_alias, t_invert_ifs  # noqa: E402


def _t_extract_try_body(name, params):
    """`try: <body> except: ...` around the commit -> `try: self.<name>(<params>) except: ...` + new method"""
    def t(fn, owner):
        tr = next((n for n in ast.walk(fn) if isinstance(n, ast.Try) and n.handlers
                   and any(isinstance(c.func, ast.Attribute) and c.func.attr == "commit" for s_ in n.body for c in calls_in(s_))), None)
        if tr is None or not isinstance(owner, ast.ClassDef):
            return False
        helper = ast.FunctionDef(
            name=name, args=ast.arguments(posonlyargs=[], args=[ast.arg(arg="self")] + [ast.arg(arg=p) for p in params], vararg=None,
                                          kwonlyargs=[], kw_defaults=[], kwarg=None, defaults=[]),
            body=tr.body, decorator_list=[], returns=None, type_comment=None)
        if hasattr(helper, "type_params"):
            helper.type_params = []
        tr.body = [ast.Expr(value=ast.Call(func=ast.Attribute(value=ast.Name(id="self", ctx=ast.Load()), attr=name, ctx=ast.Load()),
                                           args=[ast.Name(id=p, ctx=ast.Load()) for p in params], keywords=[]))]
        owner.body.insert(owner.body.index(fn) + 1, helper)
        return True
    return t


def _t_rename(mapping):
    def t(fn, owner=None):
        hit = False
        for n in ast.walk(fn):
            if isinstance(n, ast.Name) and n.id in mapping:
                n.id, hit = mapping[n.id], True
        return hit
    return t


_HANDLER = "        except:\n            with util.safe_reraise():\n                transaction.rollback(_capture_exception=True)\n\n    def bulk_save_objects"
R.mutant("benign-flush-try-body-in-helper-method", SESSION,
         ast_edit("Session._flush", _t_extract_try_body("_run_flush", ["flush_context", "transaction", "objects"])), None)
R.mutant("flush-try-body-in-helper-handler-narrowed", SESSION,
         chain(sub(_HANDLER, _HANDLER.replace("        except:\n", "        except sa_exc.SQLAlchemyError:\n")),
               ast_edit("Session._flush", _t_extract_try_body("_run_flush", ["flush_context", "transaction", "objects"]))), "C32-R1")
R.mutant("flush-try-body-in-helper-finalize-before-execute", SESSION,
         chain(sub("            finally:\n                self._warn_on_events = False\n\n            self.dispatch.after_flush(self, flush_context)\n\n            flush_context.finalize_flush_changes()\n",
                   "            finally:\n                self._warn_on_events = False\n                flush_context.finalize_flush_changes()\n\n            self.dispatch.after_flush(self, flush_context)\n"),
               ast_edit("Session._flush", _t_extract_try_body("_run_flush", ["flush_context", "transaction", "objects"]))), "C32-R1")
R.mutant("benign-flush-locals-renamed", SESSION,
         ast_edit("Session._flush", _t_rename({"transaction": "subtrans", "flush_context": "uow", "proc": "candidates", "dirty": "changed"})), None)
R.mutant("benign-flush-objset-in-helper-early-return", SESSION,
         chain(sub("        if objects:\n            # specific list passed in\n            objset = set()\n            for o in objects:\n                try:\n"
                   "                    state = attributes.instance_state(o)\n\n                except exc.NO_STATE as err:\n"
                   "                    raise exc.UnmappedInstanceError(o) from err\n                objset.add(state)\n        else:\n            objset = None\n",
                   "        objset = self._flush_objset(objects)\n"),
               sub("    def bulk_save_objects(\n",
                   "    def _flush_objset(self, objects):\n        if not objects:\n            return None\n        found = set()\n        for obj in objects:\n"
                   "            try:\n                obj_state = attributes.instance_state(obj)\n            except exc.NO_STATE as err:\n"
                   "                raise exc.UnmappedInstanceError(obj) from err\n            found.add(obj_state)\n        return found\n\n"
                   "    def bulk_save_objects(\n")), None)

# R4: nested if/else -> guard clause + fall-through raise, attribute read once into a local (rfB_6 family)
_PRE_OLD = (
    "            if self._rollback_exception:\n"
    "                raise sa_exc.PendingRollbackError(\n"
)
_PRE_TAIL_OLD = (
    "                    code=\"7s2a\",\n                )\n            else:\n                raise sa_exc.InvalidRequestError(\n"
    "                    \"This session is in 'inactive' state, due to the \"\n"
    "                    \"SQL transaction being rolled back; no further SQL \"\n"
    "                    \"can be emitted within this transaction.\"\n                )\n"
)


def _prereq_guard_clause(test: str):
    def edit(src: str) -> str:
        from ..report import MutantNotApplicable
        if src.count(_PRE_OLD) != 1 or src.count(_PRE_TAIL_OLD) != 1:
            raise MutantNotApplicable("anchor text of _raise_for_prerequisite_state not found")
        a = src.index(_PRE_OLD)
        b = src.index(_PRE_TAIL_OLD)
        pending = src[a + len("            if self._rollback_exception:\n"):b] + "                    code=\"7s2a\",\n                )\n"
        pending = "\n".join(ln[4:] if ln.startswith("    ") else ln for ln in pending.split("\n"))
        pending = pending.replace("{self._rollback_exception}", "{flush_exception}")
        new = (
            "            flush_exception = self._rollback_exception\n"
            f"            if {test}:\n"
            "                raise sa_exc.InvalidRequestError(\n"
            "                    \"This session is in 'inactive' state, due to the \"\n"
            "                    \"SQL transaction being rolled back; no further SQL \"\n"
            "                    \"can be emitted within this transaction.\"\n                )\n" + pending
        )
        return src[:a] + new + src[b + len(_PRE_TAIL_OLD):]
    return edit


R.mutant("benign-prerequisite-guard-clause-single-read", SESSION, _prereq_guard_clause("not flush_exception"), None)
R.mutant("benign-prerequisite-guard-clause-is-none", SESSION, _prereq_guard_clause("flush_exception is None"), None)
R.mutant("prerequisite-guard-clause-inverted", SESSION, _prereq_guard_clause("flush_exception"), "C32-R4")
R.mutant("benign-prerequisite-branches-inverted", SESSION, ast_edit("SessionTransaction._raise_for_prerequisite_state", t_invert_ifs), None)
R.mutant("benign-rollback-capture-parent-aliased", SESSION,
         sub("        if self._parent and _capture_exception:\n            self._parent._rollback_exception = sys.exc_info()[1]\n",
             "        enclosing = self._parent\n        if enclosing and _capture_exception:\n            enclosing._rollback_exception = sys.exc_info()[1]\n"), None)
R.mutant("rollback-capture-on-self-instead-of-parent", SESSION,
         sub("        if self._parent and _capture_exception:\n            self._parent._rollback_exception = sys.exc_info()[1]\n",
             "        enclosing = self\n        if enclosing and _capture_exception:\n            enclosing._rollback_exception = sys.exc_info()[1]\n"), "C32-R4")

# R5: session aliased, loop variables renamed, guards inverted into `continue` clauses (rfB_5 family, re-rolled for
# the present text of _restore_snapshot)
_KS_OLD = ("            if s not in to_expunge and s.session_id == self.session.hash_key:\n"
           "                s.key = oldkey\n                self.session.identity_map.replace(s)\n")
_EXP_OLD = ("        for s in self.session.identity_map.all_states():\n"
            "            if not dirty_only or s.modified or s in self._dirty:\n"
            "                s._expire(s.dict, self.session.identity_map._modified)\n")


def _restore_refactored(ks_guard="s in to_expunge or s.session_id != sess.hash_key",
                        exp_guard="dirty_only and not state.modified and state not in self._dirty"):
    return chain(
        sub(_KS_OLD, f"            if {ks_guard}:\n                continue\n            s.key = oldkey\n            sess.identity_map.replace(s)\n"),
        sub(_EXP_OLD, "        for state in sess.identity_map.all_states():\n"
                      f"            if {exp_guard}:\n                continue\n"
                      "            state._expire(state.dict, sess.identity_map._modified)\n"),
        sub("        to_expunge = set(self._new).union(self.session._new)\n        self.session._expunge_states(to_expunge, to_transient=True)\n",
            "        sess = self.session\n\n        to_expunge = set(self._new).union(sess._new)\n        sess._expunge_states(to_expunge, to_transient=True)\n"),
    )


R.mutant("benign-restore-snapshot-alias-and-guard-clauses", SESSION, _restore_refactored(), None)
R.mutant("restore-snapshot-guard-clause-skips-flushed-dirty", SESSION,
         _restore_refactored(exp_guard="dirty_only and not state.modified"), "C32-R5")
R.mutant("restore-snapshot-guard-clause-skips-all-when-not-dirty-only", SESSION,
         _restore_refactored(exp_guard="not dirty_only or (not state.modified and state not in self._dirty)"), "C32-R5")
R.mutant("restore-snapshot-guard-clause-rekeys-expunged", SESSION,
         _restore_refactored(ks_guard="s.session_id != sess.hash_key"), "C32-R5")
R.mutant("benign-restore-key-switch-entry-unpacked-in-body", SESSION,
         sub("        for s, (oldkey, newkey) in self._key_switches.items():\n            # we probably can do this",
             "        for s, switch in self._key_switches.items():\n            oldkey, newkey = switch\n            # we probably can do this"), None)
R.mutant("restore-key-switch-entry-unpacked-swapped", SESSION,
         sub("        for s, (oldkey, newkey) in self._key_switches.items():\n            # we probably can do this",
             "        for s, switch in self._key_switches.items():\n            newkey, oldkey = switch\n            # we probably can do this"), "C32-R5")
R.mutant("benign-restore-expire-condition-split", SESSION,
         sub(_EXP_OLD, "        for s in self.session.identity_map.all_states():\n"
                       "            stale = s.modified or s in self._dirty\n"
                       "            if dirty_only and not stale:\n                continue\n"
                       "            s._expire(s.dict, self.session.identity_map._modified)\n"), None)

# ------------------------------------------------------------------ str2-m (round-2 seeds): C32-R8, C32-R9
_PROV_FINALLY = "        finally:\n            self._state = SessionTransactionState.ACTIVE\n\n    def prepare(self) -> None:\n"
_PROV_STORE = "        self._state = SessionTransactionState.PROVISIONING_CONNECTION\n\n        local_connect = False\n"
R.mutant("seed3-subtransaction-fast-path-outside-try-finally", SESSION,
         chain(sub(_PROV_STORE, "        self._state = SessionTransactionState.PROVISIONING_CONNECTION\n\n"
                                "        if self._parent and not self.nested:\n"
                                "            conn = self._parent._connection_for_bind(bind, execution_options)\n"
                                "            self._state = SessionTransactionState.ACTIVE\n            return conn\n\n        local_connect = False\n"),
               sub("                if not self.nested:\n                    return conn\n            else:\n                if isinstance(bind, engine.Connection):\n",
                   "            else:\n                if isinstance(bind, engine.Connection):\n")), "C32-R8")
R.mutant("provisioning-state-reset-after-try-instead-of-finally", SESSION,
         sub(_PROV_FINALLY, "        finally:\n            pass\n        self._state = SessionTransactionState.ACTIVE\n\n    def prepare(self) -> None:\n"), "C32-R8")
R.mutant("provisioning-state-reset-only-for-own-connection", SESSION,
         sub(_PROV_FINALLY, "        finally:\n            if local_connect:\n                self._state = SessionTransactionState.ACTIVE\n\n    def prepare(self) -> None:\n"), "C32-R8")
R.mutant("provisioning-state-reset-only-on-sqlalchemy-errors", SESSION,
         sub(_PROV_FINALLY, "        except sa_exc.SQLAlchemyError:\n            self._state = SessionTransactionState.ACTIVE\n            raise\n"
                            "        else:\n            self._state = SessionTransactionState.ACTIVE\n\n    def prepare(self) -> None:\n"), "C32-R8")
R.mutant("benign-subtransaction-fast-path-with-own-finally", SESSION,
         chain(sub(_PROV_STORE, "        self._state = SessionTransactionState.PROVISIONING_CONNECTION\n\n"
                                "        if self._parent and not self.nested:\n            try:\n"
                                "                return self._parent._connection_for_bind(bind, execution_options)\n"
                                "            finally:\n                self._state = SessionTransactionState.ACTIVE\n\n        local_connect = False\n"),
               sub("                if not self.nested:\n                    return conn\n            else:\n                if isinstance(bind, engine.Connection):\n",
                   "            else:\n                if isinstance(bind, engine.Connection):\n")), None)
R.mutant("benign-provisioning-state-set-inside-try", SESSION,
         chain(sub(_PROV_STORE, "        local_connect = False\n"),
               sub("        should_commit = True\n\n        try:\n            if self._parent:\n",
                   "        should_commit = True\n\n        try:\n            self._state = SessionTransactionState.PROVISIONING_CONNECTION\n            if self._parent:\n")), None)
R.mutant("benign-provisioning-state-reset-in-helper-method", SESSION,
         sub(_PROV_FINALLY, "        finally:\n            self._provisioning_done()\n\n    def _provisioning_done(self) -> None:\n"
                            "        active = SessionTransactionState.ACTIVE\n        self._state = active\n\n    def prepare(self) -> None:\n"), None)
# C32-R9 `pending-and-registered` fires on the unchanged tree (findings/C32_failed_registration_keeps_new_objects_in_identity_map.py);
# self-tests are judged relative to that baseline, so only the repaired shapes (must be silent) can be replayed today.  The breaking
# twins below were replayed by hand against a tree with the fix applied (notes/str2-m.md) and can be enabled once /repo is fixed.
_EXP_OLD2 = "            if state in self._new:\n                self._new.pop(state)\n            elif self.identity_map.contains_state(state):\n"
R.mutant("benign-expunge-states-discards-registered-pending-state", SESSION,
         sub(_EXP_OLD2, "            if state in self._new:\n                self._new.pop(state)\n                if self.identity_map.contains_state(state):\n"
                        "                    self.identity_map.safe_discard(state)\n            elif self.identity_map.contains_state(state):\n"), None)
R.mutant("benign-expunge-states-independent-tests-and-aliases", SESSION,
         sub(_EXP_OLD2 + "                self.identity_map.safe_discard(state)\n                self._deleted.pop(state, None)\n            elif self._transaction:\n",
             "            pending = self._new\n            imap = self.identity_map\n            was_pending = state in pending\n            if was_pending:\n                pending.pop(state)\n"
             "            if imap.contains_state(state):\n                imap.safe_discard(state)\n                self._deleted.pop(state, None)\n"
             "            elif not was_pending and self._transaction:\n"), None)
# R.mutant("expunge-states-fixed-then-discard-only-when-not-transient", SESSION,   # needs the fix in /repo first
#          sub(<fixed text>, "... if not to_transient and self.identity_map.contains_state(state): ..."), "C32-R9")
