"""C13 -- Column defaults / onupdate fire exactly when the value is omitted (branch exclusivity, thin)."""

from __future__ import annotations

import ast
import re

from ..astutil import (
    ancestors, call_name, calls_in, dotted, enclosing_stmt, guard_atoms, lexical_guards, name_stores, subscript_stores,
    unparse, walk_local,
)
from ..report import Registry, chain, sub
from ._helpers_rules_b import call_sites, ordinal_keys
from . import _helpers_rob_D2 as RD

R = Registry(
    "C13",
    title="Column defaults and onupdate fire exactly when the value is omitted",
    decides=(
        "compile time (sql/crud.py): every call of a default-applying function (_append_param_insert_*, "
        "_append_param_update, _process_multiparam_default_bind, direct prefetch-bind creation) sits in the else-chain "
        "of a `<column key> in <supplied values>` test of its column-scanning function, the value-consuming call "
        "sits in the true branch, and no other module calls them; client-side default/onupdate tests precede the "
        "server-side ones in one if/elif chain (exactly one arm per column); insert paths create insert-prefetch "
        "binds from .default, update paths update-prefetch binds from .onupdate; execution time "
        "(DefaultExecutionContext._process_execute_defaults): insert_prefetch is paired with the .default "
        "description and get_insert_default, update_prefetch with .onupdate and get_update_default, each "
        "(row, column) gets at most one store chosen by an if/elif chain whose tests and uses follow the field "
        "order of _DefaultDescriptionTuple, current_parameters/current_column are set before a callable runs; "
        "the supplied-vs-default decision of every column scan (first row, later multi-VALUES rows, INSERT FROM "
        "SELECT, multi-table UPDATE) reads key membership only, never the supplied value or the column's default "
        "state (R4); every default-applying loop covers the table's whole column collection in every ordering mode "
        "(ordered_values: named columns + all remaining ones, filtered by nothing else) and no default application "
        "is narrowed by a positive `key in <supplied>` guard (R5); ORM flush: each record's post-fetch receives the "
        "compiled parameter set of its own row after an executemany (R6); which prefetch list is processed at execution "
        "time, and whether defaults are processed at all, depends on the lists only (R3); the bind parameter of a "
        "Python-side default / onupdate is named by the same getter that computes the key under which the value is "
        "stored, in particular '<table>_<key>' for columns of extra FROM tables of a multi-table UPDATE (R7)."
    ),
    not_decided="the values stored; Core executemany with heterogeneous dictionaries (documented: only the first dictionary "
                "determines the VALUES columns); the ORM's 'None means omitted' rule for INSERT; server-side defaults.",
)

CRUD = "sql/crud.py"
DEF = "engine/default.py"
SUPPLIED_BRANCH = "_append_param_parameter"


def _default_family(ctx):
    m = ctx.index.module(CRUD)
    fam = {}
    for name, f in m.functions.items():
        if (name.startswith("_append_param_") and name != SUPPLIED_BRANCH) or name == "_process_multiparam_default_bind" \
                or re.fullmatch(r"_create_(insert|update)_prefetch_bind_param", name):
            fam[name] = f
    ctx.require(len(fam) >= 6, f"default-applying family of sql/crud.py not found ({sorted(fam)})")
    return m, fam


def _membership(test, pol=True):
    """[(key text, mapping name)] for positive atoms `K in M` of a test taken with polarity `pol`."""
    out = []
    for txt, p in guard_atoms([(test, pol)]):
        mm = re.fullmatch(r"(.+) in (\w+)", txt)
        if mm and p:
            out.append((mm.group(1), mm.group(2)))
    return out


def _derives_from_param(name, f, depth=0, seen=frozenset()):
    if name in f.params:
        return True
    if depth > 4 or name in seen:
        return False
    for n, v, st in name_stores(f.node):
        if n != name:
            continue
        src = v if v is not None else (st.iter if isinstance(st, (ast.For, ast.AsyncFor)) else None)
        if src is None:
            continue
        for x in ast.walk(src):
            if isinstance(x, ast.Name) and x.id != name and _derives_from_param(x.id, f, depth + 1, seen | {name}):
                return True
    return False


def _supplied_mapping(name, f) -> bool:
    """`name` holds the values supplied by the statement: it derives from a parameter of the scanning
    function AND its values are consumed by key there (`M[k]`, `M.pop(k)`, `M.get(k)`) or it is handed
    to the value-consuming branch `_append_param_parameter`."""
    if not _derives_from_param(name, f):
        return False
    for n in walk_local(f.node, into_nested=True):
        if isinstance(n, ast.Subscript) and isinstance(n.value, ast.Name) and n.value.id == name and isinstance(n.ctx, ast.Load) \
                and not isinstance(n.slice, ast.Slice):
            return True
        if isinstance(n, ast.Call):
            if isinstance(n.func, ast.Attribute) and n.func.attr in ("pop", "get") and isinstance(n.func.value, ast.Name) \
                    and n.func.value.id == name:
                return True
            if call_name(n) == SUPPLIED_BRANCH and any(isinstance(a, ast.Name) and a.id == name for a in n.args):
                return True
    return False


def _guards(ctx, pm, f, st):
    """Branch outcomes under which `st` runs: the enclosing if/elif/else arms plus the CFG's dominating outcomes, so that
    `if supplied: use it; continue` + default code is read like `if supplied: use it else: default code`."""
    out = list(lexical_guards(pm, st, stop=f.node))
    seen = {(id(t), p) for t, p in out}
    try:
        g = ctx.cfg(f)
        nodes = g.nodes_for(st)
    except Exception:  # pragma: no cover - a function the CFG builder cannot handle: lexical guards only
        nodes = []
    for nid in nodes[:1]:
        for t, p in g.edge_guards(nid):
            if (id(t), p) not in seen:
                seen.add((id(t), p))
                out.append((t, p))
    return out


@R.rule("C13-R1", floor=16, template="T-GUARD",
        desc="every call of a default-applying function in sql/crud.py is in the else-chain of a `key in <supplied "
             "values>` test (the supplied mapping derives from the statement's parameters); the value-consuming "
             "branch is under the positive test; nothing outside sql/crud.py calls the family")
def r1(ctx):
    m, fam = _default_family(ctx)
    pm = m.parents()
    sites = []
    for f in m.functions.values():
        if f.name in fam or f.is_overload:
            continue
        for c in calls_in(f.node, into_nested=True):
            nm = call_name(c)
            if nm in fam:
                sites.append((f, c, nm))
    sites.sort(key=lambda s: (s[1].lineno, s[1].col_offset))
    ctx.require(sites, "no call of the default-applying family found")
    for key, (f, c, nm) in ordinal_keys(sites, lambda s: f"{s[0].key}:{s[2]}"):
        ctx.functions_analysed.add(f.key)
        st = enclosing_stmt(pm, c)
        guards = _guards(ctx, pm, f, st)
        ok, why = False, "no enclosing `key in <supplied>` test"
        for t, pol in guards:
            if pol is not False:
                continue
            for k, mp in _membership(t, True):
                if _supplied_mapping(mp, f):
                    ok, why = True, f"else-chain of `{unparse(t)[:60]}`"
                else:
                    why = f"`{mp}` in `{unparse(t)[:50]}` is not the mapping of values supplied by the statement"
        ctx.check(ok, key,
                  f"`{nm}(...)` is not confined to the 'no value supplied' side ({why}): a column default would be "
                  f"applied although the statement supplies a value (or the supplied value would be dropped)",
                  why, f"{m.path}:{c.lineno}")
    # the supplied branch
    sup = []
    for f in m.functions.values():
        for c in calls_in(f.node, into_nested=True):
            if call_name(c) == SUPPLIED_BRANCH:
                sup.append((f, c))
    ctx.require(sup, f"no call of {SUPPLIED_BRANCH}")
    for key, (f, c) in ordinal_keys(sup, lambda s: f"{s[0].key}:{SUPPLIED_BRANCH}"):
        st = enclosing_stmt(pm, c)
        ok = False
        for t, pol in _guards(ctx, pm, f, st):
            if pol is True and any(_supplied_mapping(mp, f) for k, mp in _membership(t, True)):
                ok = True
        ctx.check(ok, key, f"`{SUPPLIED_BRANCH}(...)` (use the supplied value) is not under a positive `key in <supplied>` test",
                  "under `key in <supplied values>`", f"{m.path}:{c.lineno}")
    # nobody else applies the family
    for name, fn in sorted(fam.items()):
        ext = [f"{cf.key}" for cf, cc in call_sites(ctx.index, fn) if cf.module.relpath != CRUD]
        ctx.check(not ext, f"{fn.key}:callers-inside-crud",
                  f"{name} is called from outside sql/crud.py ({ext}): the 'value omitted' guard of the column scan is bypassed",
                  "only called inside sql/crud.py", fn.loc, nontrivial=False)


def _mentions(test, attr):
    """Does the test contain `<x>.<attr> is not None`?"""
    for n in ast.walk(test):
        if isinstance(n, ast.Compare) and len(n.ops) == 1 and isinstance(n.ops[0], ast.IsNot) \
                and isinstance(n.left, ast.Attribute) and n.left.attr == attr \
                and isinstance(n.comparators[0], ast.Constant) and n.comparators[0].value is None:
            return True
    return False


@R.rule("C13-R2", floor=6, template="T-GUARD",
        desc="client-side and server-side default arms are one if/elif chain with the client-side test first "
             "(default before server_default, onupdate before server_onupdate); every effect of _append_param_update "
             "lies inside its single chain")
def r2(ctx):
    m = ctx.index.module(CRUD)
    pm = m.parents()
    pairs = (("server_default", "default"), ("server_onupdate", "onupdate"))
    found = []
    for f in m.functions.values():
        if f.is_overload:
            continue
        for n in walk_local(f.node, into_nested=True):
            if isinstance(n, ast.If):
                for server, client in pairs:
                    if _mentions(n.test, server):
                        found.append((f, n, server, client))
    found.sort(key=lambda x: x[1].lineno)
    ctx.require(found, "no server-side default test found in sql/crud.py")
    for key, (f, n, server, client) in ordinal_keys(found, lambda x: f"{x[0].key}:{x[2]}-after-{x[3]}"):
        ctx.functions_analysed.add(f.key)
        arm_guards = _guards(ctx, pm, f, n)
        ok = any(pol is False and _mentions(t, client) for t, pol in arm_guards)
        ctx.check(ok, key,
                  f"`if {unparse(n.test)[:60]}` is not an elif of the `.{client} is not None` test: a column with both a "
                  f"Python-side {client} and a {server} could get both (or the server one could win)",
                  f"elif after the `.{client}` arm", f"{m.path}:{n.lineno}")
    # _append_param_update: a column gets at most one VALUES entry and at most one fetch disposition
    # (implicit RETURNING or post-fetch) -- no CFG path runs two effects of the same kind, however the arms are
    # written (one if/elif chain, guard clauses with early return, ...)
    f = ctx.func(f"{CRUD}::_append_param_update")
    gu = ctx.cfg(f)
    effects = [c for c in calls_in(f.node) if isinstance(c.func, ast.Attribute) and c.func.attr in ("append", "extend")]
    ctx.require(effects, "_append_param_update has no effects")
    groups = {}
    for c in effects:
        recv = (dotted(c.func.value) or unparse(c.func.value)).rsplit(".", 1)[-1]
        kind = "fetch disposition" if recv in ("implicit_returning", "postfetch") else recv
        groups.setdefault(kind, []).extend(gu.nodes_for(enclosing_stmt(pm, c)))
    twice = []
    for kind, nodes in sorted(groups.items()):
        for y in nodes:
            w = gu.witness([y], nodes, edge_ok=lambda a, b, l: l != "exc")
            if w is not None:
                twice.append((kind, gu.describe_path(w)))
    ctx.check(not twice and {"values", "fetch disposition"} <= set(groups), f"{f.key}:single-chain",
              f"_append_param_update can apply two arms to one column: {[k for k, _ in twice] or sorted(groups)} effect happens "
              f"twice on one path",
              f"{len(effects)} effects, at most one per kind ({', '.join(sorted(groups))}) on every path", f.loc,
              twice[0][1] if twice else None)
    # client-side onupdate value only in the onupdate arm
    upd = [c for c in calls_in(f.node) if (call_name(c) or "").endswith("_create_update_prefetch_bind_param")
           or "onupdate.arg" in unparse(c)]
    bad = []
    for c in upd:
        atoms = guard_atoms(lexical_guards(pm, enclosing_stmt(pm, c), stop=f.node))
        if not any(p is False and re.fullmatch(r"\w+\.onupdate is None", a) for a, p in atoms):
            bad.append(unparse(c)[:50])
    ctx.check(not bad and upd, f"{f.key}:onupdate-arm",
              f"onupdate value is applied outside the `c.onupdate is not None` arm: {bad}", f"{len(upd)} uses under `c.onupdate is not None`", f.loc)


def _attr_names(node):
    return {a.attr for a in ast.walk(node) if isinstance(a, ast.Attribute)}


class _NotAboutTheLists(Exception):
    pass


def _pf_value(e, model):
    """Value of an expression that reads nothing but the prefetch lists, in the model {<kind>_prefetch: has columns?}
    (a filled list is [0], an empty one [])."""
    import operator as op
    if isinstance(e, ast.Attribute) and e.attr in model:
        return [0] if model[e.attr] else []
    if isinstance(e, ast.Constant):
        return e.value
    if isinstance(e, ast.Call) and isinstance(e.func, ast.Name) and e.func.id in ("len", "bool", "list", "tuple") and len(e.args) == 1 \
            and not e.keywords:
        return {"len": len, "bool": bool, "list": list, "tuple": tuple}[e.func.id](_pf_value(e.args[0], model))
    if isinstance(e, ast.UnaryOp) and isinstance(e.op, ast.Not):
        return not _pf_value(e.operand, model)
    if isinstance(e, ast.BinOp) and isinstance(e.op, ast.Add):
        return _pf_value(e.left, model) + _pf_value(e.right, model)
    if isinstance(e, ast.BoolOp):
        v = None
        for x in e.values:
            v = _pf_value(x, model)
            if bool(v) != isinstance(e.op, ast.And):
                return v
        return v
    if isinstance(e, ast.Compare):
        ops = {ast.Eq: op.eq, ast.NotEq: op.ne, ast.Gt: op.gt, ast.GtE: op.ge, ast.Lt: op.lt, ast.LtE: op.le, ast.Is: op.is_, ast.IsNot: op.is_not}
        left = _pf_value(e.left, model)
        for o, r in zip(e.ops, e.comparators):
            if type(o) not in ops:
                raise _NotAboutTheLists()
            right = _pf_value(r, model)
            try:
                if not ops[type(o)](left, right):
                    return False
            except TypeError:
                raise _NotAboutTheLists()
            left = right
        return True
    raise _NotAboutTheLists()


def _kleene(test, model, neutral, unknown):
    """three-valued truth of `test` in the model: leaves that read only the prefetch lists are evaluated, any other
    leaf is unknown (collected in `unknown` unless it only reads `neutral` state)"""
    if isinstance(test, ast.UnaryOp) and isinstance(test.op, ast.Not):
        v = _kleene(test.operand, model, neutral, unknown)
        return None if v is None else not v
    if isinstance(test, ast.BoolOp):
        vs = [_kleene(v, model, neutral, unknown) for v in test.values]
        if isinstance(test.op, ast.And):
            return False if any(v is False for v in vs) else (True if all(v is True for v in vs) else None)
        return True if any(v is True for v in vs) else (False if all(v is False for v in vs) else None)
    try:
        return bool(_pf_value(test, model))
    except _NotAboutTheLists:
        reads = {dotted(n) or unparse(n) for n in ast.walk(test) if isinstance(n, (ast.Attribute, ast.Name))
                 and not any(isinstance(p_, ast.Attribute) and p_.value is n for p_ in ast.walk(test))}
        if not (reads and reads <= set(neutral) | {"len", "bool"}):
            unknown.append(test)
        return None


def _selector_verdict(guards, model, neutral, judge_all):
    """Do the branch outcomes `guards` hold in the model (own list filled, other list empty)?
    ('ok', ..) | ('contradiction', text) | ('narrowed', [leaf texts]) | ('unknown', [leaf texts])"""
    for t, p in guards:
        if not judge_all and not any(isinstance(n, ast.Attribute) and n.attr in model for n in ast.walk(t)):
            continue
        unknown = []
        v = _kleene(t, model, neutral, unknown)
        if v is None:
            if not unknown:
                continue
            opaque = [u for u in unknown if any(isinstance(n, ast.Call) and not (isinstance(n.func, ast.Name) and n.func.id in ("len", "bool"))
                                                for n in ast.walk(u))]
            return ("unknown" if opaque else "narrowed"), [unparse(u)[:60] for u in unknown], (unparse(t)[:90], p)
        if v != p:
            return "contradiction", [], (unparse(t)[:90], p)
    return "ok", [], None


def _report_selector(ctx, key, verdict, kind, what, loc):
    how, leaves, guard = verdict
    other = "update" if kind == "insert" else "insert"
    if how == "ok":
        ctx.ok(key, f"{what} whenever `{kind}_prefetch` has columns (and `{other}_prefetch` has none)")
        return
    ctx.require(how != "unknown", f"{key}: the condition `{guard[0]}` ({guard[1]}) contains {leaves}, which is not understood")
    gtxt = f"`{guard[0]}` is {guard[1]}"
    if how == "contradiction":
        ctx.violation(key, f"{what} only when {gtxt}, which does not hold when `{kind}_prefetch` has columns and `{other}_prefetch` is "
                           f"empty: the Python-side {'defaults' if kind == 'insert' else 'onupdate values'} of these columns are never "
                           f"computed, their bind parameters keep the placeholder None", loc)
    else:
        ctx.violation(key, f"{what} only when {gtxt}: the choice depends on {leaves}, not (only) on whether the list has columns. The "
                           f"compiler fills `{kind}_prefetch` for every {kind.upper()} it compiles, including one nested in a CTE below a "
                           f"statement of another kind, while flags of the execution context / compiled object describe the top-level "
                           f"statement only -- the Python-side {'defaults' if kind == 'insert' else 'onupdate values'} of such columns "
                           f"are then never computed and their bind parameters keep the placeholder None", loc)


@R.rule("C13-R3", floor=18, template="T-SIBLING",
        desc="no cross-wiring between insert and update defaults: prefetch-bind creators append to the list of "
             "their kind and are called on paths that test .default / .onupdate respectively; "
             "_process_execute_defaults pairs insert_prefetch with the .default description and get_insert_default "
             "(update likewise), stores at most once per (row, column) following _DefaultDescriptionTuple's field "
             "order, and sets current_parameters / current_column before a callable default runs; which list is processed "
             "(and whether _process_execute_defaults is called at all) is decided by the prefetch lists themselves, never "
             "by flags that describe the top-level statement")
def r3(ctx):
    m = ctx.index.module(CRUD)
    pm = m.parents()
    kind_attr = {"insert": "default", "update": "onupdate"}
    # (a) creators
    for kind in ("insert", "update"):
        f = ctx.func(f"{CRUD}::_create_{kind}_prefetch_bind_param")
        apps = [dotted(c.func.value) for c in calls_in(f.node) if isinstance(c.func, ast.Attribute) and c.func.attr == "append"]
        ctx.check(apps == [f"compiler.{kind}_prefetch"], f"{f.key}:list",
                  f"_create_{kind}_prefetch_bind_param registers the column in {apps} (want compiler.{kind}_prefetch): the "
                  f"{'update' if kind == 'insert' else 'insert'} default would be executed for it",
                  f"appends to compiler.{kind}_prefetch", f.loc)
        # call sites: the path tests the attribute of the same kind
        sites = [(cf, cc) for cf, cc in call_sites(ctx.index, f) if not cf.is_overload]
        ctx.require(sites, f"_create_{kind}_prefetch_bind_param is never called")
        for key, (cf, cc) in ordinal_keys(sites, lambda s: f"{s[0].key}:_create_{kind}_prefetch_bind_param"):
            want, other = kind_attr[kind], kind_attr["update" if kind == "insert" else "insert"]
            attrs = _attr_names(cf.node)
            # attribute reads on the column in the whole function: the kind's attribute is consulted
            guards = lexical_guards(cf.module.parents(), enclosing_stmt(cf.module.parents(), cc), stop=cf.node)
            gattrs = set()
            for t, pol in guards:
                gattrs |= _attr_names(t)
            ok = want in attrs and (other not in gattrs)
            ctx.check(ok, key,
                      f"{cf.qualname} creates a {kind}-prefetch bind but its path consults "
                      f"{sorted(gattrs & {'default', 'onupdate'}) or sorted(attrs & {'default', 'onupdate'})} (want `.{want}`)",
                      f"path consults `.{want}`", f"{cf.module.path}:{cc.lineno}")
    # (b) execution time wiring.  The per-kind record lists are recognised by how they are built (comprehension, or
    # `recs = []` + append loop, also through a bound-method alias), their elements with local aliases resolved
    # (`getter = self.get_insert_default`).
    f = ctx.func(f"{DEF}::DefaultExecutionContext._process_execute_defaults")
    pmd = f.module.parents()
    g = ctx.cfg(f)
    defs = RD.single_defs(f.node)
    recs, all_builds = {}, {}
    for nm in sorted({n for n, v, st in name_stores(f.node)}):
        builds = RD.list_builds(f.node, nm, pmd)
        if not builds:
            continue
        for b in builds:
            if b.form in ("comp", "loop") and isinstance(RD.strip_cast(b.elt), ast.Tuple):
                it = RD.resolve(b.iter, defs)
                if isinstance(it, ast.Attribute) and it.attr.endswith("_prefetch") and not b.ifs:
                    kind = it.attr[: -len("_prefetch")]
                    ctx.require(kind not in recs, f"{kind}_prefetch records are built more than once")
                    recs[kind] = (nm, b, [RD.resolve(e, defs) for e in RD.strip_cast(b.elt).elts])
                    all_builds[nm] = builds
    ctx.require(set(recs) == {"insert", "update"}, f"prefetch record lists (one tuple per column of <compiled>.insert_prefetch / "
                                                   f".update_prefetch) not found ({sorted(recs)})")
    sch = ctx.index.cls("sql/schema.py::Column")
    for kind, (n, b, elts) in sorted(recs.items()):
        want = kind_attr[kind]
        desc_attrs = [e.attr for e in elts if isinstance(e, ast.Attribute) and e.attr.endswith("_description_tuple")]
        getters = [e.attr for e in elts if isinstance(e, ast.Attribute) and e.attr.startswith("get_") and e.attr.endswith("_default")]
        ctx.require(len(desc_attrs) == 1 and len(getters) == 1, f"{kind} prefetch record `{unparse(b.elt)[:80]}` not understood")
        # what does the description property read? what does the getter read?
        dprop = ctx.index.resolve_method(sch, desc_attrs[0])
        ctx.require(dprop is not None, f"Column.{desc_attrs[0]} not found")
        dreads = {a.attr for a in ast.walk(dprop.node) if isinstance(a, ast.Attribute) and dotted(a) in ("self.default", "self.onupdate")}
        gfun = ctx.index.resolve_method(f.cls, getters[0])
        ctx.require(gfun is not None, f"{getters[0]} not found")
        col_p = [p for p in gfun.params if p != "self"][0]
        greads = {a.attr for a in ast.walk(gfun.node) if isinstance(a, ast.Attribute) and isinstance(a.value, ast.Name)
                  and a.value.id == col_p and a.attr in ("default", "onupdate")}
        ctx.check(dreads == {want} and greads == {want}, f"{f.key}:{kind}-records",
                  f"{kind}_prefetch columns are paired with Column.{desc_attrs[0]} (reads {sorted(dreads)}) and {getters[0]} "
                  f"(reads {sorted(greads)}); both must read `.{want}`",
                  f"{desc_attrs[0]} / {getters[0]} both read `.{want}`", f.loc)
    # the two arms are exclusive (some branch outcome -- lexical or an early exit -- separates them), and an
    # append-loop build starts from an empty list
    g0 = RD.guards_of(g, pmd, f.node, recs["insert"][1].holder)
    g1 = RD.guards_of(g, pmd, f.node, recs["update"][1].holder)
    excl = any(t is t2 and p != p2 for t, p in g0 for t2, p2 in g1)
    stale = None
    for nm, builds in sorted(all_builds.items()):
        stale = stale or RD.loop_builds_fresh(g, builds)
    ctx.check(excl and stale is None, f"{f.key}:insert-update-exclusive",
              "insert and update prefetch records are not built in exclusive branches"
              + ("" if stale is None else " / the record list is appended to without being emptied first"),
              "if insert_prefetch / elif update_prefetch", f.loc, stale)
    # (b') WHICH list is processed is decided by the lists themselves (str2-f, round-2 seed C13/3): whenever
    # <compiled>.<kind>_prefetch has columns (and the other list is empty) the <kind> records are built, and
    # _process_execute_defaults is called.  Any other state that takes part in the choice (flags that describe the
    # top-level statement, ...) leaves the columns of a filled list unprocessed.
    row_iters = {unparse(RD.resolve(n.iter, defs)) for n in walk_local(f.node) if isinstance(n, ast.For)}
    for kind, (n, b, elts) in sorted(recs.items()):
        other = "update" if kind == "insert" else "insert"
        model = {f"{kind}_prefetch": True, f"{other}_prefetch": False}
        verdict = _selector_verdict(RD.guards_of(g, pmd, f.node, b.holder, defs), model, row_iters, judge_all=True)
        _report_selector(ctx, f"{f.key}:{kind}-arm-selected-by-its-prefetch-list", verdict, kind,
                         f"the records for `<compiled>.{kind}_prefetch` are built", f.loc)
    sites = [(cf, cc) for cf, cc in call_sites(ctx.index, f) if not cf.is_overload]
    ctx.require(sites, "_process_execute_defaults is never called")
    for key, (cf, cc) in ordinal_keys(sites, lambda s: f"{s[0].key}:_process_execute_defaults:called-whenever-a-prefetch-list-is-filled"):
        ctx.functions_analysed.add(cf.key)
        cpm = cf.module.parents()
        cdefs = RD.single_defs(cf.node)
        st = enclosing_stmt(cpm, cc)
        lex = [(RD.expand(t, cdefs), p) for t, p in lexical_guards(cpm, st, stop=cf.node)]
        dom = [x for x in RD.guards_of(ctx.cfg(cf), cpm, cf.node, st, cdefs)]
        lex_txt = {(unparse(t), p) for t, p in lex}
        dom_only = [(t, p) for t, p in dom if (unparse(t), p) not in lex_txt]
        worst = None
        for kind in ("insert", "update"):
            other = "update" if kind == "insert" else "insert"
            model = {f"{kind}_prefetch": True, f"{other}_prefetch": False}
            v = _selector_verdict(lex, model, set(), judge_all=True)
            if v[0] == "ok":
                v = _selector_verdict(dom_only, model, set(), judge_all=False)
            if v[0] != "ok" and worst is None:
                worst = (kind, v)
        if worst is None:
            ctx.ok(key, f"called under {[unparse(t)[:60] for t, p in lex] or 'no condition'}: holds whenever either list has columns")
        else:
            _report_selector(ctx, key, worst[1], worst[0], "_process_execute_defaults() is called", f"{cf.module.path}:{cc.lineno}")
    # (c) per row chain, following the description tuple's field order
    dt = ctx.index.cls("sql/base.py::_DefaultDescriptionTuple")
    fields = [s.target.id for s in dt.node.body if isinstance(s, ast.AnnAssign) and isinstance(s.target, ast.Name)]
    ctx.require(fields[:1] == ["arg"] and {"is_scalar", "is_callable", "is_sentinel"} <= set(fields), f"_DefaultDescriptionTuple fields changed: {fields}")
    rowloops = [n for n in walk_local(f.node) if isinstance(n, ast.For) and isinstance(RD.resolve(n.iter, defs), ast.Attribute)
                and RD.resolve(n.iter, defs).attr == "compiled_parameters"]
    ctx.require(len(rowloops) == 1 and isinstance(rowloops[0].target, ast.Name), "per-row loop over self.compiled_parameters not found")
    rowloop = rowloops[0]
    row = rowloop.target.id
    rec_names = {recs["insert"][0], recs["update"][0]}
    inner = [n for n in walk_local(rowloop) if isinstance(n, ast.For) and isinstance(n.iter, ast.Name) and n.iter.id in rec_names]
    ctx.require(len(inner) == 1 and isinstance(inner[0].target, ast.Tuple), "per-column loop over the prefetch records not found")
    tgt = inner[0].target.elts
    rec_elts = recs["insert"][2]
    ctx.require(len(tgt) == len(rec_elts), "record arity and loop target arity differ")
    # positions: column, key, description, getter
    pos_desc = [i for i, e in enumerate(rec_elts) if isinstance(e, ast.Attribute) and e.attr.endswith("_description_tuple")][0]
    pos_get = [i for i, e in enumerate(rec_elts) if isinstance(e, ast.Attribute) and e.attr.startswith("get_")][0]
    pos_cols = [i for i, e in enumerate(rec_elts) if isinstance(e, ast.Name)]
    ctx.require(pos_cols, "the record does not carry the column itself")
    pos_col = pos_cols[0]
    pos_key = [i for i in range(len(rec_elts)) if i not in (pos_desc, pos_get, pos_col)][0]
    same_layout = [type(e).__name__ for e in recs["update"][2]] == [type(e).__name__ for e in rec_elts]
    d_t = tgt[pos_desc]
    # the description is taken apart field by field: in the loop target, by a tuple assignment in the body, or by
    # attribute access on the named tuple
    if isinstance(d_t, ast.Name):
        unpack = [st for st in walk_local(inner[0]) if isinstance(st, ast.Assign) and len(st.targets) == 1
                  and isinstance(st.targets[0], (ast.Tuple, ast.List)) and isinstance(st.value, ast.Name) and st.value.id == d_t.id]
        if unpack:
            ctx.require(len(unpack) == 1 and any(unpack[0] is x for x in inner[0].body), "description tuple unpacked more than once / conditionally")
            d_t = unpack[0].targets[0]
    if isinstance(d_t, ast.Name):
        role = {fld: f"{d_t.id}.{fld}" for fld in fields}
        ctx.require(any(isinstance(a, ast.Attribute) and isinstance(a.value, ast.Name) and a.value.id == d_t.id and a.attr in fields
                        for a in ast.walk(inner[0])), "description tuple is neither unpacked nor read by field name")
    else:
        ctx.require(isinstance(d_t, (ast.Tuple, ast.List)) and len(d_t.elts) == len(fields) and all(isinstance(e, ast.Name) for e in d_t.elts),
                    "description tuple is not unpacked field by field")
        role = {fields[i]: d_t.elts[i].id for i in range(len(fields))}
    ctx.require(all(isinstance(tgt[i], ast.Name) for i in (pos_col, pos_key, pos_get)), "record fields are not bound to plain names")
    colv, keyv, getv = tgt[pos_col].id, tgt[pos_key].id, tgt[pos_get].id
    stores = [(s, st) for d, s, st in subscript_stores(inner[0]) if d == row]
    handed = [unparse(c)[:60] for c in calls_in(inner[0]) if any(isinstance(a, ast.Name) and a.id == row for a in c.args)]
    ctx.require(stores or not handed, f"the row is handed to {handed}: a per-column dispatch moved into a helper is not followed (not understood)")
    arms = {}
    for s, st in stores:
        atoms = sorted(RD.atoms_of(RD.guards_of(g, pmd, f.node, st, defs)))
        pos = [a for a, p in atoms if p]
        arm = next((r for r, var in role.items() if var in pos), "fallback")
        arms.setdefault(arm, []).append((s, st, atoms))
    problems = []
    if not same_layout:
        problems.append("insert and update records have different layouts")
    for arm in ("is_sentinel", "is_scalar", "is_callable", "fallback"):
        if len(arms.get(arm, [])) != 1:
            problems.append(f"{arm}: {len(arms.get(arm, []))} stores")
            continue
        s, st, atoms = arms[arm][0]
        if unparse(s.slice) != keyv:
            problems.append(f"{arm}: stores under `{unparse(s.slice)}` not the record's key `{keyv}`")
        val = st.value if isinstance(st, ast.Assign) else None
        vt = unparse(val) if val is not None else "?"
        if arm == "is_scalar" and vt != role["arg"]:
            problems.append(f"scalar arm stores `{vt}` not the default's arg `{role['arg']}`")
        if arm == "is_callable" and vt != f"{role['arg']}(self)":
            problems.append(f"callable arm stores `{vt}` not `{role['arg']}(self)`")
        if arm == "fallback":
            ok_fb = isinstance(val, ast.Name) and any(
                n2 == val.id and isinstance(v2, ast.Call) and isinstance(v2.func, ast.Name) and v2.func.id == getv
                and [unparse(a) for a in v2.args] == [colv] for n2, v2, st2 in name_stores(inner[0]))
            if not ok_fb:
                problems.append(f"fallback arm stores `{vt}` not `{getv}({colv})`")
    # arms are one chain: each later arm is guarded by the negation of the earlier tests
    chain_ok = True
    order = ["is_sentinel", "is_scalar", "is_callable"]
    if not problems:
        fb_atoms = arms["fallback"][0][2]
        chain_ok = all((role[r], False) in fb_atoms for r in order)
        for i, r in enumerate(order):
            a = arms[r][0][2]
            # exactly one positive role atom
            if sum(1 for x in order if (role[x], True) in a) != 1:
                chain_ok = False
    ctx.check(not problems and chain_ok, f"{f.key}:one-store-per-row-and-column",
              f"per-(row, column) default dispatch is not one if/elif chain with one store per arm following "
              f"_DefaultDescriptionTuple{tuple(fields)}: {problems or 'arms are not mutually exclusive'}",
              f"sentinel / scalar `{role['arg']}` / callable `{role['arg']}(self)` / `{getv}({colv})`, keyed by `{keyv}`", f.loc)
    # (d) context set before a callable / fallback default runs
    cur_par = [n.id for n in g.nodes if n.kind == "stmt" and isinstance(n.stmt, ast.Assign)
               and any(dotted(t) == "self.current_parameters" for t in n.stmt.targets) and unparse(n.stmt.value) == row]
    runs = [n.id for n in g.nodes if n.kind == "stmt" and n.stmt is not None and any(
        unparse(c.func) in (role["arg"], getv) for c in calls_in(n.stmt))]
    ctx.require(runs, "no execution of a callable / fallback default found")
    miss = None
    for rn in runs:
        w = g.always_preceded(rn, cur_par) if cur_par else ["self.current_parameters is never set to the row"]
        # and re-set for every row: on the path from the row-loop head to the run
        if w is None:
            head = g.nodes_for(rowloop)
            w = g.must_pass([b for b, lab in g.succ[head[0]] if lab == "true" and b not in cur_par], [rn], cur_par)
        miss = miss or w
    ctx.check(miss is None, f"{f.key}:current-parameters-set-per-row",
              "a context-sensitive default can run before self.current_parameters is set to the row being processed",
              "self.current_parameters = <row> on every path into a default call", f.loc, miss)
    # self.current_column = <column> on every path from the start of the column's round to the callable's invocation
    call_arm = arms.get("is_callable", [])
    colset, wit = False, None
    if call_arm:
        cn = g.nodes_for(call_arm[0][1])
        sets = [n.id for n in g.nodes if n.kind == "stmt" and isinstance(n.stmt, ast.Assign)
                and any(dotted(t) == "self.current_column" for t in n.stmt.targets) and unparse(n.stmt.value) == colv]
        head = g.nodes_for(inner[0])
        if cn and head:
            wit = g.must_pass([b for b, lab in g.succ[head[0]] if lab == "true" and b not in sets], cn, sets, edge_ok=lambda a, b, l: l != "exc")
            colset = bool(sets) and wit is None
    ctx.check(colset, f"{f.key}:current-column-set-before-callable",
              f"the callable default is invoked without `self.current_column = {colv}` first (context.current_column would be stale)",
              f"self.current_column = {colv} precedes the call", f.loc, wit)


# ---------------------------------------------------------------------- R4 / R5 (added by str-e)
DEFAULT_STATE_ATTRS = ("default", "onupdate", "server_default", "server_onupdate")


def _fam_sites(ctx):
    """[(function, call, callee name)] for every call of the default-applying family outside the family."""
    m, fam = _default_family(ctx)
    sites = []
    for f in m.functions.values():
        if f.name in fam or f.is_overload:
            continue
        for c in calls_in(f.node, into_nested=True):
            nm = call_name(c)
            if nm in fam:
                sites.append((f, c, nm))
    sites.sort(key=lambda s: (s[1].lineno, s[1].col_offset))
    return m, fam, sites


def _leaves(test):
    """Leaves of the and/or/not tree of a condition."""
    if isinstance(test, ast.BoolOp):
        out = []
        for v in test.values:
            out.extend(_leaves(v))
        return out
    if isinstance(test, ast.UnaryOp) and isinstance(test.op, ast.Not):
        return _leaves(test.operand)
    return [test]


def _is_membership(leaf):
    return isinstance(leaf, ast.Compare) and len(leaf.ops) == 1 and isinstance(leaf.ops[0], (ast.In, ast.NotIn))


def _reads_value_of(leaf, mappings):
    """text of the first read of a supplied *value* (M[k], M.get(k), M.pop(k)) or of a column's default state
    inside the leaf, else None."""
    for n in ast.walk(leaf):
        if isinstance(n, ast.Subscript) and isinstance(n.value, ast.Name) and n.value.id in mappings:
            return unparse(n)
        if isinstance(n, ast.Call) and isinstance(n.func, ast.Attribute) and n.func.attr in ("get", "pop", "setdefault") \
                and isinstance(n.func.value, ast.Name) and n.func.value.id in mappings:
            return unparse(n)
        if isinstance(n, ast.Attribute) and n.attr in DEFAULT_STATE_ATTRS:
            return unparse(n)
    return None


@R.rule("C13-R4", floor=4, template="T-GUARD (what the supplied/omitted decision may read)",
        desc="every test that decides between 'use the supplied value' and 'apply the default' for a column (first "
             "row, later multi-VALUES rows, INSERT..FROM SELECT, multi-table UPDATE) is built from key-membership "
             "atoms only: it never reads the supplied value (M[k], M.get(k)) nor the column's default state, so a "
             "supplied None is as 'supplied' as any other value in every sibling")
def r4(ctx):
    m, fam, sites = _fam_sites(ctx)
    pm = m.parents()
    gates = {}
    for f, c, nm in sites:
        for t, pol in _guards(ctx, pm, f, enclosing_stmt(pm, c)):
            sup = {mp for k, mp in _membership_any(t) if _supplied_mapping(mp, f)}
            if sup and pol is False:
                gates.setdefault(id(t), (f, t, sup))
    for f in m.functions.values():
        for c in calls_in(f.node, into_nested=True):
            if call_name(c) == SUPPLIED_BRANCH:
                for t, pol in _guards(ctx, pm, f, enclosing_stmt(pm, c)):
                    sup = {mp for k, mp in _membership_any(t) if _supplied_mapping(mp, f)}
                    if sup and pol is True:
                        gates.setdefault(id(t), (f, t, sup))
    # one instance per column-scanning function (stable under edits that remove a gate: C13-R1 reports those)
    scanners = {}
    for f, c, nm in sites:
        scanners.setdefault(f.key, f)
    for f in m.functions.values():
        if any(call_name(c) == SUPPLIED_BRANCH for c in calls_in(f.node, into_nested=True)):
            scanners.setdefault(f.key, f)
    ctx.require(gates, "no supplied-vs-default gating test found in sql/crud.py")
    for fkey, f in sorted(scanners.items()):
        ctx.functions_analysed.add(fkey)
        mine = sorted((g for g in gates.values() if g[0] is f), key=lambda x: (x[1].lineno, x[1].col_offset))
        key = f"{fkey}:supplied-test"
        if not mine:
            ctx.ok(key, "no `key in <supplied values>` gate recognised here (reported by C13-R1)", nontrivial=False)
            continue
        bad, unknown = [], []
        for _, t, sup in mine:
            for leaf in _leaves(t):
                rd = _reads_value_of(leaf, sup)
                if _is_membership(leaf) and rd is None:
                    continue
                if rd is not None:
                    bad.append((t, unparse(leaf)[:70], rd))
                else:
                    unknown.append(unparse(leaf)[:70])
        ctx.require(not unknown or bad, f"{fkey}: conjunct(s) {unknown} of a supplied/omitted test are neither key membership "
                                        f"nor a value/default read (not understood)")
        ctx.check(not bad, key,
                  "; ".join(f"the test `{unparse(t)[:110]}` that chooses between the supplied value and the column default "
                            f"reads `{rd}` (in `{lf}`)" for t, lf, rd in bad)
                  + ": whether a value counts as supplied must depend on key membership only -- a supplied value (e.g. None) "
                    "would be replaced by the default, and rows/siblings that use the plain membership test would disagree",
                  " | ".join(f"`{unparse(t)[:70]}`" for _, t, _ in mine) + ": membership atoms only",
                  f"{m.path}:{mine[0][1].lineno}")


def _membership_any(test):
    """[(key text, mapping name)] for every `K in M` / `K not in M` leaf of a test (any polarity)."""
    out = []
    for leaf in _leaves(test):
        if _is_membership(leaf) and isinstance(leaf.comparators[0], ast.Name):
            out.append((unparse(leaf.left), leaf.comparators[0].id))
    return out


def _is_full_collection(e):
    """`<table expr>.c` / `<table expr>.columns`: the complete column collection of a table."""
    return isinstance(e, ast.Attribute) and e.attr in ("c", "columns")


def _flatten_add(e):
    if isinstance(e, ast.BinOp) and isinstance(e.op, ast.Add):
        return _flatten_add(e.left) + _flatten_add(e.right)
    return [e]


def _partition_problems(parts, f):
    """`[T[k] for k in S if ...] + [c for c in T if c.key not in set(S)]`: problems that make the concatenation differ
    from 'every column of T exactly once' (list of str); None when the shape is not understood."""
    comps = [p for p in parts if isinstance(p, ast.ListComp) and len(p.generators) == 1]
    if len(comps) == 1 and len(parts) == 1 and _is_full_collection(comps[0].generators[0].iter):
        # one comprehension over the whole collection: any filter leaves columns out
        g0 = comps[0].generators[0]
        if not (isinstance(g0.target, ast.Name) and isinstance(comps[0].elt, ast.Name) and comps[0].elt.id == g0.target.id):
            return None
        return [f"the table's columns are filtered by `{unparse(c)[:60]}` before the scan" for c in g0.ifs]
    if len(comps) != len(parts) or len(parts) != 2:
        return None
    full = [p for p in comps if _is_full_collection(p.generators[0].iter)]
    keyed = [p for p in comps if not _is_full_collection(p.generators[0].iter)]
    if len(full) != 1 or len(keyed) != 1:
        return None
    rest, named = full[0], keyed[0]
    rg, ng = rest.generators[0], named.generators[0]
    if not (isinstance(rg.target, ast.Name) and isinstance(rest.elt, ast.Name) and rest.elt.id == rg.target.id):
        return None
    if not (isinstance(ng.target, ast.Name) and isinstance(ng.iter, ast.Name)):
        return None
    # the named part picks T[k] for the keys k of S
    if not (isinstance(named.elt, ast.Subscript) and _is_full_collection(named.elt.value)
            and isinstance(named.elt.slice, ast.Name) and named.elt.slice.id == ng.target.id):
        return None
    problems = []
    src = ng.iter.id
    colv = rg.target.id
    # complement filter: only `c.key not in K` / `c not in K`, K = the keys of S
    compl = 0
    for cond in rg.ifs:
        if not _conj(cond, True):
            problems.append(f"the remaining-columns filter `{unparse(cond)[:60]}` is a disjunction: a column could be scanned "
                            f"twice or not at all")
            continue
        for leaf, pol in _signed_leaves(cond, True):
            ok = False
            if _is_membership(leaf) and isinstance(leaf.comparators[0], ast.Name):
                neg = isinstance(leaf.ops[0], ast.NotIn) == pol   # effective polarity: "not in"
                lhs = leaf.left
                on_col = (isinstance(lhs, ast.Name) and lhs.id == colv) or \
                    (isinstance(lhs, ast.Attribute) and isinstance(lhs.value, ast.Name) and lhs.value.id == colv and lhs.attr in ("key", "name"))
                if neg and on_col and _is_keyset_of(leaf.comparators[0].id, src, f):
                    ok = True
                    compl += 1
            if not ok:
                problems.append(f"the remaining-columns part additionally filters by `{unparse(leaf)[:60]}`: table columns "
                                f"not named in `{src}` are scanned only when that holds")
    if compl == 0:
        problems.append(f"the remaining-columns part does not exclude the columns already taken from `{src}` (scanned twice)")
    for cond in ng.ifs:
        for leaf in _leaves(cond):
            fine = False
            if isinstance(leaf, ast.Call) and call_name(leaf) == "isinstance" and leaf.args and isinstance(leaf.args[0], ast.Name) \
                    and leaf.args[0].id == ng.target.id:
                fine = True
            if _is_membership(leaf) and isinstance(leaf.ops[0], ast.In) and isinstance(leaf.left, ast.Name) \
                    and leaf.left.id == ng.target.id and _is_full_collection(leaf.comparators[0]):
                fine = True
            if not fine:
                problems.append(f"the named part filters by `{unparse(leaf)[:60]}`: a column named in `{src}` failing it is "
                                f"scanned by neither part")
    return problems


def _signed_leaves(test, pol):
    if isinstance(test, ast.UnaryOp) and isinstance(test.op, ast.Not):
        return _signed_leaves(test.operand, not pol)
    if isinstance(test, ast.BoolOp):
        out = []
        for v in test.values:
            out.extend(_signed_leaves(v, pol))
        return out
    return [(test, pol)]


def _is_keyset_of(name, src, f):
    """`name` is `src` itself or bound (once) to set(src) / frozenset(src) / {k for k in src}."""
    if name == src:
        return True
    binds = [v for n, v, st in name_stores(f.node) if n == name]
    if len(binds) != 1 or binds[0] is None:
        return False
    v = binds[0]
    if isinstance(v, ast.Call) and call_name(v) in ("set", "frozenset") and len(v.args) == 1 and isinstance(v.args[0], ast.Name):
        return v.args[0].id == src
    if isinstance(v, ast.SetComp) and len(v.generators) == 1 and isinstance(v.generators[0].iter, ast.Name) \
            and isinstance(v.elt, ast.Name) and isinstance(v.generators[0].target, ast.Name) \
            and v.elt.id == v.generators[0].target.id and not v.generators[0].ifs:
        return v.generators[0].iter.id == src
    return False


# column scans that are deliberately not "every column of the table"
PARTIAL_SCAN = {
    "sql/crud.py::_scan_insert_from_select_cols":
        "INSERT..FROM SELECT names its target columns; other columns take part only when they carry a Python-side default",
}


@R.rule("C13-R5", floor=9, template="T-SIBLING (coverage of the column iteration)",
        desc="every loop that applies defaults iterates over the complete column collection of the table in every "
             "mode: directly (`<table>.c` / `.columns`), as the caller's unfiltered list, or as `named columns + all "
             "remaining columns` where the remainder is filtered by nothing but 'not already named'; and no default "
             "application is additionally guarded by a positive `key in <supplied values>` test")
def r5(ctx):
    m, fam, sites = _fam_sites(ctx)
    pm = m.parents()
    loops = {}
    for f, c, nm in sites:
        loop = None
        for a in _ancestors(pm, c, f.node):
            if isinstance(a, (ast.For, ast.AsyncFor)):
                loop = a
                break
        if loop is not None:
            loops.setdefault(id(loop), (f, loop))
    ctx.require(loops, "no column loop around a default-applying call found")
    insts = []
    for f, loop in sorted(loops.values(), key=lambda x: x[1].lineno):
        ctx.functions_analysed.add(f.key)
        it = loop.iter
        if _is_full_collection(it):
            insts.append((f, loop, None, f"iterates `{unparse(it)}`"))
            continue
        ctx.require(isinstance(it, ast.Name), f"{f.key}: column loop iterates `{unparse(it)[:60]}` (not understood)")
        binds = [(v, st) for n, v, st in name_stores(f.node) if n == it.id]
        if f.key in PARTIAL_SCAN:
            ctx.ok(f"{f.key}:scanned-columns", f"partial by design: {PARTIAL_SCAN[f.key]}", nontrivial=False)
            continue
        if it.id in f.params and not binds:
            insts.append((f, loop, None, f"iterates the caller's list `{it.id}` unfiltered"))
            continue
        ctx.require(binds, f"{f.key}: `{it.id}` is never bound")
        for v, st in binds:
            insts.append((f, loop, (v, st), None))
    def shape(x):
        f, loop, bind, detail = x
        if bind is None or bind[0] is None:
            return "direct"
        v = bind[0]
        return "whole-collection" if _is_full_collection(v) else "caller-list" if isinstance(v, ast.Name) else "composed"

    for key, (f, loop, bind, detail) in ordinal_keys(insts, lambda x: f"{x[0].key}:scanned-columns[{shape(x)}]"):
        if bind is None:
            ctx.ok(key, detail)
            continue
        v, st = bind
        ctx.require(v is not None, f"{f.key}: `{unparse(loop.iter)}` bound by `{type(st).__name__}` (not understood)")
        if _is_full_collection(v):
            ctx.ok(key, f"`{unparse(v)}`")
            continue
        if isinstance(v, ast.Name) and v.id in f.params:
            ctx.ok(key, f"alias of the caller's list `{v.id}`")
            continue
        probs = _partition_problems(_flatten_add(v), f)
        ctx.require(probs is not None, f"{f.key}: the scanned column list `{unparse(v)[:90]}` is neither the table's column "
                                       f"collection nor `named + remaining` (not understood)")
        ctx.check(not probs, key,
                  f"the columns scanned by {f.qualname} in this mode are not 'every table column exactly once': "
                  f"{'; '.join(probs)} -- default / onupdate / server-side postfetch handling is skipped for the columns left out",
                  "named columns + every remaining column", f"{m.path}:{v.lineno}")
    # no default application narrowed by a positive membership in the supplied values
    by_fn = {}
    for f, c, nm in sites:
        by_fn.setdefault(f.key, (f, []))[1].append((c, nm))
    for fkey, (f, cs) in sorted(by_fn.items()):
        g = ctx.cfg(f)
        bad = []
        for c, nm in cs:
            st = enclosing_stmt(pm, c)
            guards = list(lexical_guards(pm, st, stop=f.node))
            for nid in g.nodes_for(st):
                guards.extend(g.edge_guards(nid))
            for t, pol in guards:
                for leaf, lp in _signed_leaves(t, pol) if _conj(t, pol) else []:
                    if _is_membership(leaf) and isinstance(leaf.comparators[0], ast.Name) \
                            and _supplied_mapping(leaf.comparators[0].id, f):
                        positive = isinstance(leaf.ops[0], ast.In) == lp
                        if positive:
                            bad.append(f"`{nm}(...)` at line {c.lineno} runs only when `{unparse(leaf)[:60]}`")
        ctx.check(not bad, f"{fkey}:default-path-not-narrowed-by-supplied-keys",
                  f"{'; '.join(sorted(set(bad)))}: a default is applied only to columns that have a supplied value "
                  f"(contradicts the 'no value supplied' side it lives on)",
                  f"{len(cs)} default application(s), none under a positive `key in <supplied>`", f.loc)


def _conj(t, pol):
    """Is (t, pol) decomposable into conjunctive signed leaves?  (`a and b` True, `a or b` False, leaf)."""
    while isinstance(t, ast.UnaryOp) and isinstance(t.op, ast.Not):
        t, pol = t.operand, not pol
    if isinstance(t, ast.BoolOp):
        if isinstance(t.op, ast.And) and pol or isinstance(t.op, ast.Or) and not pol:
            return all(_conj(v, pol) for v in t.values)
        return False
    return True


def _ancestors(pm, node, stop):
    for a in ancestors(pm, node):
        if a is stop:
            return
        yield a


# ---------------------------------------------------------------------- R6 (str-e): ORM executemany post-fetch
PERS = "orm/persistence.py"


def _innermost_loop(pm, node, stop):
    for a in _ancestors(pm, node, stop):
        if isinstance(a, (ast.For, ast.AsyncFor)):
            return a
    return None


def _is_compiled_params(e):
    """`<result>.context.compiled_parameters` -> name of <result>, else None."""
    if isinstance(e, ast.Attribute) and e.attr == "compiled_parameters" and isinstance(e.value, ast.Attribute) \
            and e.value.attr == "context" and isinstance(e.value.value, ast.Name):
        return e.value.value.id
    return None


@R.rule("C13-R6", floor=8, template="T-SIBLING (per-record parameter set after executemany)",
        desc="orm/persistence.py: every _postfetch / _postfetch_post_update call receives the compiled parameter set of "
             "ITS OWN row (the prefetched default / onupdate values copied onto the object are the ones stored for that "
             "row): `compiled_parameters[0]` only when the statement was executed for this record alone (execute() in "
             "the same loop iteration); after an executemany the set is taken by the record's index or zipped with the records")
def r6(ctx):
    m = ctx.index.module(PERS)
    pm = m.parents()
    sites = []
    for name in ("_postfetch", "_postfetch_post_update"):
        tgt = ctx.func(f"{PERS}::{name}")
        ctx.require("params" in tgt.params, f"{name} has no `params` parameter any more")
        pos = tgt.params.index("params")
        for f in m.functions.values():
            if f.is_overload or f is tgt:
                continue
            for c in calls_in(f.node, into_nested=True):
                if call_name(c) == name:
                    sites.append((f, c, name, pos))
    sites.sort(key=lambda x: (x[1].lineno, x[1].col_offset))
    ctx.require(sites, "no _postfetch call found in orm/persistence.py")
    judged = []
    for f, c, name, pos in sites:
        ctx.functions_analysed.add(f.key)
        kw = {k.arg: k.value for k in c.keywords if k.arg}
        arg = kw.get("params") if "params" in kw else (c.args[pos] if len(c.args) > pos else None)
        ctx.require(arg is not None and not any(isinstance(a, ast.Starred) for a in c.args),
                    f"{f.key}: `params` argument of `{name}(...)` at line {c.lineno} not found")
        loop = _innermost_loop(pm, c, f.node)
        loc = f"{m.path}:{c.lineno}"
        verdict, detail, tag = None, "", "per-record"
        if isinstance(arg, ast.Subscript) and _is_compiled_params(arg.value):
            res = _is_compiled_params(arg.value)
            idx = arg.slice
            if isinstance(idx, ast.Constant) and idx.value == 0:
                # which execute() produced <res>?  it must run once per record, i.e. inside the same innermost loop
                binds = [st for n, v, st in name_stores(f.node) if n == res and isinstance(v, ast.Call)
                         and isinstance(v.func, ast.Attribute) and v.func.attr == "execute"]
                ctx.require(binds, f"{f.key}: `{res}` is not bound to an execute() result")
                # the binding that reaches the call: the closest preceding one
                prior = [b for b in binds if b.lineno <= c.lineno]
                ctx.require(prior, f"{f.key}: no execute() precedes `{name}(...)` at line {c.lineno}")
                b = max(prior, key=lambda st: st.lineno)
                same_iter = loop is not None and _innermost_loop(pm, b, f.node) is loop
                if loop is None:
                    verdict, detail = True, f"single execution, `{res}.context.compiled_parameters[0]`"
                elif same_iter:
                    verdict, detail = True, f"execute() and post-fetch in the same iteration, `[0]` is this record's set"
                else:
                    verdict, tag = False, "after-executemany"
                    detail = (f"`{name}(...)` runs once per record in `for ... in {unparse(loop.iter)[:40]}` but receives "
                              f"`{unparse(arg)}` of the execute() at line {b.lineno}, which ran once for all records "
                              f"(executemany): every record is post-fetched with the FIRST row's prefetched default / "
                              f"onupdate values, although each row stored its own (sibling paths use the record's index / zip)")
            elif isinstance(idx, ast.Name):
                # index variable of the enclosing loop (enumerate)
                tn = {n.id for n in ast.walk(loop.target) if isinstance(n, ast.Name)} if loop is not None else set()
                enum = loop is not None and isinstance(loop.iter, ast.Call) and call_name(loop.iter) == "enumerate"
                verdict, tag = (idx.id in tn and enum), "after-executemany"
                detail = f"indexed by the record's position `{idx.id}`" if verdict else \
                    f"`{unparse(arg)}`: `{idx.id}` is not the enumerate() index of the record loop"
            else:
                ctx.require(False, f"{f.key}: index `{unparse(idx)}` of compiled_parameters not understood")
        elif isinstance(arg, ast.Name):
            tn = {n.id for n in ast.walk(loop.target) if isinstance(n, ast.Name)} if loop is not None else set()
            zipped = loop is not None and isinstance(loop.iter, ast.Call) and (call_name(loop.iter) or "").rsplit(".", 1)[-1] in ("zip", "zip_longest") \
                and any(_is_compiled_params(a) for a in loop.iter.args)
            ctx.require(arg.id in tn and zipped, f"{f.key}: `params={arg.id}` of `{name}(...)` at line {c.lineno} is not a loop variable "
                                                 f"zipped with compiled_parameters (not understood)")
            verdict, detail, tag = True, f"`{arg.id}` zipped with compiled_parameters per record", "after-executemany"
        else:
            ctx.require(False, f"{f.key}: `params` argument `{unparse(arg)[:60]}` of `{name}(...)` not understood")
        judged.append((f, name, tag, bool(verdict), detail, loc))
    for key, (f, name, tag, verdict, detail, loc) in ordinal_keys(
            judged, lambda x: f"{x[0].key}:{x[1]}:params-of-own-row[{x[2]}]"):
        ctx.check(verdict, key, detail, detail, loc)


# ---------------------------------------------------------------------- R7 (str2-f, round-2 seed C13/4)
COMPILER = "sql/compiler.py"


def _arg_of(call, callee, pname):
    """argument expression bound to parameter `pname` of `callee` (FuncInfo) at `call`; None when defaulted"""
    for k in call.keywords:
        if k.arg == pname:
            return k.value
    ps = [p for p in callee.params if not (callee.cls is not None and p in ("self", "cls"))]
    if pname in ps:
        i = ps.index(pname)
        if i < len(call.args) and not any(isinstance(a, ast.Starred) for a in call.args[: i + 1]):
            return call.args[i]
    return None


def _key_getter_source(ctx):
    """The function K of sql/crud.py and the index i such that the key under which _process_execute_defaults stores a
    computed default is `K(..)[i](column)`; also the chain as text.  Every link is read from the code:
    record key = <compiled>.<P>(c); SQLCompiler.<P> returns self.<A>; sql/crud.py stores <compiler>.<A> = N with
    (.., N, ..) = K(..)."""
    f = ctx.func(f"{DEF}::DefaultExecutionContext._process_execute_defaults")
    pmd = f.module.parents()
    defs = RD.single_defs(f.node)
    props = set()
    for nm in sorted({n for n, v, st in name_stores(f.node)}):
        for b in RD.list_builds(f.node, nm, pmd) or []:
            if b.form in ("comp", "loop") and isinstance(RD.strip_cast(b.elt), ast.Tuple) and isinstance(b.target, ast.Name):
                it = RD.resolve(b.iter, defs)
                if not (isinstance(it, ast.Attribute) and it.attr.endswith("_prefetch")):
                    continue
                keyed = [e for e in RD.strip_cast(b.elt).elts if isinstance(e, ast.Call) and len(e.args) == 1
                         and isinstance(e.args[0], ast.Name) and e.args[0].id == b.target.id]
                ctx.require(len(keyed) == 1, f"prefetch record `{unparse(b.elt)[:70]}` does not carry one `<key getter>(column)`")
                fn_ = RD.resolve(keyed[0].func, defs)
                ctx.require(isinstance(fn_, ast.Attribute), f"key getter `{unparse(keyed[0].func)}` of the prefetch records is not an attribute of the compiled object")
                props.add(fn_.attr)
    ctx.require(len(props) == 1, f"prefetch records are keyed by {sorted(props)} (expected one key getter for both lists)")
    prop = next(iter(props))
    pf = ctx.method(f"{COMPILER}::SQLCompiler", prop)
    pdefs = RD.single_defs(pf.node)
    rets = {unparse(RD.resolve(r.value, pdefs)) for r in walk_local(pf.node) if isinstance(r, ast.Return) and r.value is not None}
    ctx.require(len(rets) == 1 and re.fullmatch(r"self\.\w+", next(iter(rets))), f"SQLCompiler.{prop} returns {sorted(rets)} (expected one attribute of the compiler)")
    attr = next(iter(rets)).split(".", 1)[1]
    m = ctx.index.module(CRUD)
    sources = set()
    for fn in m.functions.values():
        if fn.is_overload:
            continue
        for d, _t, st in _attr_stores(fn.node):
            if d.endswith("." + attr) and d.count(".") == 1:
                v = getattr(st, "value", None)
                ctx.require(isinstance(v, ast.Name), f"{fn.key}: `{unparse(st)[:70]}` does not store a plain local")
                src = None
                for n2 in walk_local(fn.node):
                    if isinstance(n2, ast.Assign) and len(n2.targets) == 1 and isinstance(n2.targets[0], (ast.Tuple, ast.List)) \
                            and isinstance(n2.value, ast.Call) and call_name(n2.value) in m.functions:
                        names = [e.id if isinstance(e, ast.Name) else None for e in n2.targets[0].elts]
                        if v.id in names:
                            src = (call_name(n2.value), names.index(v.id), fn, v.id)
                ctx.require(src is not None, f"{fn.key}: `{v.id}` (stored as {d}) is not unpacked from a call of a sql/crud.py function")
                sources.add(src)
    ctx.require(len(sources) == 1, f"the compiler's `{attr}` is assigned from {len(sources)} places in sql/crud.py (expected one)")
    kname, idx, holder, local = next(iter(sources))
    return f, prop, attr, m.functions[kname], idx, holder, local


def _getter_is_plain_for(ctx, K, idx, kind):
    """Is `K(..)[idx]` the plain `column.key` getter whenever the statement is of `kind`?  True when every binding of
    the returned name that is not `operator.attrgetter("key")` sits under a positive `is<other kind>(..)` test.
    Also returns the attribute of the compile state whose tables get qualified names."""
    pm = K.module.parents()
    rets = [r for r in walk_local(K.node) if isinstance(r, ast.Return) and isinstance(r.value, ast.Tuple) and len(r.value.elts) > idx]
    ctx.require(len(rets) == 1 and isinstance(rets[0].value.elts[idx], ast.Name), f"{K.key}: result tuple not understood")
    g_name = rets[0].value.elts[idx].id
    plain, qualified = [], []
    for n in walk_local(K.node):
        if isinstance(n, ast.Assign) and any(isinstance(e, ast.Name) and e.id == g_name for t in n.targets for e in ast.walk(t)):
            v = n.value
            ok = isinstance(v, ast.Call) and (call_name(v) or "").endswith("attrgetter") and len(v.args) == 1 \
                and isinstance(v.args[0], ast.Constant) and v.args[0].value == "key"
            ctx.require(ok, f"{K.key}: `{g_name}` bound to `{unparse(v)[:60]}` (not understood)")
            plain.append(n)
        elif isinstance(n, ast.FunctionDef) and n.name == g_name:
            qualified.append(n)
    ctx.require(plain and len(qualified) <= 1, f"{K.key}: bindings of `{g_name}` not understood")
    extra_attrs = set()
    only_other_kind = True
    for q in qualified:
        atoms = guard_atoms(lexical_guards(pm, q, stop=K.node))
        if not any(p and re.search(r"\bis(?!%s\b)(insert|update|delete)\(" % kind, a) for a, p in atoms):
            only_other_kind = False
        # the tables whose columns get a qualified name: `<col>.table in S`, S built from <compile_state>.<attr>
        kd = RD.single_defs(K.node)
        for t in (x for x in ast.walk(q) if isinstance(x, ast.Compare) and len(x.ops) == 1 and isinstance(x.ops[0], (ast.In, ast.NotIn))):
            src = RD.resolve(t.comparators[0], kd, pure_only=False)
            for a in ast.walk(src):
                if isinstance(a, ast.Attribute) and isinstance(a.value, ast.Name) and a.value.id in K.params:
                    extra_attrs.add(a.attr)
    return only_other_kind, extra_attrs, g_name


def _flows_from(ctx, fn, name, target, depth=0):
    """Is local/parameter `name` of `fn` always the object `target` = (holder function, local name)?  Parameters are
    followed to every call site inside sql/crud.py."""
    holder, local = target
    if fn is holder and name == local:
        return True
    if depth > 5:
        return False
    defs = RD.single_defs(fn.node)
    if name in defs and isinstance(defs[name], ast.Name):
        return _flows_from(ctx, fn, defs[name].id, target, depth + 1)
    if name not in fn.params or any(n == name for n, _v, _s in name_stores(fn.node)):
        return False
    sites = [(cf, cc) for cf, cc in call_sites(ctx.index, fn) if not cf.is_overload]
    if not sites:
        return False
    for cf, cc in sites:
        a = _arg_of(cc, fn, name)
        if not (isinstance(a, ast.Name) and _flows_from(ctx, cf, a.id, target, depth + 1)):
            return False
    return True


def _column_origin(ctx, fn, expr, extra_attrs, depth=0):
    """Where may the column `expr` (evaluated in `fn`) be drawn from?  ('extra', evidence) when it may come from the
    tables of <compile_state>.<extra attr>; ('own', evidence) when every source found is a `.c` / `.columns` collection
    that does not derive from them; (None, why) otherwise.  A may-depend closure over all bindings of the names involved
    (assignments, loop / comprehension targets, container growth); parameters are followed to the callers."""
    binds = {}
    for n in walk_local(fn.node):
        if isinstance(n, ast.Assign):
            for t in n.targets:
                for x in ast.walk(t):
                    if isinstance(x, ast.Name):
                        binds.setdefault(x.id, []).append(n.value)
        elif isinstance(n, (ast.AnnAssign, ast.AugAssign, ast.NamedExpr)) and getattr(n, "value", None) is not None and isinstance(n.target, ast.Name):
            binds.setdefault(n.target.id, []).append(n.value)
        elif isinstance(n, (ast.For, ast.AsyncFor, ast.comprehension)):
            for x in ast.walk(n.target):
                if isinstance(x, ast.Name):
                    binds.setdefault(x.id, []).append(n.iter)
        elif isinstance(n, ast.Call) and isinstance(n.func, ast.Attribute) and isinstance(n.func.value, ast.Name) \
                and n.func.attr in ("append", "extend", "update", "add", "insert"):
            binds.setdefault(n.func.value.id, []).extend(n.args)
    seen, vals, todo = set(), [expr], [x.id for x in ast.walk(expr) if isinstance(x, ast.Name)]
    while todo:
        nm = todo.pop()
        if nm in seen:
            continue
        seen.add(nm)
        for v in binds.get(nm, ()):
            vals.append(v)
            todo.extend(x.id for x in ast.walk(v) if isinstance(x, ast.Name))
    extra = [unparse(a) for v in vals for a in ast.walk(v) if isinstance(a, ast.Attribute) and a.attr in extra_attrs]
    own = [unparse(a) for v in vals for a in ast.walk(v) if isinstance(a, ast.Attribute) and a.attr in ("c", "columns")]
    if extra:
        return "extra", f"`{extra[0]}` in {fn.qualname}"
    reached_params = [p for p in fn.params if p in seen and p not in binds]
    verdict = ("own", f"`{own[0]}` in {fn.qualname}") if own else (None, f"no column collection found for `{unparse(expr)}` in {fn.qualname}")
    if own or depth >= 2:
        return verdict
    sites = [(cf, cc) for cf, cc in call_sites(ctx.index, fn) if not cf.is_overload]
    got = []
    for cf, cc in sites:
        for p in reached_params:
            a = _arg_of(cc, fn, p)
            if a is not None and not isinstance(a, ast.Constant):
                got.append(_column_origin(ctx, cf, a, extra_attrs, depth + 1))
    for want in ("extra", "own"):
        hit = [g_ for g_ in got if g_[0] == want]
        if hit:
            return hit[0]
    return verdict


def _attr_stores(node):
    from ..astutil import attr_stores
    return attr_stores(node)


@R.rule("C13-R7", floor=8, template="T-TABLE (producer/consumer key agreement)",
        desc="the bind parameter created for a Python-side default / onupdate is named by the same function of the column "
             "under which DefaultExecutionContext._process_execute_defaults stores the computed value: the store key is "
             "<compiled>._within_exec_param_key_getter(c) = the bind-name getter of crud._key_getters_for_crud_column, so "
             "every _create_*_prefetch_bind_param call passes name=<that getter>(c), or relies on the default name c.key "
             "only where the getter is c.key (INSERT; UPDATE columns of the statement's own table) -- a column that may "
             "belong to an extra FROM table (qualified name '<table>_<key>') must be named through the getter")
def r7(ctx):
    consumer, prop, attr, K, idx, holder, local = _key_getter_source(ctx)
    ctx.functions_analysed.update({K.key, holder.key})
    m = ctx.index.module(CRUD)
    # the default name of a crud bind is <column>.key
    cbp = ctx.func(f"{CRUD}::_create_bind_param")
    col_p = cbp.params[1]
    default_is_key = any(n == "name" and isinstance(v, ast.Attribute) and isinstance(v.value, ast.Name) and v.value.id == col_p and v.attr == "key"
                         for n, v, st in name_stores(cbp.node)) and "name" in cbp.params
    ctx.check(default_is_key, f"{consumer.key}:store-key-is-the-crud-bind-name-getter",
              f"_create_bind_param no longer defaults the bind name to `{col_p}.key` (the agreement below assumes it)",
              f"store key = <compiled>.{prop}(c) = compiler.{attr} = result #{idx} (`{local}`) of {K.name}() assigned in {holder.name}; "
              f"default bind name = `{col_p}.key`", consumer.loc)
    for kind in ("insert", "update"):
        creator = ctx.func(f"{CRUD}::_create_{kind}_prefetch_bind_param")
        ctx.require("name" in creator.params and len(creator.params) >= 2, f"{creator.name} has no `name` parameter")
        fwd = [c for c in calls_in(creator.node) if call_name(c) == cbp.name]
        ctx.require(len(fwd) == 1 and isinstance(_arg_of(fwd[0], cbp, "name"), ast.Name) and _arg_of(fwd[0], cbp, "name").id == "name"
                    and unparse(_arg_of(fwd[0], cbp, col_p) or ast.Constant(value=None)) == creator.params[1],
                    f"{creator.name} does not forward (column, name) to {cbp.name}")
        plain_for_kind, extra_attrs, g_name = _getter_is_plain_for(ctx, K, idx, kind)
        sites = [(cf, cc) for cf, cc in call_sites(ctx.index, creator) if not cf.is_overload]
        ctx.require(sites, f"{creator.name} is never called")
        for key, (cf, cc) in ordinal_keys(sites, lambda s: f"{s[0].key}:{creator.name}:bind-name-is-store-key"):
            ctx.functions_analysed.add(cf.key)
            loc = f"{cf.module.path}:{cc.lineno}"
            ctx.require(not any(isinstance(a, ast.Starred) for a in cc.args), f"{cf.key}: starred arguments at `{creator.name}(...)`")
            col = _arg_of(cc, creator, creator.params[1])
            ctx.require(col is not None, f"{cf.key}: column argument of `{creator.name}(...)` not found")
            nm = _arg_of(cc, creator, "name")
            cdefs = RD.single_defs(cf.node)
            nm_r = RD.resolve(nm, cdefs, pure_only=False) if nm is not None else None
            if nm_r is None or (isinstance(nm_r, ast.Constant) and nm_r.value is None) or \
                    (isinstance(nm_r, ast.Attribute) and nm_r.attr == "key" and unparse(nm_r.value) == unparse(col)):
                how = "default"
            elif isinstance(nm_r, ast.Call) and isinstance(nm_r.func, ast.Name) and len(nm_r.args) == 1 and not nm_r.keywords \
                    and unparse(nm_r.args[0]) == unparse(col) and _flows_from(ctx, cf, nm_r.func.id, (holder, local)):
                how = "getter"
            else:
                how = "other"
            if how == "getter":
                ctx.ok(key, f"name=`{unparse(nm_r)}`: the getter that also computes the store key")
                continue
            if how == "default" and plain_for_kind:
                ctx.ok(key, f"default name `{unparse(col)}.key`; for {kind.upper()} the getter `{g_name}` is attrgetter('key')")
                continue
            origin, ev = _column_origin(ctx, cf, col, extra_attrs) if extra_attrs else (None, "the tables with qualified bind names could not be determined")
            named = f"`{unparse(nm_r)}`" if how == "other" else f"`{unparse(col)}.key` (the default of {cbp.name})"
            if origin == "own" and how == "default":
                ctx.ok(key, f"default name `{unparse(col)}.key`; the column comes from {ev} (the statement's own table, where `{g_name}` is the key)")
                continue
            ctx.require(origin is not None and (how == "default" or origin == "extra"),
                        f"{cf.key}: bind name {named} for `{unparse(col)}` at `{creator.name}(...)` cannot be related to the store key ({ev})")
            ctx.violation(key,
                          f"the bind parameter for the Python-side {'default' if kind == 'insert' else 'onupdate'} of `{unparse(col)}` is named "
                          f"{named}, but {consumer.qualname} stores the computed value under `<compiled>.{prop}({unparse(col)})` = "
                          f"`{g_name}({unparse(col)})` of {K.name}(), which is '<table>_<key>' for a column of a table in "
                          f"{sorted(extra_attrs)} -- and `{unparse(col)}` is drawn from {ev}: the rendered parameter and the stored "
                          f"value never meet, the column is written with the placeholder None (siblings in the same function name "
                          f"their binds `{g_name}({unparse(col)})`)", loc)


# ---------------------------------------------------------------------- self-test battery
R.mutant("default-outside-else-chain", CRUD,
         sub("        # adding supplemental cols to implicit_returning in table\n",
             "        if isinsert and c.default is not None and c.primary_key:\n            _append_param_insert_hasdefault(\n                compiler, stmt, c, implicit_return_defaults, values, kw\n            )\n        # adding supplemental cols to implicit_returning in table\n"), "C13-R1")
R.mutant("update-default-under-wrong-test", CRUD,
         sub("        elif compile_state.isupdate:\n            # no parameter is present and it's an insert.\n\n            _append_param_update(",
             "        if compile_state.isupdate:\n            # no parameter is present and it's an insert.\n\n            _append_param_update("), "C13-R1")
R.mutant("from-select-default-always", CRUD,
         sub("            values.append((c, compiler.preparer.format_column(c), None, ()))\n        else:\n            _append_param_insert_select_hasdefault(\n                compiler, stmt, c, add_select_cols, kw\n            )\n",
             "            values.append((c, compiler.preparer.format_column(c), None, ()))\n        if c.default is not None:\n            _append_param_insert_select_hasdefault(\n                compiler, stmt, c, add_select_cols, kw\n            )\n"), "C13-R1")
R.mutant("multiparam-default-for-supplied-key", CRUD,
         sub("            if col.key in row:\n                key = col.key\n", "            if col.key in values_0:\n                key = col.key\n"), "C13-R1")
R.mutant("supplied-branch-negated", CRUD,
         sub("        if col_key in parameters and col_key not in check_columns:\n            # parameter is present for the column.  use that.\n",
             "        if col_key not in parameters and col_key not in check_columns:\n            # parameter is present for the column.  use that.\n"), "C13-R1")
R.mutant("server-onupdate-not-elif", CRUD,
         sub("                    (c.key,),\n                )\n            )\n    elif c.server_onupdate is not None:\n        if implicit_return_defaults and c in implicit_return_defaults:",
             "                    (c.key,),\n                )\n            )\n    if c.server_onupdate is not None:\n        if implicit_return_defaults and c in implicit_return_defaults:"), "C13-R2")
R.mutant("server-default-before-default", CRUD,
         sub("            elif c.default is not None:\n                # column has a default, but it's not a pk column, or it is but\n                # we don't need to get the pk back.\n",
             "            elif c.server_default is not None and c.primary_key:\n                compiler.postfetch.append(c)\n            elif c.default is not None:\n                # column has a default, but it's not a pk column, or it is but\n                # we don't need to get the pk back.\n"), "C13-R2")
R.mutant("multitable-server-onupdate-separate", CRUD,
         sub("            elif c.server_onupdate is not None:\n                compiler.postfetch.append(c)\n", "            if c.server_onupdate is not None:\n                compiler.postfetch.append(c)\n"), "C13-R2")
R.mutant("update-effect-outside-chain", CRUD,
         sub("    include_table = compile_state.include_table_with_column_exprs\n    if c.onupdate is not None and not c.onupdate.is_sequence:\n        if c.onupdate.is_clause_element:\n            values.append(\n                (\n                    c,\n                    compiler.preparer.format_column(",
             "    include_table = compile_state.include_table_with_column_exprs\n    if c.server_onupdate is None and c.onupdate is None:\n        compiler.postfetch.append(c)\n    if c.onupdate is not None and not c.onupdate.is_sequence:\n        if c.onupdate.is_clause_element:\n            values.append(\n                (\n                    c,\n                    compiler.preparer.format_column("), "C13-R2")
R.mutant("insert-creator-registers-update", CRUD,
         sub("    compiler.insert_prefetch.append(c)  # type: ignore[attr-defined]", "    compiler.update_prefetch.append(c)  # type: ignore[attr-defined]"), "C13-R3")
R.mutant("update-path-creates-insert-prefetch", CRUD,
         sub("                    _create_update_prefetch_bind_param(compiler, c, **kw),\n", "                    _create_insert_prefetch_bind_param(compiler, c, **kw),\n"), "C13-R3")
R.mutant("update-records-use-insert-default", DEF,
         sub("                    c._onupdate_description_tuple,\n                    self.get_update_default,\n", "                    c._onupdate_description_tuple,\n                    self.get_insert_default,\n"), "C13-R3")
R.mutant("update-records-use-default-description", DEF,
         sub("                    c._onupdate_description_tuple,\n", "                    c._default_description_tuple,\n"), "C13-R3")
R.mutant("description-fields-misread", DEF,
         sub("                (arg, is_scalar, is_callable, is_sentinel),\n", "                (arg, is_callable, is_scalar, is_sentinel),\n"), "C13-R3")
R.mutant("callable-arm-not-elif", DEF,
         sub("                elif is_callable:\n                    self.current_column = c\n", "                if is_callable:\n                    self.current_column = c\n"), "C13-R3")
R.mutant("current-parameters-set-once", DEF,
         sub("        for param in self.compiled_parameters:\n            self.current_parameters = param\n\n            for (",
             "        self.current_parameters = self.compiled_parameters[0]\n        for param in self.compiled_parameters:\n            for ("), "C13-R3")
R.mutant("current-column-not-set", DEF,
         sub("                elif is_callable:\n                    self.current_column = c\n                    param[param_key] = arg(self)", "                elif is_callable:\n                    param[param_key] = arg(self)"), "C13-R3")
R.mutant("get-update-default-reads-default", DEF,
         sub("    def get_update_default(self, column):\n        if column.onupdate is None:\n            return None\n        else:\n            return self._exec_default(column, column.onupdate, column.type)",
             "    def get_update_default(self, column):\n        if column.default is None:\n            return None\n        else:\n            return self._exec_default(column, column.default, column.type)"), "C13-R3")
# benign
R.mutant("benign-rename-col-key", CRUD,
         sub("    for c in cols:\n        col_key = _getattr_col_key(c)\n        if col_key in parameters and col_key not in check_columns:\n            parameters.pop(col_key)",
             "    for c in cols:\n        ckey = _getattr_col_key(c)\n        if ckey in parameters and ckey not in check_columns:\n            parameters.pop(ckey)"), None)
R.mutant("benign-rename-row-loop-var", DEF,
         sub("        for param in self.compiled_parameters:\n            self.current_parameters = param\n", "        for param in self.compiled_parameters:\n            _seen = True\n            self.current_parameters = param\n"), None)
R.mutant("benign-extra-elif-arm", CRUD,
         sub("            elif (\n                c.primary_key\n                and c is not stmt.table._autoincrement_column\n                and not c.nullable\n            ):\n                _warn_pk_with_no_anticipated_value(c)\n",
             "            elif (\n                c.primary_key\n                and c is not stmt.table._autoincrement_column\n                and not c.nullable\n            ):\n                _warn_pk_with_no_anticipated_value(c)\n            else:\n                pass\n"), None)

# ---- R4 / R5 (str-e): seeds C13/1, C13/2 and relatives
R.mutant("seed2-later-rows-none-counts-as-omitted", CRUD,
         sub("            if col.key in row:\n                key = col.key\n",
             "            if col.key in row and (\n                row[col.key] is not None or not col.default\n            ):\n                key = col.key\n"), "C13-R4")
R.mutant("first-row-none-counts-as-omitted", CRUD,
         sub("    for c in cols:\n        # scan through every column in the target table\n\n        col_key = _getattr_col_key(c)\n\n        if col_key in parameters and col_key not in check_columns:\n",
             "    for c in cols:\n        # scan through every column in the target table\n\n        col_key = _getattr_col_key(c)\n\n        if (\n            col_key in parameters\n            and parameters[col_key] is not None\n            and col_key not in check_columns\n        ):\n"), "C13-R4")
R.mutant("from-select-default-wins-over-named-column", CRUD,
         sub("        if col_key in parameters and col_key not in check_columns:\n            parameters.pop(col_key)\n            values.append((c, compiler.preparer.format_column(c), None, ()))\n",
             "        if (\n            col_key in parameters\n            and col_key not in check_columns\n            and c.default is None\n        ):\n            parameters.pop(col_key)\n            values.append((c, compiler.preparer.format_column(c), None, ()))\n"), "C13-R4")
R.mutant("seed1-ordered-values-scans-only-supplied-remainder", CRUD,
         sub("        ] + [c for c in stmt.table.c if c.key not in ordered_keys]\n",
             "        ] + [\n            c\n            for c in stmt.table.c\n            if c.key not in ordered_keys and c.key in parameters\n        ]\n"), "C13-R5")
R.mutant("ordered-values-remainder-not-deduplicated", CRUD,
         sub("        ] + [c for c in stmt.table.c if c.key not in ordered_keys]\n", "        ] + [c for c in stmt.table.c]\n"), "C13-R5")
R.mutant("plain-mode-scans-filtered-columns", CRUD,
         sub("    else:\n        cols = stmt.table.columns\n\n    isinsert = _compile_state_isinsert(compile_state)\n",
             "    else:\n        cols = [\n            c\n            for c in stmt.table.columns\n            if c.key in parameters or c.default is not None\n        ]\n\n    isinsert = _compile_state_isinsert(compile_state)\n"), "C13-R5")
R.mutant("update-defaults-only-for-supplied-keys", CRUD,
         sub("        elif compile_state.isupdate:\n            # no parameter is present and it's an insert.\n\n            _append_param_update(",
             "        elif compile_state.isupdate and c.key in parameters:\n            # no parameter is present and it's an insert.\n\n            _append_param_update("), "C13-R5")
R.mutant("ordered-part-drops-named-column", CRUD,
         sub("            if isinstance(key, str) and key in stmt.table.c\n        ] + [c for c in stmt.table.c if c.key not in ordered_keys]\n",
             "            if isinstance(key, str)\n            and key in stmt.table.c\n            and stmt.table.c[key].onupdate is None\n        ] + [c for c in stmt.table.c if c.key not in ordered_keys]\n"), "C13-R5")
# benign relatives
R.mutant("benign-ordered-keys-renamed-setcomp", CRUD,
         sub("        ordered_keys = set(parameter_ordering)\n        cols = [\n            stmt.table.c[key]\n            for key in parameter_ordering\n            if isinstance(key, str) and key in stmt.table.c\n        ] + [c for c in stmt.table.c if c.key not in ordered_keys]\n",
             "        named = {k for k in parameter_ordering}\n        cols = [\n            stmt.table.c[key]\n            for key in parameter_ordering\n            if isinstance(key, str) and key in stmt.table.columns\n        ] + [col for col in stmt.table.columns if col.key not in named]\n"), None)
R.mutant("benign-supplied-test-conjuncts-swapped", CRUD,
         sub("        col_key = _getattr_col_key(c)\n\n        if col_key in parameters and col_key not in check_columns:\n            # parameter is present for the column.  use that.\n",
             "        col_key = _getattr_col_key(c)\n\n        if col_key not in check_columns and col_key in parameters:\n            # parameter is present for the column.  use that.\n"), None)
R.mutant("benign-multiparams-key-local-first", CRUD,
         sub("            if col.key in row:\n                key = col.key\n\n                if coercions._is_literal(row[key]):",
             "            key = col.key\n            if key in row:\n\n                if coercions._is_literal(row[key]):"), None)

# ---- R6 (str-e)
R.mutant("insert-executemany-postfetch-first-row-params", PERS,
         sub("                ) in zip(records, result.context.compiled_parameters):\n                    if state:\n                        _postfetch(\n                            mapper_rec,\n                            uowtransaction,\n                            table,\n                            state,\n                            state_dict,\n                            result,\n                            last_inserted_params,\n",
             "                ) in zip(records, result.context.compiled_parameters):\n                    if state:\n                        _postfetch(\n                            mapper_rec,\n                            uowtransaction,\n                            table,\n                            state,\n                            state_dict,\n                            result,\n                            result.context.compiled_parameters[0],\n"), "C13-R6")
R.mutant("post-update-executemany-first-row-params", PERS,
         sub("                    c.context.compiled_parameters[i],\n", "                    c.context.compiled_parameters[0],\n"), "C13-R6")
R.mutant("benign-insert-executemany-rename-zipped-params", PERS,
         sub("                    last_inserted_params,\n                ) in zip(records, result.context.compiled_parameters):\n                    if state:\n                        _postfetch(\n                            mapper_rec,\n                            uowtransaction,\n                            table,\n                            state,\n                            state_dict,\n                            result,\n                            last_inserted_params,\n",
             "                    row_params,\n                ) in zip(records, result.context.compiled_parameters):\n                    if state:\n                        _postfetch(\n                            mapper_rec,\n                            uowtransaction,\n                            table,\n                            state,\n                            state_dict,\n                            result,\n                            row_params,\n"), None)
# (repaired by str2-f: the text this mutant produced IS the tree since the fix: commit for C13-R6; it is now the
# regression of that fix plus a behaviour-preserving neighbour)
_UPD_ZIP_HEAD = ("                    has_all_defaults,\n                    has_all_pks,\n                ), compiled_params in zip(\n"
                 "                    records, c.context.compiled_parameters\n                ):\n                    if bookkeeping:\n"
                 "                        _postfetch(\n                            mapper,\n                            uowtransaction,\n"
                 "                            table,\n                            state,\n                            state_dict,\n"
                 "                            c,\n                            compiled_params,\n")
R.mutant("update-executemany-postfetch-first-row-params", PERS,
         sub(_UPD_ZIP_HEAD, "                    has_all_defaults,\n                    has_all_pks,\n                ) in records:\n"
                            "                    if bookkeeping:\n                        _postfetch(\n                            mapper,\n"
                            "                            uowtransaction,\n                            table,\n                            state,\n"
                            "                            state_dict,\n                            c,\n"
                            "                            c.context.compiled_parameters[0],\n"), "C13-R6")
R.mutant("benign-update-executemany-rename-zipped-params", PERS,
         sub(_UPD_ZIP_HEAD, _UPD_ZIP_HEAD.replace("compiled_params", "row_params")), None)

# ---- rob-D2: benign refactoring families of _process_execute_defaults (stored diff rfD_13 and relatives) and the
# ---- breaking twins the generalised recognisers must still catch
_INS_COMP = (
    "            prefetch_recs = [\n                (\n                    c,\n                    key_getter(c),\n"
    "                    c._default_description_tuple,\n                    self.get_insert_default,\n                )\n"
    "                for c in compiled.insert_prefetch\n            ]\n"
)
_UPD_COMP = (
    "            prefetch_recs = [\n                (\n                    c,\n                    key_getter(c),\n"
    "                    c._onupdate_description_tuple,\n                    self.get_update_default,\n                )\n"
    "                for c in compiled.update_prefetch\n            ]\n"
)


def _rec_loop(coll, desc, getter_alias, getter):
    return (f"            {getter_alias} = self.{getter}\n            for c in compiled.{coll}:\n"
            f"                prefetch_recs.append(\n                    (\n                        c,\n                        key_getter(c),\n"
            f"                        c.{desc},\n                        {getter_alias},\n                    )\n                )\n")


_LOOPS = chain(
    sub("        if compiled.insert_prefetch:\n" + _INS_COMP, "        prefetch_recs = []\n        if compiled.insert_prefetch:\n"
        + _rec_loop("insert_prefetch", "_default_description_tuple", "get_insert_default", "get_insert_default")),
    sub(_UPD_COMP + "        else:\n            prefetch_recs = []\n",
        _rec_loop("update_prefetch", "_onupdate_description_tuple", "get_update_default", "get_update_default")))
_TARGET = ("            for (\n                c,\n                param_key,\n                (arg, is_scalar, is_callable, is_sentinel),\n"
           "                fallback,\n            ) in prefetch_recs:\n")
R.mutant("benign-rob-records-by-append-loops-getter-alias-unpack-in-body", DEF,
         chain(_LOOPS, sub(_TARGET, "            for c, param_key, default_description, fallback in prefetch_recs:\n"
                                    "                arg, is_scalar, is_callable, is_sentinel = default_description\n")), None)
R.mutant("rob-append-loop-update-records-with-insert-getter-alias", DEF,
         chain(sub("        if compiled.insert_prefetch:\n" + _INS_COMP, "        prefetch_recs = []\n        if compiled.insert_prefetch:\n"
                   + _rec_loop("insert_prefetch", "_default_description_tuple", "get_insert_default", "get_insert_default")),
               sub(_UPD_COMP + "        else:\n            prefetch_recs = []\n",
                   _rec_loop("update_prefetch", "_onupdate_description_tuple", "get_update_default", "get_insert_default"))), "C13-R3")
R.mutant("rob-append-loops-not-exclusive", DEF,
         chain(_LOOPS, sub("        elif compiled.update_prefetch:\n            get_update_default = self.get_update_default\n",
                           "        if compiled.update_prefetch:\n            get_update_default = self.get_update_default\n")), "C13-R3")
R.mutant("rob-description-unpacked-in-body-in-wrong-order", DEF,
         sub(_TARGET, "            for c, param_key, default_description, fallback in prefetch_recs:\n"
                      "                arg, is_callable, is_scalar, is_sentinel = default_description\n"), "C13-R3")
R.mutant("benign-rob-description-read-by-field-name", DEF,
         chain(sub(_TARGET, "            for c, param_key, dflt, fallback in prefetch_recs:\n"),
               sub("                if is_sentinel:\n", "                if dflt.is_sentinel:\n"),
               sub("                elif is_scalar:\n                    param[param_key] = arg\n", "                elif dflt.is_scalar:\n                    param[param_key] = dflt.arg\n"),
               sub("                elif is_callable:\n                    self.current_column = c\n                    param[param_key] = arg(self)\n",
                   "                elif dflt.is_callable:\n                    self.current_column = c\n                    param[param_key] = dflt.arg(self)\n")), None)
R.mutant("rob-field-name-access-scalar-arm-under-callable-flag", DEF,
         chain(sub(_TARGET, "            for c, param_key, dflt, fallback in prefetch_recs:\n"),
               sub("                if is_sentinel:\n", "                if dflt.is_sentinel:\n"),
               sub("                elif is_scalar:\n                    param[param_key] = arg\n", "                elif dflt.is_callable:\n                    param[param_key] = dflt.arg\n"),
               sub("                elif is_callable:\n                    self.current_column = c\n                    param[param_key] = arg(self)\n",
                   "                elif dflt.is_scalar:\n                    self.current_column = c\n                    param[param_key] = dflt.arg(self)\n")), "C13-R3")
R.mutant("benign-rob-dispatch-chain-as-guard-clauses-with-continue", DEF,
         RD.ast_edit("DefaultExecutionContext._process_execute_defaults", RD.t_elif_chain_to_continues("is_sentinel")), None)
R.mutant("rob-guard-clause-chain-scalar-arm-falls-through", DEF,
         RD.ast_edit("DefaultExecutionContext._process_execute_defaults", RD.t_elif_chain_to_continues("is_sentinel"),
                     RD.t_drop_continue("is_scalar")), "C13-R3")
R.mutant("benign-rob-record-tuple-in-a-local-then-appended", DEF,
         sub("        if compiled.insert_prefetch:\n" + _INS_COMP,
             "        if compiled.insert_prefetch:\n            prefetch_recs = []\n            for c in compiled.insert_prefetch:\n"
             "                rec = (\n                    c,\n                    key_getter(c),\n                    c._default_description_tuple,\n"
             "                    self.get_insert_default,\n                )\n                prefetch_recs.append(rec)\n"), None)
R.mutant("benign-rob-fallback-value-bound-by-walrus", DEF,
         sub("                    val = fallback(c)\n                    if val is not None:\n", "                    if (val := fallback(c)) is not None:\n"), None)
R.mutant("benign-rob-current-column-set-at-top-of-callable-arm-with-logging", DEF,
         sub("                elif is_callable:\n                    self.current_column = c\n                    param[param_key] = arg(self)",
             "                elif is_callable:\n                    self.current_column = c\n                    _dbg = param_key\n                    param[param_key] = arg(self)"), None)
R.mutant("rob-current-column-set-only-for-primary-keys", DEF,
         sub("                elif is_callable:\n                    self.current_column = c\n                    param[param_key] = arg(self)",
             "                elif is_callable:\n                    if c.primary_key:\n                        self.current_column = c\n                    param[param_key] = arg(self)"), "C13-R3")
R.mutant("benign-rob-from-select-supplied-arm-with-early-continue", CRUD,
         sub("            values.append((c, compiler.preparer.format_column(c), None, ()))\n        else:\n            _append_param_insert_select_hasdefault(\n                compiler, stmt, c, add_select_cols, kw\n            )\n",
             "            values.append((c, compiler.preparer.format_column(c), None, ()))\n            continue\n        _append_param_insert_select_hasdefault(\n            compiler, stmt, c, add_select_cols, kw\n        )\n"), None)
R.mutant("rob-from-select-supplied-arm-falls-through-to-default", CRUD,
         sub("            values.append((c, compiler.preparer.format_column(c), None, ()))\n        else:\n            _append_param_insert_select_hasdefault(\n                compiler, stmt, c, add_select_cols, kw\n            )\n",
             "            values.append((c, compiler.preparer.format_column(c), None, ()))\n        _append_param_insert_select_hasdefault(\n            compiler, stmt, c, add_select_cols, kw\n        )\n"), "C13-R1")
R.mutant("benign-rob-append-param-update-as-guard-clauses", CRUD,
         RD.ast_edit("_append_param_update", RD.t_chain_to_returns("c.onupdate is not None")), None)
R.mutant("rob-append-param-update-guard-clause-without-return", CRUD,
         RD.ast_edit("_append_param_update", RD.t_chain_to_returns("c.onupdate is not None"), RD.t_drop_return("c.server_onupdate is not None")), "C13-R2")

# ---- str2-f (round 2): seeds C13/3 (prefetch arm chosen by statement kind) and C13/4 (prefetch bind not named by the getter)
_ARM_INS = "        if compiled.insert_prefetch:\n            prefetch_recs = [\n"
_ARM_UPD = "        elif compiled.update_prefetch:\n            prefetch_recs = [\n"
_ARM_ELSE = "        else:\n            prefetch_recs = []\n\n        for param in self.compiled_parameters:\n"
_CALL_SITE = "        if self.compiled.insert_prefetch or self.compiled.update_prefetch:\n            self._process_execute_defaults()\n"
R.mutant("seed3-prefetch-arm-selected-by-statement-kind", DEF,
         chain(sub(_ARM_INS, "        if self.isinsert:\n            prefetch_recs = [\n"),
               sub(_ARM_UPD, "        elif self.isupdate:\n            prefetch_recs = [\n")), "C13-R3")
R.mutant("insert-arm-additionally-requires-top-level-insert", DEF,
         sub(_ARM_INS, "        if compiled.insert_prefetch and self.isinsert:\n            prefetch_recs = [\n"), "C13-R3")
R.mutant("defaults-processed-only-for-top-level-dml", DEF,
         sub(_CALL_SITE, "        if self.isinsert or self.isupdate:\n            self._process_execute_defaults()\n"), "C13-R3")
R.mutant("defaults-processed-only-when-insert-prefetch-filled", DEF,
         sub(_CALL_SITE, "        if self.compiled.insert_prefetch:\n            self._process_execute_defaults()\n"), "C13-R3")
R.mutant("benign-s2f-arms-with-empty-case-first", DEF,
         chain(sub(_ARM_INS, "        if not compiled.insert_prefetch and not compiled.update_prefetch:\n            prefetch_recs = []\n"
                             "        elif compiled.insert_prefetch:\n            prefetch_recs = [\n"),
               sub(_ARM_UPD, "        else:\n            prefetch_recs = [\n"),
               sub(_ARM_ELSE, "\n        for param in self.compiled_parameters:\n")), None)
R.mutant("benign-s2f-arms-by-length-snapshots", DEF,
         chain(sub(_ARM_INS, "        n_insert = len(compiled.insert_prefetch)\n        if n_insert > 0:\n            prefetch_recs = [\n"),
               sub(_ARM_UPD, "        elif len(compiled.update_prefetch) != 0:\n            prefetch_recs = [\n")), None)
R.mutant("benign-s2f-early-return-when-both-lists-empty", DEF,
         sub("        sentinel_counter = 0\n\n" + _ARM_INS,
             "        sentinel_counter = 0\n\n        if not (compiled.insert_prefetch or compiled.update_prefetch):\n            return\n\n" + _ARM_INS), None)
R.mutant("benign-s2f-call-site-tests-a-boolean-local", DEF,
         sub(_CALL_SITE, "        has_prefetch = bool(\n            self.compiled.insert_prefetch or self.compiled.update_prefetch\n        )\n"
                         "        if has_prefetch:\n            self._process_execute_defaults()\n"), None)
_MT_SITE = ("                            _create_update_prefetch_bind_param(\n"
            "                                compiler, c, name=_col_bind_name(c), **kw\n                            ),\n")
R.mutant("seed4-multitable-onupdate-prefetch-bind-gets-default-name", CRUD,
         sub(_MT_SITE, "                            _create_update_prefetch_bind_param(\n                                compiler, c, **kw\n"
                       "                            ),\n"), "C13-R7")
R.mutant("multitable-onupdate-prefetch-bind-named-by-dict-key-getter", CRUD,
         sub(_MT_SITE, "                            _create_update_prefetch_bind_param(\n"
                       "                                compiler, c, name=_getattr_col_key(c), **kw\n                            ),\n"), "C13-R7")
R.mutant("store-key-getter-assigned-from-the-dict-key-getter", CRUD,
         sub("    compiler._get_bind_name_for_col = _col_bind_name\n", "    compiler._get_bind_name_for_col = _getattr_col_key\n"), "C13-R7")
R.mutant("multitable-onupdate-prefetch-bind-named-by-plain-key", CRUD,
         sub(_MT_SITE, "                            _create_update_prefetch_bind_param(\n"
                       "                                compiler, c, name=c.key, **kw\n                            ),\n"), "C13-R7")
_MT_ARM = ("                else:\n                    values.append(\n                        (\n                            c,\n"
           "                            compiler.process(c, include_table=include_table),\n" + _MT_SITE +
           "                            (c.key,),\n                        )\n                    )\n")
R.mutant("benign-s2f-multitable-bind-name-through-a-local", CRUD,
         sub(_MT_ARM, "                else:\n                    bind_name = _col_bind_name(c)\n                    values.append(\n"
                      "                        (\n                            c,\n"
                      "                            compiler.process(c, include_table=include_table),\n"
                      "                            _create_update_prefetch_bind_param(\n"
                      "                                compiler, c, name=bind_name, **kw\n                            ),\n"
                      "                            (c.key,),\n                        )\n                    )\n"), None)
R.mutant("benign-s2f-multitable-bind-name-positional", CRUD,
         sub(_MT_SITE, "                            _create_update_prefetch_bind_param(\n"
                       "                                compiler, c, True, _col_bind_name(c), **kw\n                            ),\n"), None)
R.mutant("benign-s2f-multitable-prefetch-arm-inverted", CRUD,
         sub("                if c.onupdate.is_clause_element:\n                    values.append(\n                        (\n"
             "                            c,\n                            compiler.process(c, include_table=include_table),\n"
             "                            compiler.process(\n                                c.onupdate.arg.self_group(), **kw\n"
             "                            ),\n                            (),\n                        )\n                    )\n"
             "                    compiler.postfetch.append(c)\n" + _MT_ARM,
             "                if not c.onupdate.is_clause_element:\n                    values.append(\n                        (\n"
             "                            c,\n                            compiler.process(c, include_table=include_table),\n" + _MT_SITE +
             "                            (c.key,),\n                        )\n                    )\n"
             "                else:\n                    values.append(\n                        (\n"
             "                            c,\n                            compiler.process(c, include_table=include_table),\n"
             "                            compiler.process(\n                                c.onupdate.arg.self_group(), **kw\n"
             "                            ),\n                            (),\n                        )\n                    )\n"
             "                    compiler.postfetch.append(c)\n"), None)
_MT_CLAUSE_ARM = ("                if c.onupdate.is_clause_element:\n                    values.append(\n                        (\n"
                  "                            c,\n                            compiler.process(c, include_table=include_table),\n"
                  "                            compiler.process(\n                                c.onupdate.arg.self_group(), **kw\n"
                  "                            ),\n                            (),\n                        )\n                    )\n"
                  "                    compiler.postfetch.append(c)\n")
R.mutant("benign-s2f-multitable-onupdate-arms-in-a-helper-function", CRUD,
         chain(sub("def _get_update_multitable_params(\n",
                   "def _append_param_update_multitable(\n    compiler, c, include_table, _col_bind_name, values, kw\n):\n"
                   "    col_text = compiler.process(c, include_table=include_table)\n"
                   "    if c.onupdate.is_clause_element:\n"
                   "        values.append(\n            (c, col_text, compiler.process(c.onupdate.arg.self_group(), **kw), ())\n        )\n"
                   "        compiler.postfetch.append(c)\n    else:\n"
                   "        bind = _create_update_prefetch_bind_param(\n            compiler, c, name=_col_bind_name(c), **kw\n        )\n"
                   "        values.append((c, col_text, bind, (c.key,)))\n\n\ndef _get_update_multitable_params(\n"),
               sub(_MT_CLAUSE_ARM + _MT_ARM,
                   "                _append_param_update_multitable(\n                    compiler, c, include_table, _col_bind_name, values, kw\n"
                   "                )\n")), None)
R.mutant("helper-function-names-multitable-prefetch-bind-by-plain-key", CRUD,
         chain(sub("def _get_update_multitable_params(\n",
                   "def _append_param_update_multitable(\n    compiler, c, include_table, _col_bind_name, values, kw\n):\n"
                   "    col_text = compiler.process(c, include_table=include_table)\n"
                   "    if c.onupdate.is_clause_element:\n"
                   "        values.append(\n            (c, col_text, compiler.process(c.onupdate.arg.self_group(), **kw), ())\n        )\n"
                   "        compiler.postfetch.append(c)\n    else:\n"
                   "        bind = _create_update_prefetch_bind_param(compiler, c, **kw)\n"
                   "        values.append((c, col_text, bind, (c.key,)))\n\n\ndef _get_update_multitable_params(\n"),
               sub(_MT_CLAUSE_ARM + _MT_ARM,
                   "                _append_param_update_multitable(\n                    compiler, c, include_table, _col_bind_name, values, kw\n"
                   "                )\n")), "C13-R7")
