"""C12 -- Bulk INSERT with RETURNING: one row per parameter set, in order (batch slicing, thin)."""

from __future__ import annotations

import ast
import math

from typing import Dict

from ..astutil import (
    ancestors, call_name, calls_in, dotted, enclosing_stmt, enclosing_try, guard_atoms, lexical_guards, name_stores,
    raised_name, unparse, walk_local,
)
from ..evalx import Evaluator, Sym
from ..report import Registry, chain, sub
from ._helpers_rules_b import OrderFlow
from . import _helpers_str_c as SC
from . import _helpers_rob_D2 as RD

R = Registry(
    "C12",
    title="Bulk INSERT with RETURNING returns one row per parameter set, in order",
    decides=(
        "SQLCompiler._deliver_insertmanyvalues_batches: both parallel lists (parameters / compiled parameters) are "
        "sliced and consumed with the same bound, one batch is yielded and the batch counter advances exactly once "
        "per round, the yielded batch carries the slice of each list in its own field, total_batches equals the "
        "number of rounds for every (rows, page size), the row-at-a-time branch pairs zip(parameters, "
        "compiled_parameters) one to one; DefaultDialect._deliver_insertmanyvalues_batches: with sentinel columns "
        "rows reach the result only sorted by the sentinel or looked up in parameter order after the cardinality "
        "check (documented InvalidRequestError), unmatched keys raise, sort_by_parameter_order is taken from the "
        "compiled statement only when RETURNING is in effect; sentinel capability tables name existing enum "
        "members consistently.  Whatever the shape of the batch loop, the bookkeeping that decides which parameter sets a "
        "batch carries (working lists, page size and its reduction to insertmanyvalues_max_parameters, offsets, counters, "
        "total_batches) is executed on models: every parameter set is delivered exactly once, in order, with the compiled "
        "set of the same row.  orm/persistence._emit_insert_statements: the executemany INSERT whose RETURNING rows are "
        "paired positionally with the flushed states carries sort_by_parameter_order on every path."
    ),
    not_decided="correspondence of returned rows to parameter sets on a backend; the SQL text of each batch.",
)

COMP = "sql/compiler.py"
DEF = "engine/default.py"
CB = f"{COMP}::SQLCompiler._deliver_insertmanyvalues_batches"
DB = f"{DEF}::DefaultDialect._deliver_insertmanyvalues_batches"


def _batch_fields(ctx):
    c = ctx.index.cls(f"{COMP}::_InsertManyValuesBatch")
    fields = [st.target.id for st in c.node.body if isinstance(st, ast.AnnAssign) and isinstance(st.target, ast.Name)]
    ctx.require({"batch", "sentinel_values", "batchnum", "total_batches", "current_batch_size"} <= set(fields),
                f"_InsertManyValuesBatch fields changed: {fields}")
    return fields


def _ctor_args(call: ast.Call, fields):
    out = {}
    for i, a in enumerate(call.args):
        if i < len(fields):
            out[fields[i]] = a
    for k in call.keywords:
        if k.arg:
            out[k.arg] = k.value
    return out


def _strip_cast(e):
    while isinstance(e, ast.Call) and (call_name(e) or "").rsplit(".", 1)[-1] == "cast" and len(e.args) == 2:
        e = e.args[1]
    return e


def _slice_bounds(s: ast.Subscript):
    """(lower text or '0', upper text) for X[a:b] with no step; None otherwise."""
    sl = s.slice
    if not isinstance(sl, ast.Slice) or sl.step is not None or sl.upper is None:
        return None
    lo = "0" if sl.lower is None else unparse(sl.lower)
    return lo, unparse(sl.upper)


def _eval_arith(e, env):
    if isinstance(e, ast.Constant) and isinstance(e.value, (int, bool)):
        return e.value
    if isinstance(e, ast.Name):
        if e.id in env:
            return env[e.id]
        raise KeyError(e.id)
    if isinstance(e, ast.BinOp):
        a, b = _eval_arith(e.left, env), _eval_arith(e.right, env)
        ops = {ast.Add: lambda: a + b, ast.Sub: lambda: a - b, ast.Mult: lambda: a * b, ast.FloorDiv: lambda: a // b,
               ast.Mod: lambda: a % b, ast.Div: lambda: a / b}
        for k, fn in ops.items():
            if isinstance(e.op, k):
                return fn()
        raise KeyError(unparse(e))
    if isinstance(e, ast.UnaryOp):
        v = _eval_arith(e.operand, env)
        if isinstance(e.op, ast.USub):
            return -v
        if isinstance(e.op, ast.Not):
            return not v
        raise KeyError(unparse(e))
    if isinstance(e, ast.IfExp):
        return _eval_arith(e.body, env) if _eval_arith(e.test, env) else _eval_arith(e.orelse, env)
    if isinstance(e, ast.BoolOp):
        vals = [_eval_arith(v, env) for v in e.values]
        if isinstance(e.op, ast.And):
            r = True
            for v in vals:
                r = r and v
            return r
        r = False
        for v in vals:
            r = r or v
        return r
    if isinstance(e, ast.Compare) and len(e.ops) == 1:
        a, b = _eval_arith(e.left, env), _eval_arith(e.comparators[0], env)
        for k, fn in {ast.Eq: a == b, ast.NotEq: a != b, ast.Gt: a > b, ast.GtE: a >= b, ast.Lt: a < b, ast.LtE: a <= b}.items():
            if isinstance(e.ops[0], k):
                return fn
    if isinstance(e, ast.Call):
        nm = call_name(e)
        args = [_eval_arith(a, env) for a in e.args]
        if nm in ("math.ceil", "ceil"):
            return math.ceil(*args)
        if nm == "int":
            return int(*args)
        if nm == "bool":
            return bool(*args)
        if nm == "divmod":
            return divmod(*args)
        if nm == "max":
            return max(*args)
        if nm == "min":
            return min(*args)
    raise KeyError(unparse(e))


def _r1_slices(ctx, f, w, base, L, CL):
    """idiom A, clause (a): both working lists are read as a head slice and consumed with the same bound"""
    # (a) slices
    reads, dels = {}, {}

    def _pairs(st):
        """(target, value) pairs of an assignment, tuple assignments `a, b = x, y` taken apart"""
        if isinstance(st, ast.AnnAssign) and st.value is not None:
            return [(st.target, st.value)]
        if not (isinstance(st, ast.Assign) and len(st.targets) == 1):
            return []
        t, v = st.targets[0], st.value
        if isinstance(t, (ast.Tuple, ast.List)) and isinstance(v, (ast.Tuple, ast.List)) and len(t.elts) == len(v.elts) \
                and not any(isinstance(x, ast.Starred) for x in list(t.elts) + list(v.elts)):
            return list(zip(t.elts, v.elts))
        return [(t, v)]

    for st in w.body:
        for t, v in _pairs(st):
            v = _strip_cast(v)
            if isinstance(t, ast.Name) and isinstance(v, ast.Subscript) and isinstance(v.value, ast.Name) and v.value.id in (L, CL):
                b = _slice_bounds(v)
                ctx.require(b is not None, f"slice `{unparse(v)}` not understood")
                reads[v.value.id] = (t.id, b, st)
            elif isinstance(t, ast.Subscript) and isinstance(t.value, ast.Name) and t.value.id in (L, CL):
                b = _slice_bounds(t)
                ctx.require(b is not None, f"slice store `{unparse(t)}` not understood")
                empty = isinstance(v, (ast.List, ast.Tuple)) and not v.elts
                dels[t.value.id] = (b, st, empty)
        if isinstance(st, ast.Delete):
            for t in st.targets:
                if isinstance(t, ast.Subscript) and isinstance(t.value, ast.Name) and t.value.id in (L, CL):
                    b = _slice_bounds(t)
                    ctx.require(b is not None, f"del `{unparse(t)}` not understood")
                    dels[t.value.id] = (b, st, True)
    # a working list handed to some function inside the round: slicing / consuming may happen there (extracted helper)
    escapes = [unparse(c)[:60] for c in calls_in(w) if call_name(c) not in ("len", "bool", "list", "tuple", "iter", "enumerate", "zip")
               and any(isinstance(a, ast.Name) and a.id in (L, CL) for a in list(c.args) + [k.value for k in c.keywords])]
    ctx.require(not escapes or (set(reads) == set(dels) == {L, CL}),
                f"the working lists are passed to {escapes}: slicing delegated to a helper is not followed (not understood)")
    bounds = set()
    for lst in (L, CL):
        key = f"{base}:slice:{'parameters' if lst == L else 'compiled_parameters'}"
        if lst not in reads or lst not in dels:
            ctx.violation(key, f"`{lst}` is not both sliced and consumed in the batch loop "
                               f"(read: {lst in reads}, consumed: {lst in dels}): the two lists would get out of step", f"{f.module.path}:{w.lineno}")
            continue
        (tname, rb, rst), (db, dst, empty) = reads[lst], dels[lst]
        order_ok = rst.lineno < dst.lineno if rst in w.body and dst in w.body and w.body.index(rst) < w.body.index(dst) else False
        ctx.check(rb == db and rb[0] == "0" and empty and order_ok, key,
                  f"`{lst}` is read as [{rb[0]}:{rb[1]}] but consumed as [{db[0]}:{db[1]}]"
                  f"{'' if empty else ' (not replaced by an empty list)'}{'' if order_ok else ' (consumed before it is read)'}: "
                  f"rows would be duplicated or dropped between batches",
                  f"{tname} = {lst}[0:{rb[1]}]; {lst}[0:{db[1]}] = []", f"{f.module.path}:{rst.lineno}")
        bounds.add(rb[1])
        bounds.add(db[1])
    ctx.check(len(bounds) == 1, f"{base}:slice:same-bound",
              f"the two parallel lists are sliced with different bounds {sorted(bounds)}: parameter sets and their "
              f"compiled counterparts (sentinel values) would be paired wrongly",
              f"single bound `{next(iter(bounds)) if bounds else '?'}`", f"{f.module.path}:{w.lineno}")
    bound = next(iter(bounds)) if len(bounds) == 1 else None
    if bound is None and L in reads:
        # disagreeing bounds were reported above; the remaining clauses are judged against the read bound
        ub = reads[L][1][1]
        bound = ub if ub.isidentifier() else None
    return reads, bound


def _r1_fields_and_total(ctx, f, g, w, base, L, CL, params_p, cparams_p, reads, bound, ya, ycall):
    """idiom A, clauses (c) batch fields, (d) total_batches, page size stable"""
    pm = f.module.parents()
    # (c) the yielded batch carries the slices: the `batch` field IS the parameter slice (possibly through an alias),
    # `sentinel_values` is computed from the compiled slice and from nothing that depends on the parameter slice
    # (locals assigned in the round -- `vals = [...] if f else []` before the yield -- are followed)
    if L in reads and CL in reads:
        bname, cbname = reads[L][0], reads[CL][0]
        bfield = _alias_in(ya.get("batch"), w)
        good_b = isinstance(bfield, ast.Name) and bfield.id == bname
        sv = ya.get("sentinel_values")
        sv_names = RD.dep_closure(f.node, w, [sv], stop=(bname, cbname, L, CL)) if sv is not None else set()
        good_s = cbname in sv_names and bname not in sv_names
        ctx.check(good_b and good_s, f"{base}:batch-fields",
                  f"yielded batch: field `batch` <- `{unparse(ya.get('batch')) if ya.get('batch') is not None else '?'}` (want the slice `{bname}`), "
                  f"`sentinel_values` reads {sorted(sv_names & {bname, cbname})} (want the compiled slice `{cbname}`)",
                  f"batch={bname}, sentinel_values from {cbname}", f"{f.module.path}:{ycall.lineno}")
    # (d) total_batches == number of rounds.  The bookkeeping that leads to the value handed to the batch is
    # *executed* for 480 (rows, page size) pairs: one formula, divmod + correction, ceil(), a helper local ... all count
    # by their values, not by their spelling.
    tb = ya.get("total_batches")
    ctx.require(tb is not None, "total_batches field not passed")
    ctx.require(bound is not None, "slice bound is not a plain name")
    in_loop = {id(x) for x in ast.walk(w)}
    pre = [(n, v, st) for n, v, st in name_stores(f.node) if id(st) not in in_loop]
    # names the value is computed from (before the loop); the page size `bound` is an input
    rel, todo = set(), [x.id for x in ast.walk(tb) if isinstance(x, ast.Name)]
    while todo:
        n = todo.pop()
        if n in rel or n == bound:
            continue
        rel.add(n)
        for n2, v, st in pre:
            if n2 == n:
                src = v if v is not None else getattr(st, "value", None)
                if src is not None:
                    todo.extend(x.id for x in ast.walk(src) if isinstance(x, ast.Name))
    rel -= set(f.params) | {"math", "ceil", "int", "divmod", "bool", "max", "min", "abs", "len", "cast", L, CL}
    tb_stmts = [st for n, v, st in pre if n in rel]
    reads_bound = [st for st in tb_stmts if any(isinstance(x, ast.Name) and x.id == bound for x in ast.walk(st))] or \
        ([] if not any(isinstance(x, ast.Name) and x.id == bound for x in ast.walk(tb)) else [w])
    ctx.require(reads_bound, f"total_batches `{unparse(tb)}` is not computed from the slice bound `{bound}` (uses {sorted(rel)})")
    ctx.require(not any(n in rel for n, v, st in name_stores(w)), f"a local that total_batches is computed from ({sorted(rel)}) is rebound inside the batch loop")
    bad = None

    def _len_of(rows, before_loop=True):
        # the working copies have the full length only before the first round
        return lambda txt: rows if txt in ((params_p, cparams_p, L, CL) if before_loop else (params_p, cparams_p)) else None

    try:
        for rows in range(1, 41):
            for size in range(1, 13):
                env = {bound: size}
                reached = RD.exec_straight(f.node.body, env, rel, w, _len_of(rows))
                ctx.require(reached, "batch loop not reached by straight-line execution of the function body")
                got = RD.eval_arith(tb, env, _len_of(rows, False))
                if got != -(-rows // size):
                    bad = (rows, size, got, -(-rows // size))
                    break
            if bad:
                break
    except RD.NotEvaluable as e:
        ctx.error(f"cannot evaluate total_batches `{unparse(tb)}`: {e}")
    tb_text = "; ".join(dict.fromkeys(unparse(st)[:70].replace("\n", " ") for st in tb_stmts if st in reads_bound)) or unparse(tb)
    ctx.check(bad is None, f"{base}:total-batches",
              f"`{tb_text}` gives {bad[2] if bad else ''} for {bad[0] if bad else ''} rows with page size "
              f"{bad[1] if bad else ''}; the loop runs {bad[3] if bad else ''} rounds",
              f"`{tb_text}` == ceil(rows/size) on 480 (rows, size) pairs", f"{f.module.path}:{reads_bound[0].lineno}")
    # the bound is not changed after total_batches was computed / inside the loop
    if bound:
        bstores = [n.id for n in g.nodes if n.kind == "stmt" and isinstance(n.stmt, (ast.Assign, ast.AugAssign, ast.AnnAssign))
                   and any(isinstance(t, ast.Name) and t.id == bound for t in _targets(n.stmt))]
        tbn = [n for st in reads_bound for n in g.nodes_for(st)]
        late = [g.node(b).describe() for b in bstores if tbn and g.witness(tbn, [b]) is not None]
        ctx.check(not late, f"{base}:bound-stable",
                  f"the page size `{bound}` is reassigned after `{unparse(tb)}` was computed: {late}",
                  f"`{bound}` fixed before the first round", f.loc)


def _zips(it, names) -> bool:
    return any(isinstance(c, ast.Call) and (call_name(c) or "").rsplit(".", 1)[-1] in ("zip", "zip_longest")
               and {unparse(_strip_cast(a)) for a in c.args} >= set(names) for c in ast.walk(it))


def _batch_loops(f, pm, params_p, cparams_p):
    """outermost loops that yield and are not the row-at-a-time loop (`for .. in zip(parameters, compiled_parameters)`)"""
    out = [n for n in walk_local(f.node) if isinstance(n, (ast.For, ast.While)) and any(isinstance(x, ast.Yield) for x in ast.walk(n))
           and not (isinstance(n, ast.For) and _zips(n.iter, (params_p, cparams_p)))]
    return [n for n in out if not any(m is not n and any(a is m for a in _ancestors(pm, n)) for m in out)]


# models of the open inputs met while executing the bookkeeping (limits read from the dialect / the compiled statement:
# insertmanyvalues_max_parameters, number of bind names, parameters per row), by order of first use; which input plays
# which part is not known, so every arrangement of each triple is tried and the arrangements that make no sense
# (a page of less than one row) are discarded
_OPEN_INPUT_MODELS = [(20, 7, 5), (12, 4, 3), (9, 2, 2), (50, 10, 6), (7, 3, 3), (3, 1, 1), (2, 1, 1), (30, 1, 4)]


def _r1_by_execution(ctx, f, pm, w, base, params_p, cparams_p, ya, report_all):
    """The bookkeeping that decides which parameter sets each yielded batch carries -- working lists, page size and every
    reduction of it, offsets, counters, total_batches -- is *executed* (program slice of the function w.r.t. the yielded
    fields and the loop control, everything else dropped) for many (number of parameter sets, page size, open inputs).
    Required of every run: the batches, concatenated, are the parameter sets in order, each exactly once; the compiled
    parameter sets the sentinel values are taken from are the ones of the same rows; batchnum counts 1..n;
    total_batches == n; current_batch_size == len(batch); no batch is larger than the page size."""
    from . import _helpers_str2_e as SE
    import itertools
    ctx.require(len(f.params) > 5, "page size parameter of _deliver_insertmanyvalues_batches not found")
    size_p = f.params[5]
    try:
        path = SE.path_to(f.node.body, w)
    except SE.Unsupported as e:
        ctx.error(f"batch loop: {e}")
    ctx.require(path is not None, "batch loop is not reached from the function body")
    # locals bound in a round to a slice of something: the candidates for 'the rows of this batch'
    slice_locals = set()
    for st in ast.walk(w):
        if isinstance(st, (ast.Assign, ast.AnnAssign)) and getattr(st, "value", None) is not None:
            tg = st.targets[0] if isinstance(st, ast.Assign) and len(st.targets) == 1 else (st.target if isinstance(st, ast.AnnAssign) else None)
            pairs = [(tg, st.value)]
            if isinstance(tg, (ast.Tuple, ast.List)) and isinstance(st.value, (ast.Tuple, ast.List)) and len(tg.elts) == len(st.value.elts):
                pairs = list(zip(tg.elts, st.value.elts))
            for t, v in pairs:
                v = _strip_cast(v)
                if isinstance(t, ast.Name) and isinstance(v, ast.Subscript) and isinstance(v.slice, ast.Slice) and isinstance(_strip_cast(v.value), ast.Name):
                    slice_locals.add(t.id)
    judged = {k: ya.get(k) for k in ("batch", "batchnum", "total_batches", "current_batch_size")}
    ctx.require(all(v is not None for v in judged.values()), f"fields of the yielded batch not understood ({sorted(k for k, v in judged.items() if v is None)})")
    sv = ya.get("sentinel_values")
    sv_slices = (RD.dep_closure(f.node, w, [sv], stop=slice_locals) & slice_locals) if sv is not None else set()
    seeds = {x.id for e in judged.values() for x in ast.walk(e) if isinstance(x, ast.Name)} | slice_locals
    if isinstance(w, ast.While):
        seeds |= {x.id for x in ast.walk(w.test) if isinstance(x, ast.Name)}
    else:
        seeds |= {x.id for x in ast.walk(w.iter) if isinstance(x, ast.Name)} | {x.id for x in ast.walk(w.target) if isinstance(x, ast.Name)}
    builtin_names = {"len", "list", "tuple", "range", "min", "max", "cast", "int", "bool", "divmod", "abs", "enumerate", "zip", "math", "sorted", "reversed"}
    rel = SE.relevant_closure(path, seeds, ignore=builtin_names)
    try:
        prog = SE.prune(path, rel)
    except SE.Unsupported as e:
        ctx.error(f"bookkeeping of the batch loop: {e}")

    class Invalid(Exception):
        pass

    class Run(SE.Conc):
        def __init__(self, vector):
            super().__init__({"math": SE.Obj("math", ceil=__import__("math").ceil, floor=__import__("math").floor)}, budget=20000)
            self.vector = vector
            self.out = []

        def missing_attr(self, obj, attr):
            child = SE.Free(f"{obj.name}.{attr}")
            obj.attrs[attr] = child
            return child

        def free_value(self, fr, kind):
            if self.vector is None:
                return 0
            return self.vector[(len(self.free_order) - 1) % len(self.vector)]

        def note_slice(self, box, k, e):
            if isinstance(k, slice) and isinstance(box, list) and k.stop is not None and k.step is None:
                if k.stop - (k.start or 0) < 1 or (k.start or 0) < 0:
                    raise Invalid()

        def on_yield(self, node, env):
            rec = {k: self.ev(v, env) for k, v in judged.items()}
            rec["slices"] = {n: list(env[n]) for n in sv_slices if isinstance(env.get(n), (list, tuple))}
            rec["batch"] = list(rec["batch"]) if isinstance(rec["batch"], (list, tuple)) else rec["batch"]
            self.out.append(rec)

    def one(rows, size, vector):
        """-> (yielded records, free inputs used) | None for a model that makes no sense"""
        it = Run(vector)
        env = {}
        for p_ in f.params:
            env[p_] = SE.Free(p_)
        env[f.params[0]] = SE.Obj(f.params[0])
        env[params_p] = list(range(rows))
        env[cparams_p] = [1000 + i for i in range(rows)]
        env[size_p] = size
        try:
            it.call(ast.FunctionDef(name="slice", args=f.node.args, body=prog, decorator_list=[], lineno=0, col_offset=0), env)
        except Invalid:
            return None
        except SE.ModelRaise as e:
            if "ZeroDivisionError" in e.what:
                return None
            raise SE.Unsupported(f"the bookkeeping raises on the model: {e.what}")
        # a model in which a count / size of the bookkeeping went negative (or the page size below one row) makes no sense:
        # the dialect's parameter limit always admits at least one row
        if any(isinstance(v, int) and not isinstance(v, bool) and v < 0 for n, v in env.items() if n in rel) or \
                (isinstance(env.get(size_p), int) and env[size_p] < 1):
            return None
        return it.out, dict(it.free_values)

    vectors = [None] + list(_OPEN_INPUT_MODELS) + sorted({perm for v in _OPEN_INPUT_MODELS for perm in itertools.permutations(v)} - set(_OPEN_INPUT_MODELS))
    problems = {}      # key suffix -> (first text, seen in a run without open inputs?)
    runs = shrunk = 0

    def problem(key, text, plain):
        cur = problems.get(key)
        problems[key] = (cur[0] if cur else text, (cur[1] if cur else False) or plain)

    try:
        for vector in vectors:
            grid = [(r, s) for r in range(1, 25) for s in range(1, 9)] if vector is None else [(r, s) for r in (1, 5, 10, 11) for s in (3, 4, 10)]
            used_any = False
            for rows, size in grid:
                res = one(rows, size, vector)
                if res is None:
                    continue
                out, free = res
                if vector is not None and not free:
                    break  # nothing open is read: the runs without open inputs said it all
                used_any = True
                runs += 1
                plain = vector is None
                P, C = list(range(rows)), [1000 + i for i in range(rows)]
                where = f"{rows} parameter sets, page size {size}" + ("" if plain else f", open inputs {free}")
                batches = [r["batch"] for r in out]
                if not all(isinstance(b, list) for b in batches):
                    raise SE.Unsupported(f"field `batch` of the yielded object is not a list on the model ({batches[:1]})")
                if not plain and batches and max(len(b) for b in batches) < min(size, rows):
                    shrunk += 1
                flat = [x for b in batches for x in b]
                if flat != P:
                    lost = [x for x in P if x not in flat]
                    dup = sorted({x for x in flat if flat.count(x) > 1})
                    problem("slice:parameters", f"{where}: the {len(batches)} batch(es) carry parameter sets {_brief(flat)}"
                            + (f", sets {_brief(lost)} are never delivered" if lost else "") + (f", sets {_brief(dup)} more than once" if dup else ""), plain)
                if any(len(b) > size for b in batches):
                    problem("slice:parameters", f"{where}: a batch of {max(len(b) for b in batches)} rows exceeds the page size", plain)
                cs = []
                for r in out:
                    comp = [v for v in r["slices"].values() if v and all(isinstance(x, int) and x >= 1000 for x in v)]
                    par = [n for n, v in r["slices"].items() if v and any(isinstance(x, int) and x < 1000 for x in v)]
                    if par:
                        problem("batch-fields", f"{where}: sentinel_values is computed from `{par[0]}`, which holds rows of `{params_p}`, not of `{cparams_p}`", plain)
                    cs.append(comp[0] if comp else [])
                if sv is not None and not sv_slices:
                    problem("batch-fields", f"sentinel_values `{unparse(sv)[:50]}` does not read a per-round slice of `{cparams_p}`", True)
                elif [x for c in cs for x in c] != C:
                    problem("slice:compiled_parameters", f"{where}: the compiled parameter sets read for the batches are {_brief([x - 1000 for c in cs for x in c])}", plain)
                if any([x - 1000 for x in c] != b for c, b in zip(cs, batches)) and sv_slices:
                    k = next(i for i, (c, b) in enumerate(zip(cs, batches)) if [x - 1000 for x in c] != b)
                    problem("slice:same-bound", f"{where}: batch {k + 1} carries parameter sets {_brief(batches[k])} but the compiled sets of rows {_brief([x - 1000 for x in cs[k]])}", plain)
                nums = [r["batchnum"] for r in out]
                if nums != list(range(1, len(out) + 1)):
                    problem("counter-once-per-round", f"{where}: batchnum takes the values {nums[:6]}", plain)
                tot = sorted({r["total_batches"] for r in out}, key=repr)
                if tot != [len(out)] and out:
                    problem("total-batches", f"{where}: total_batches is {tot[0] if len(tot) == 1 else tot} but {len(out)} batch(es) are delivered"
                            + ("" if flat == P else f" ({len(flat)} of {rows} parameter sets)"), plain)
                if any(r["current_batch_size"] != len(r["batch"]) for r in out):
                    k = next(i for i, r in enumerate(out) if r["current_batch_size"] != len(r["batch"]))
                    problem("batch-fields", f"{where}: current_batch_size is {out[k]['current_batch_size']} for a batch of {len(batches[k])} rows", plain)
            if vector is not None and not used_any and runs:
                continue
    except SE.Unsupported as e:
        ctx.error(f"the bookkeeping of the batch loop cannot be executed on the model: {e}")
    ctx.require(runs >= 100, f"only {runs} model executions of the batch loop made sense")
    loc = f"{f.module.path}:{w.lineno}"
    # a clause that only fails once an open input reduced the page size: something was computed from the page size too early
    stale = {k: v for k, v in problems.items() if not v[1]}
    ok_detail = f"{runs} model executions ({shrunk} with a page size reduced by the dialect's parameter limit)"
    if report_all:
        names = {"slice:parameters": "every parameter set is delivered exactly once, in order", "slice:compiled_parameters": "the compiled parameter sets are read exactly once, in order",
                 "slice:same-bound": "a batch pairs parameter sets with the compiled sets of the same rows", "counter-once-per-round": "batchnum counts the batches from 1",
                 "batch-fields": "the yielded fields describe the batch", "total-batches": "total_batches is the number of batches delivered"}
        for k, what in names.items():
            bad = problems.get(k) if k not in stale else None
            ctx.check(bad is None, f"{base}:{k}", f"not `{what}`: {bad[0] if bad else ''}", f"{what}: {ok_detail}", loc)
        ctx.check(not stale, f"{base}:bound-stable",
                  "a value that bounds the batch loop or describes the batches is computed from the page size before the page size is reduced "
                  f"(insertmanyvalues_max_parameters): {'; '.join(v[0] for v in list(stale.values())[:2])}",
                  f"every value derived from `{size_p}` follows its last reduction: {ok_detail}", loc)
    first = next(iter(problems.values()))[0] if problems else ""
    ctx.check(not problems, f"{base}:every-parameter-set-delivered-once-in-order",
              f"executing the batch bookkeeping on a model: {first}", ok_detail, loc)


def _brief(xs):
    xs = list(xs)
    if len(xs) > 6 and xs == list(range(xs[0], xs[0] + len(xs))):
        return f"[{xs[0]}..{xs[-1]}]"
    return str(xs[:8])[:-1] + (", ...]" if len(xs) > 8 else "]")



@R.rule("C12-R1", floor=10, template="T-SIBLING/T-FLOW",
        desc="compiler-level batching: same slice bound read and consumed on both parallel lists, one yield and one "
             "counter increment per round, batch fields carry the matching slices, total_batches == number of "
             "rounds, the executed bookkeeping (any loop shape, page size reduced by the dialect's parameter limit) "
             "delivers every parameter set once and in order, row-at-a-time branch pairs the two lists one to one")
def r1(ctx):
    f = ctx.func(CB)
    g = ctx.cfg(f)
    pm = f.module.parents()
    fields = _batch_fields(ctx)
    base = f.key
    params_p, cparams_p = f.params[2], f.params[3]
    # the two working lists: local = list(<param>)
    work = {}
    for n, v, st in name_stores(f.node):
        v2 = _strip_cast(v) if v is not None else None
        if isinstance(v2, ast.Call) and call_name(v2) == "list" and len(v2.args) == 1 and isinstance(v2.args[0], ast.Name) \
                and v2.args[0].id in (params_p, cparams_p):
            work[v2.args[0].id] = n
    # idiom A: working copies `L = list(parameters)`, `while L:` with head slices `L[0:n]` consumed by `L[0:n] = []`
    idiom_a = set(work) == {params_p, cparams_p}
    L, CL = (work[params_p], work[cparams_p]) if idiom_a else (None, None)
    def _loop_test_list(t):
        """`while L:` / `while len(L) > 0:` / `while len(L):` / `while L != []:` -> L"""
        t = _strip_cast(t)
        if isinstance(t, ast.Name):
            return t.id
        if isinstance(t, ast.Call) and call_name(t) == "len" and len(t.args) == 1 and isinstance(t.args[0], ast.Name):
            return t.args[0].id
        if isinstance(t, ast.Compare) and len(t.ops) == 1:
            l, r = t.left, t.comparators[0]
            if isinstance(l, ast.Call) and call_name(l) == "len" and len(l.args) == 1 and isinstance(l.args[0], ast.Name) \
                    and isinstance(r, ast.Constant) and (
                        (isinstance(t.ops[0], (ast.Gt, ast.NotEq)) and r.value == 0) or (isinstance(t.ops[0], ast.GtE) and r.value == 1)):
                return l.args[0].id
            if isinstance(l, ast.Name) and isinstance(t.ops[0], ast.NotEq) and isinstance(r, ast.List) and not r.elts:
                return l.id
        return None

    loops = [n for n in walk_local(f.node) if isinstance(n, ast.While) and _loop_test_list(n.test) in (L, CL)] if idiom_a else []
    idiom_a = idiom_a and len(loops) == 1
    if idiom_a:
        w = loops[0]
    else:
        # any other loop shape (offset slices in a `for` over range(), islice ...): the round structure is found from the
        # yield, the bookkeeping is judged by executing it (see _r1_by_execution)
        cands = _batch_loops(f, pm, params_p, cparams_p)
        ctx.require(len(cands) == 1, f"batch loop not found ({len(cands)} loops outside the row-at-a-time branch yield a batch)")
        w = cands[0]
    reads, bound = _r1_slices(ctx, f, w, base, L, CL) if idiom_a else ({}, None)
    # (b) exactly one yield / one counter increment per round
    tnode = g.nodes_for(w)
    ctx.require(len(tnode) == 1, "loop head node not unique")
    starts = [b for b, lab in g.succ[tnode[0]] if lab == "true"]
    ynodes = [n.id for n in g.nodes if n.kind == "stmt" and isinstance(n.stmt, ast.Expr) and isinstance(n.stmt.value, ast.Yield)
              and any(a is w for a in _ancestors(pm, n.stmt))]
    ctx.require(ynodes, "no yield in the batch loop")

    def once(nodes, what, key):
        miss = g.must_pass(starts, tnode, nodes, edge_ok=lambda a, b, l: l != "exc")
        twice = None
        for y in nodes:
            p = g.witness([y], nodes, avoid=tnode, edge_ok=lambda a, b, l: l != "exc")
            if p is not None:
                twice = g.describe_path(p)
        ctx.check(miss is None and twice is None, key,
                  f"{what} does not happen exactly once per round ({'a round can skip it' if miss else 'it can happen twice in a round'})",
                  f"exactly once per round", f"{f.module.path}:{w.lineno}", miss or twice)

    once(ynodes, "yield of the batch", f"{base}:one-yield-per-round")
    ycall = _yielded_ctor(g.node(ynodes[0]).stmt.value.value, w)
    ctx.require(isinstance(ycall, ast.Call) and (call_name(ycall) or "").endswith("_InsertManyValuesBatch"), "batch loop does not yield _InsertManyValuesBatch(...)")
    ya = _ctor_args(ycall, fields)
    if idiom_a:
        counter = ya.get("batchnum")
        ctx.require(isinstance(counter, ast.Name), "batchnum field is not a local counter")
        incs = [n.id for n in g.nodes if n.kind == "stmt" and isinstance(n.stmt, ast.AugAssign) and isinstance(n.stmt.target, ast.Name)
                and n.stmt.target.id == counter.id and isinstance(n.stmt.op, ast.Add) and unparse(n.stmt.value) == "1"
                and any(a is w for a in _ancestors(pm, n.stmt))]
        if not incs:
            ctx.violation(f"{base}:counter-once-per-round", f"batch counter `{counter.id}` is never incremented in the batch loop", f"{f.module.path}:{w.lineno}")
        else:
            once(incs, f"`{counter.id} += 1`", f"{base}:counter-once-per-round")
        _r1_fields_and_total(ctx, f, g, w, base, L, CL, params_p, cparams_p, reads, bound, ya, ycall)
    _r1_by_execution(ctx, f, pm, w, base, params_p, cparams_p, ya, report_all=not idiom_a)
    # (e) row-at-a-time branch
    fors = [n for n in walk_local(f.node) if isinstance(n, ast.For) and any(isinstance(x, ast.Yield) for x in ast.walk(n))
            and not any(a is w for a in _ancestors(pm, n)) and n is not w]
    ctx.require(len(fors) == 1, "row-at-a-time loop not found")
    fr = fors[0]
    it = _strip_cast(fr.iter)
    start1 = enumerated0 = False
    if isinstance(it, ast.Call) and call_name(it) == "enumerate":
        start1 = (len(it.args) == 2 and unparse(it.args[1]) == "1") or any(k.arg == "start" and unparse(k.value) == "1" for k in it.keywords)
        enumerated0 = (len(it.args) == 1 and not it.keywords) or (len(it.args) == 2 and unparse(it.args[1]) == "0") \
            or any(k.arg == "start" and unparse(k.value) == "0" for k in it.keywords)
        it = _strip_cast(it.args[0])
    zipped = isinstance(it, ast.Call) and call_name(it) == "zip" and [unparse(a) for a in it.args] == [params_p, cparams_p]
    ys = [n for n in ast.walk(fr) if isinstance(n, ast.Yield)]
    tgt_names = [n.id for n in ast.walk(fr.target) if isinstance(n, ast.Name)]
    # exactly one yield, executed unconditionally once per pair
    y_top = len(ys) == 1 and any(isinstance(st, ast.Expr) and st.value is ys[0] for st in fr.body)
    good = zipped and y_top
    detail = ""
    if good:
        rcall = _yielded_ctor(ys[0].value, fr)
        ctx.require(isinstance(rcall, ast.Call) and (call_name(rcall) or "").endswith("_InsertManyValuesBatch"),
                    "row-at-a-time loop does not yield _InsertManyValuesBatch(...)")
        ra = _ctor_args(rcall, fields)
        # target = (batchnum, (param, cparam))
        ctx.require(len(tgt_names) == 3, f"row-at-a-time loop target `{unparse(fr.target)}` not (n, (param, compiled_param))")
        n_, p_, cp_ = tgt_names
        b = _alias_in(ra.get("batch"), fr)
        good = isinstance(b, ast.List) and len(b.elts) == 1 and unparse(_alias_in(b.elts[0], fr)) == p_
        sv = ra.get("sentinel_values")
        svn = RD.dep_closure(f.node, fr, [sv], stop=(p_, cp_)) if sv is not None else set()
        num = _alias_in(ra.get("batchnum"), fr)
        numbered = (start1 and unparse(num) == n_) or (not start1 and enumerated0 and unparse(num).replace(" ", "") in (f"{n_}+1", f"1+{n_}"))
        good = good and cp_ in svn and p_ not in svn and numbered and unparse(_alias_in(ra.get("current_batch_size"), fr)) == "1"
        detail = f"batch=[{p_}], sentinel from {cp_}, batchnum={unparse(num)}"
    ctx.check(bool(good), f"{base}:row-at-a-time",
              "row-at-a-time branch does not yield exactly one single-row batch per pair of zip(parameters, compiled_parameters) "
              "numbered from 1",
              detail, f"{f.module.path}:{fr.lineno}")


def _region_binds(region, name):
    """values bound to the plain local `name` by assignments inside `region` (None for a binding that is not a
    plain `name = value`)"""
    return [v for n, v, st in name_stores(region) if n == name]


def _alias_in(e, region, depth=4):
    """follow `x = <name / attribute / literal>` bound exactly once inside the region (a loop round)"""
    while depth > 0 and isinstance(e, ast.Name):
        vs = _region_binds(region, e.id)
        if len(vs) != 1 or vs[0] is None:
            break
        v = _strip_cast(vs[0])
        if not isinstance(v, (ast.Name, ast.Attribute, ast.Constant, ast.List, ast.Tuple)):
            break
        e, depth = v, depth - 1
    return e


def _yielded_ctor(e, region):
    """`yield C(...)` or `b = C(...)` ... `yield b` (b bound once in the round)"""
    e = _strip_cast(e)
    if isinstance(e, ast.Name):
        vs = _region_binds(region, e.id)
        if len(vs) == 1 and vs[0] is not None:
            return _strip_cast(vs[0])
    return e


def _targets(st):
    if isinstance(st, ast.Assign):
        return st.targets
    return [st.target]


def _ancestors(pm, node):
    cur = pm.get(node)
    while cur is not None:
        yield cur
        cur = pm.get(cur)


@R.rule("C12-R2", floor=6, template="T-GUARD/T-PATH",
        desc="dialect-level delivery: on the sentinel branch rows reach the result only sorted by the sentinel or "
             "looked up per parameter set after the cardinality check; a missing key raises; raw rows are appended "
             "only off the sentinel branch; sort_by_parameter_order comes from the statement only with RETURNING")
def r2(ctx):
    f = ctx.func(DB)
    g = ctx.cfg(f)
    pm = f.module.parents()
    base = f.key
    defs = RD.single_defs(f.node)
    # the accumulating list: the local that is published as context._insertmanyvalues_rows (else: `result`)
    res = None
    for n in walk_local(f.node):
        if isinstance(n, ast.Assign) and any(isinstance(t, ast.Attribute) and t.attr == "_insertmanyvalues_rows" for t in n.targets):
            cands = [t.id for t in n.targets if isinstance(t, ast.Name)] + ([n.value.id] if isinstance(n.value, ast.Name) else [])
            if len(cands) == 1:
                res = cands[0]
    if res is None:
        res = "result"
    # sites where rows are added to it: res.extend(X) / res.append(X) / res += X / alias(X) with alias = res.extend
    adders = {n for n, v in defs.items() if isinstance(v, ast.Attribute) and isinstance(v.value, ast.Name) and v.value.id == res
              and v.attr in ("extend", "append")}
    exts = []
    for n in walk_local(f.node):
        if isinstance(n, ast.Call) and len(n.args) == 1 and (
                (isinstance(n.func, ast.Attribute) and n.func.attr in ("extend", "append") and isinstance(n.func.value, ast.Name)
                 and n.func.value.id == res) or (isinstance(n.func, ast.Name) and n.func.id in adders)):
            exts.append((n.args[0], n))
        elif isinstance(n, ast.AugAssign) and isinstance(n.target, ast.Name) and n.target.id == res and isinstance(n.op, ast.Add):
            exts.append((n.value, n))
    ctx.require(len(exts) >= 2, f"sites adding rows to `{res}` not found")
    # the raw rows variable: bound from fetchall_for_returning
    rows = [n for n, v, st in name_stores(f.node) if isinstance(v, ast.Call) and (call_name(v) or "").endswith("fetchall_for_returning")]
    ctx.require(len(rows) == 1, "rows = context.fetchall_for_returning(cursor) not found")
    rows = rows[0]
    # the sentinel branch = where `<imv>.num_sentinel_columns` holds and `<batch>.is_downgraded` does not, however the
    # branch is written (if / inverted if with early continue / nested ifs / a boolean local)
    SENT = {("num_sentinel_columns", True), ("is_downgraded", False)}

    def _short(atoms):
        return {(RD.last_component(a), p) for a, p in atoms}

    def _sentinel_side(st):
        """'on' (both atoms established), 'off' (a dominating outcome refutes the sentinel condition), or None"""
        guards = RD.guards_of(g, pm, f.node, st, defs)
        if SENT <= _short(RD.atoms_of(guards)):
            return "on"
        for t, pol in guards:
            neg = _short(RD.atoms_of([(t, not pol)]))
            if neg and neg <= SENT:
                return "off"
        return None

    kinds = []
    for arg, c in exts:
        st = enclosing_stmt(pm, c)
        side = _sentinel_side(st)
        arg = RD.resolve(arg, defs)
        val = RD.strip_cast(defs[arg.id]) if isinstance(arg, ast.Name) and arg.id in defs else arg
        if isinstance(arg, ast.Name) and arg.id == rows:
            kind, srt = "raw", None
        elif isinstance(val, ast.Call) and call_name(val) == "sorted" and val.args and unparse(RD.resolve(val.args[0], defs)) == rows:
            kind, srt = "sorted", val
        elif isinstance(arg, ast.Name):
            kind, srt = "lookup:" + arg.id, None
        else:
            kind, srt = "other", None
        kinds.append((kind, side == "on", c, st, side, srt))
    tested = {a.attr for n in walk_local(f.node) if isinstance(n, (ast.If, ast.IfExp, ast.While)) for a in ast.walk(n.test)
              if isinstance(a, ast.Attribute)} | {a.attr for v in defs.values() for a in ast.walk(v) if isinstance(a, ast.Attribute)}
    ctx.require({"num_sentinel_columns", "is_downgraded"} <= tested,
                "no test of `<imv>.num_sentinel_columns` / `<batch>.is_downgraded` found (sentinel branch anchor vanished)")
    # (a) raw rows only off the sentinel branch; on it only sorted / lookup
    bad = [f"`{unparse(c)[:50]}` ({k}{'' if side else ', not confined to either side of the sentinel test'})"
           for k, inb, c, st, side, _s in kinds
           if (inb and k in ("raw", "other")) or (not inb and k != "raw") or (k == "raw" and side != "off")]
    ctx.check(not bad and any(k == "raw" for k, *_ in kinds) and any(k == "sorted" for k, *_ in kinds) and any(k.startswith("lookup") for k, *_ in kinds),
              f"{base}:result-only-reordered-on-sentinel-branch",
              f"rows reach the result in the wrong form for their branch: {bad or [k for k, *_ in kinds]} -- with sentinel columns the "
              f"server's row order would be returned as if it were parameter order",
              "sentinel branch: sorted(rows)/lookup only; otherwise raw rows", f.loc)
    # (b) implicit sentinel: sorted by the LAST column (where the sentinel is appended)
    for k, inb, c, st, side, srt in kinds:
        if k != "sorted":
            continue
        keyf = [kw.value for kw in srt.keywords if kw.arg == "key"]
        last = bool(keyf) and _selects_last(RD.resolve(keyf[0], defs, pure_only=False))
        srt_st = enclosing_stmt(pm, srt)
        atoms = _short(RD.atoms_of(RD.guards_of(g, pm, f.node, st, defs))) | _short(RD.atoms_of(RD.guards_of(g, pm, f.node, srt_st, defs)))
        # ascending: Table._sentinel_column_characteristics only admits generators that count upwards (C12-R5)
        ascending = not any(kw.arg == "reverse" and not (isinstance(kw.value, ast.Constant) and kw.value.value is False)
                            for kw in srt.keywords)
        ctx.check(last and ascending and ("implicit_sentinel", True) in atoms, f"{base}:implicit-sentinel-sort",
                  f"`{unparse(srt)[:70]}` is not an ascending sort on the last (sentinel) column under `imv.implicit_sentinel`",
                  "sorted(rows, key=last column) under implicit_sentinel", f"{f.module.path}:{c.lineno}")
    # (c) lookup in parameter order, dominated by the cardinality check.  The looked-up list is described by how it
    # is built -- `[T[k] for k in <batch>.sentinel_values]`, or `x = []` + `for k in <batch>.sentinel_values:
    # x.append(T[k])` -- not by the syntax used to build it.
    for k, inb, c, st, side, _s in kinds:
        if not k.startswith("lookup:"):
            continue
        nm = k.split(":", 1)[1]
        # where the list is built: here, or in a helper (method of the dialect / module function) whose result it is
        bf, bg, bpm, bname, amap, call_st = f, g, pm, nm, {}, None
        builds = RD.list_builds(f.node, nm, pm)
        ctx.require(builds is not None, f"`{nm}` is changed in a way that is not understood")
        if len(builds) == 1 and builds[0].form == "other":
            hv = RD.strip_cast(defs.get(nm))
            callee = _local_callee(ctx, f, hv) if isinstance(hv, ast.Call) else None
            ctx.require(callee is not None, f"`{nm} = {unparse(builds[0].stmt)[:60]}` is neither a list construction nor a call of a local helper")
            rets = [r for r in ast.walk(callee.node) if isinstance(r, ast.Return) and r.value is not None]
            ctx.require(len(rets) == 1, f"helper {callee.qualname} has {len(rets)} return values")
            ctx.functions_analysed.add(callee.key)
            bf, bg, bpm, call_st = callee, ctx.cfg(callee), callee.module.parents(), builds[0].stmt
            from ._helpers_rules_b import arg_for
            amap = {p_: arg_for(hv, callee, p_) for p_ in callee.params}
            rv = RD.strip_cast(rets[0].value)
            if isinstance(rv, ast.Name):
                bname = rv.id
                builds = RD.list_builds(bf.node, bname, bpm)
                ctx.require(builds is not None, f"`{bname}` in {callee.qualname} is changed in a way that is not understood")
            else:
                bname = f"<result of {callee.name}>"
                builds = RD.returned_list_build(rets[0])
                ctx.require(builds is not None, f"helper {callee.qualname} returns `{unparse(rv)[:60]}`: not a list construction")
        bdefs = defs if bf is f else RD.single_defs(bf.node)

        def _to_caller(e):
            """an expression of the helper in the caller's terms (parameter -> argument), aliases resolved"""
            e = RD.resolve(e, bdefs)
            if isinstance(e, ast.Name) and amap.get(e.id) is not None:
                e = RD.resolve(amap[e.id], defs)
            return e

        fills = [b for b in builds if b.form in ("comp", "loop")]
        ctx.require(len(fills) == 1 and not any(b.form == "other" for b in builds),
                    f"`{bname}` is not built by one comprehension / one append loop ({[b.form for b in builds]})")
        bld = fills[0]
        cst = bld.stmt
        it = _to_caller(bld.iter)
        by_param = isinstance(it, ast.Attribute) and it.attr == "sentinel_values" and not bld.ifs
        elt = bld.elt
        table = elt.value.id if isinstance(elt, ast.Subscript) and isinstance(elt.value, ast.Name) else None
        keyed = table is not None and unparse(elt.slice) == unparse(bld.target)
        stale = RD.loop_builds_fresh(bg, builds) if bld.form == "loop" else None
        ctx.check(by_param and keyed and stale is None, f"{base}:lookup-in-parameter-order",
                  f"`{nm} = {bld.text()[:80]}` does not map each entry of <batch>.sentinel_values (parameter order) to its row"
                  + ("" if stale is None else f" (`{bname}` is not emptied before each filling: rows of an earlier batch are delivered again)"),
                  f"[{table}[k] for k in <batch>.sentinel_values]", f"{bf.module.path}:{cst.lineno}", stale)
        if table is None:
            continue
        # cardinality check dominates: in the function that builds the list, or (helper) in the caller before the call
        where = [(bg, bld.holder, table, bdefs)]
        if call_st is not None:
            t_arg = _to_caller(ast.Name(id=table, ctx=ast.Load()))
            where.append((g, call_st, t_arg.id if isinstance(t_arg, ast.Name) else table, defs))
        card = any(_cardinality_dominates(ctx, gx, stx, tx, dx) for gx, stx, tx, dx in where)
        ctx.check(card, f"{base}:cardinality-check-dominates-lookup",
                  f"the lookup of rows by sentinel is not dominated by `len({table}) != len(<batch>.batch)` -> raise InvalidRequestError: "
                  f"duplicate or missing sentinel values could be returned silently",
                  f"len({table}) == len(batch) established before the lookup", f"{bf.module.path}:{cst.lineno}")
        # KeyError -> documented error (the statement that evaluates T[k] -- or the call of the helper that does -- is
        # what must be covered)
        handled = False
        for pmx, stx in [(bpm, cst)] + ([(pm, call_st)] if call_st is not None else []):
            for t, part in enclosing_try(pmx, stx):
                if part == "body":
                    for h in t.handlers:
                        if h.type is not None and "KeyError" in unparse(h.type):
                            handled = handled or any(isinstance(x, ast.Raise) and (raised_name(x) or "").endswith("InvalidRequestError")
                                                     for x in ast.walk(h))
        ctx.check(handled, f"{base}:unmatched-sentinel-raises",
                  "a sentinel value with no matching row is not turned into the documented InvalidRequestError",
                  "except KeyError -> InvalidRequestError", f"{bf.module.path}:{cst.lineno}")
    if not any(k.startswith("lookup:") for k, *_ in kinds):
        for a_ in (":lookup-in-parameter-order", ":cardinality-check-dominates-lookup", ":unmatched-sentinel-raises"):
            ctx.violation(base + a_, "cannot be established: no per-parameter lookup of rows on the sentinel branch", f.loc)
    # (d) sort_by_parameter_order handed to the compiler-level generator
    gen_calls = [c for c in calls_in(f.node) if (call_name(c) or "").endswith("._deliver_insertmanyvalues_batches")]
    ctx.require(len(gen_calls) == 1, "call of compiled._deliver_insertmanyvalues_batches not found")
    comp_f = ctx.func(CB)
    from ._helpers_rules_b import arg_for
    a = arg_for(gen_calls[0], comp_f, "sort_by_parameter_order")
    ctx.require(isinstance(a, ast.Name), "sort_by_parameter_order argument is not a local")
    of = OrderFlow(ctx)
    binds, entry = of.reaching(a.id, f, enclosing_stmt(pm, gen_calls[0]))
    good = bool(binds) and not (entry and a.id in f.params)
    seen_true = seen_false = False
    for v, st in binds:
        atoms = guard_atoms(lexical_guards(pm, st, stop=f.node))
        if isinstance(v, ast.Attribute) and v.attr == "sort_by_parameter_order":
            seen_true = True
            good = good and ("is_returning", True) in atoms
        elif isinstance(v, ast.Constant) and v.value is False:
            seen_false = True
            good = good and ("is_returning", False) in atoms
        else:
            good = False
    ctx.check(good and seen_true and seen_false, f"{base}:sort-flag-only-with-returning",
              f"`{a.id}` passed to the batch generator is not `imv.sort_by_parameter_order` under RETURNING and False otherwise "
              f"(bindings: {[unparse(st)[:50] for _, st in binds]})",
              "imv.sort_by_parameter_order if is_returning else False", f.loc)


def _local_callee(ctx, f, call: ast.Call):
    """`self.m(...)` / `cls.m(...)` -> method through the MRO; `fn(...)` -> function of the same module"""
    fn_ = call.func
    if isinstance(fn_, ast.Attribute) and isinstance(fn_.value, ast.Name) and fn_.value.id in ("self", "cls") and f.cls is not None:
        return ctx.index.resolve_method(f.cls, fn_.attr)
    if isinstance(fn_, ast.Name):
        return f.module.functions.get(fn_.id)
    return None


def _cardinality_dominates(ctx, g, st, table, defs) -> bool:
    """`len(<table>) != len(<batch>.batch)` -> raise InvalidRequestError dominates statement `st` in CFG `g`"""
    node = g.nodes_for(st)
    ctx.require(node, "lookup statement not in CFG")
    card = False
    for t0, pol in g.edge_guards(node[0]):
        t = RD.expand(t0, defs)
        if isinstance(t, ast.Compare) and len(t.ops) == 1 and isinstance(t.ops[0], (ast.NotEq, ast.Eq)):
            sides = {unparse(t.left).replace(" ", ""), unparse(t.comparators[0]).replace(" ", "")}
            if f"len({table})" in sides and any(s.startswith("len(") and s.endswith(".batch)") for s in sides):
                ok = (isinstance(t.ops[0], ast.NotEq) and pol is False) or (isinstance(t.ops[0], ast.Eq) and pol is True)
                # the failing outcome must raise the documented error
                tn = [n.id for n in g.nodes if n.kind == "test" and n.stmt.test is t0]
                lab = "true" if isinstance(t.ops[0], ast.NotEq) else "false"
                fail = [b for b, l in g.succ[tn[0]] if l == lab] if tn else []
                reach = g.reachable(fail, avoid=node, edge_ok=lambda a, b, l: True)
                raises = [n for n in reach if g.node(n).kind == "stmt" and isinstance(g.node(n).stmt, ast.Raise)
                          and (raised_name(g.node(n).stmt) or "").endswith("InvalidRequestError")]
                card = card or (ok and bool(raises) and node[0] not in g.reachable(fail))
    return card


def _selects_last(keyf) -> bool:
    """sort key that reads the last column of a row: operator.itemgetter(-1) / lambda r: r[-1]"""
    if isinstance(keyf, ast.Call) and (call_name(keyf) or "").rsplit(".", 1)[-1] == "itemgetter":
        return len(keyf.args) == 1 and unparse(keyf.args[0]) == "-1"
    if isinstance(keyf, ast.Lambda) and len(keyf.args.args) == 1 and isinstance(keyf.body, ast.Subscript):
        return isinstance(keyf.body.value, ast.Name) and keyf.body.value.id == keyf.args.args[0].arg and unparse(keyf.body.slice) == "-1"
    return False


def _in_list(pm, st, lst):
    cur = st
    while cur is not None:
        if any(cur is x for x in lst):
            return True
        cur = pm.get(cur)
    return False


@R.rule("C12-R3", floor=12, template="T-TABLE",
        desc="sentinel capability tables: keys are _SentinelDefaultCharacterization members, values "
             "InsertmanyvaluesSentinelOpts members; same-named kinds map to themselves, client-side kinds to any "
             "backend, server-side/unknown defaults are absent; the autoincrement table only adds NONE->AUTOINCREMENT; "
             "every reference to either enum in the package names an existing member")
def r3(ctx):
    comp = ctx.index.cls(f"{COMP}::SQLCompiler")
    opts = ctx.index.cls(f"{COMP}::InsertmanyvaluesSentinelOpts")
    chars = ctx.index.cls("sql/base.py::_SentinelDefaultCharacterization")
    opt_members = set(opts.assigns)
    char_members = set(chars.assigns)
    tabs = {}
    ev = Evaluator(ctx.index, symbolic_classes={opts.name, chars.name})
    for name in ("_sentinel_col_non_autoinc_lookup", "_sentinel_col_autoinc_lookup"):
        v = ev.class_value(comp, name)
        ctx.require(isinstance(v, dict), f"SQLCompiler.{name} did not evaluate to a table ({type(v).__name__}: {str(v)[:80]})")
        tab = {}
        for k, val in v.items():
            ctx.require(isinstance(k, Sym) and isinstance(val, Sym), f"{name}: entry {k}: {val} is not symbolic")
            tab[k.short] = val.short
        tabs[name] = tab
        key = f"{comp.key}.{name}"
        badk = sorted(k for k in tab if k not in char_members)
        badv = sorted(v2 for v2 in tab.values() if v2 not in opt_members)
        ctx.check(not badk and not badv, key + ":members",
                  f"{name} names unknown enum members: keys {badk}, values {badv}", f"{len(tab)} entries, all enum members", comp.loc)
        same = {k: v2 for k, v2 in tab.items() if k in opt_members and k != "NONE"}
        wrong = {k: v2 for k, v2 in same.items() if k != v2}
        ctx.check(not wrong and same, key + ":same-kind",
                  f"{name}: a server-generated default kind is matched against a different backend capability: {wrong}",
                  f"{sorted(same)} map to the capability of the same name", comp.loc)
        forbidden = sorted(k for k in tab if k in ("SERVERSIDE", "UNKNOWN"))
        ctx.check(not forbidden, key + ":no-opaque-serverside",
                  f"{name}: {forbidden} (server-side defaults with no ordering guarantee) are offered as sentinels", "SERVERSIDE/UNKNOWN absent", comp.loc)
        client = {k: tab.get(k) for k in ("CLIENTSIDE", "SENTINEL_DEFAULT")}
        ctx.check(all(v2 == "_SUPPORTED_OR_NOT" for v2 in client.values()), key + ":client-side-any-backend",
                  f"{name}: client-generated sentinel values must be usable on every backend: {client}",
                  "CLIENTSIDE / SENTINEL_DEFAULT -> _SUPPORTED_OR_NOT", comp.loc)
    a, n = tabs["_sentinel_col_autoinc_lookup"], tabs["_sentinel_col_non_autoinc_lookup"]
    diff = {k: (n.get(k), a.get(k)) for k in set(a) | set(n) if a.get(k) != n.get(k)}
    ctx.check(diff == {"NONE": (n.get("NONE"), "AUTOINCREMENT")}, f"{comp.key}._sentinel_col_autoinc_lookup:delta",
              f"autoincrement table differs from the plain table by {diff}; expected only NONE -> AUTOINCREMENT",
              "autoinc table = plain table + {NONE: AUTOINCREMENT}", comp.loc)
    # the consumer: absent kinds yield bitmask 0 and the decision is `opts & bitmask`
    f = ctx.func(f"{COMP}::SQLCompiler._get_sentinel_column_for_table")
    gets = [c for c in calls_in(f.node) if (call_name(c) or "").endswith("_lookup.get")]
    zero = bool(gets) and all(len(c.args) == 2 and unparse(c.args[1]) == "0" for c in gets)
    tests = [n for n in walk_local(f.node) if isinstance(n, ast.If) and isinstance(n.test, ast.BinOp) and isinstance(n.test.op, ast.BitAnd)]
    ctx.check(zero and len(gets) == 2 and len(tests) == 1, f"{f.key}:absent-kind-is-never-a-sentinel",
              "lookup of the capability bitmask does not default to 0 / is not tested with `&`",
              "get(kind, 0); if dialect_opts & bitmask", f.loc)
    # every reference in the package names a member
    for cls, members in ((opts, opt_members), (chars, char_members)):
        refs, bad = 0, []
        for m in ctx.index.all_modules():
            if cls.name not in m.source:
                continue
            for node in ast.walk(m.tree):
                if isinstance(node, ast.Attribute) and isinstance(node.value, ast.Name) and node.value.id == cls.name:
                    refs += 1
                    if node.attr not in members and not node.attr.startswith("__"):
                        bad.append(f"{m.relpath}:{node.lineno} {cls.name}.{node.attr}")
        ctx.check(not bad and refs > 0, f"{cls.key}:references",
                  f"references to non-existent members: {bad}", f"{refs} references, all existing members", cls.loc)


@R.rule("C12-R4", floor=5, template="T-GUARD/T-PATH",
        desc="upsert clauses: a statement with a per-row bound parameter after VALUES (has_upsert_bound_parameters) is "
             "recognised on every rendering path and for every value-less bindparam(), is only batched with RETURNING, "
             "keeps its mark until delivery, and is then delivered one row per statement")
def r4(ctx):
    SC.upsert_detector(ctx)
    SC.upsert_consumer(ctx)


@R.rule("C12-R5", floor=2, template="T-PATH",
        desc="a server-generated incrementing default (IDENTITY, SEQUENCE) with a negative increment is never kept as "
             "implicit sentinel (rows are sorted ascending by the sentinel)")
def r5(ctx):
    # the default kinds offered as sentinels (keys of the capability table) that are configurable generators
    comp = ctx.index.cls(f"{COMP}::SQLCompiler")
    opts = ctx.index.cls(f"{COMP}::InsertmanyvaluesSentinelOpts")
    chars = ctx.index.cls("sql/base.py::_SentinelDefaultCharacterization")
    ev = Evaluator(ctx.index, symbolic_classes={opts.name, chars.name})
    tab = ev.class_value(comp, "_sentinel_col_non_autoinc_lookup")
    ctx.require(isinstance(tab, dict), "_sentinel_col_non_autoinc_lookup is not a table")
    same = sorted(k.short for k in tab if isinstance(k, Sym))
    # of the default kinds that may serve as sentinel, the ones whose schema object can be configured with an increment
    schema = ctx.index.module("sql/schema.py")
    configurable = []
    for kind in same:
        cands = [c for c in ctx.index.all_classes() if c.module is schema and c.name.upper() == kind]
        if cands and ctx.index.resolve_method(cands[0], "_increment_is_negative") is not None:
            configurable.append(kind)
    ctx.require(len(configurable) >= 2, f"expected IDENTITY and SEQUENCE to be configurable incrementing kinds, found {configurable} of {same}")
    SC.sentinel_negative_increment(ctx, configurable)


PERS = "orm/persistence.py"


@R.rule("C12-R6", floor=1, template="T-PATH/T-SIBLING",
        desc="unit of work: an executemany INSERT whose RETURNING rows (inserted_primary_key_rows / "
             "returned_defaults_rows) are paired positionally with the flushed states has been given "
             "sort_by_parameter_order on every path to the execute() call, whichever return_defaults()/returning() "
             "call of the function configured the RETURNING")
def r6(ctx):
    from . import _helpers_str2_e as SE
    from ..cfg import no_exc
    f = ctx.func(f"{PERS}::_emit_insert_statements")
    g = ctx.cfg(f)
    pm = f.module.parents()
    defs = RD.single_defs(f.node)
    ROWS = ("inserted_primary_key_rows", "returned_defaults_rows")
    # consumers: loops / comprehensions that iterate over <result>.inserted_primary_key_rows (zipped with the records)
    consumers = []
    for n in walk_local(f.node):
        iters = []
        if isinstance(n, (ast.For, ast.AsyncFor)):
            iters = [n.iter]
        elif isinstance(n, (ast.ListComp, ast.SetComp, ast.DictComp, ast.GeneratorExp)):
            iters = [gen.iter for gen in n.generators]
        for it in iters:
            recv = {x.value.id for x in ast.walk(it) if isinstance(x, ast.Attribute) and x.attr in ROWS and isinstance(x.value, ast.Name)}
            if recv:
                consumers.append((n, recv))
    ctx.require(consumers, "no loop over <result>.inserted_primary_key_rows / returned_defaults_rows in _emit_insert_statements")
    for cons, recvs in consumers:
        cst = cons if isinstance(cons, ast.stmt) else enclosing_stmt(pm, cons)
        cnodes = g.nodes_for(cst)
        ctx.require(cnodes, "consumer of the RETURNING rows not in the CFG")
        key = f"{f.key}:rows-paired-with-states-are-sorted-by-parameter-order"
        # the execute() call(s) whose result is consumed
        execs = []
        for n in g.nodes:
            st = n.stmt
            if n.kind == "stmt" and isinstance(st, ast.Assign) and any(isinstance(t, ast.Name) and t.id in recvs for t in st.targets):
                v = _strip_cast(st.value)
                if isinstance(v, ast.Call) and isinstance(v.func, ast.Attribute) and v.func.attr == "execute" and v.args:
                    rdefs = [m.id for m in g.nodes if m.kind == "stmt" and m.id != n.id and any(nm in recvs for nm in SE.stored_names(m.stmt))]
                    if g.witness([n.id], cnodes, avoid=rdefs, edge_ok=no_exc) is not None:
                        execs.append((n.id, v))
        ctx.require(execs, f"the execute() call that produces `{sorted(recvs)}` was not found")
        # what is known to hold where the rows are consumed (plain locals / parameters only)
        atoms = RD.atoms_of(RD.guards_of(g, pm, f.node, cst, defs))
        assume = {a: p for a, p in atoms if a.isidentifier()}
        for enode, ecall in execs:
            a0 = ecall.args[0]
            while isinstance(a0, ast.Call) and isinstance(a0.func, ast.Attribute):
                a0 = a0.func.value
            ctx.require(isinstance(a0, ast.Name), f"statement argument of `{unparse(ecall)[:50]}` is not a local")
            S = a0.id
            loop = next((x for x in ancestors(pm, g.node(enode).stmt) if isinstance(x, (ast.For, ast.While, ast.AsyncFor))), None)
            header = set(g.nodes_for(loop)) if loop is not None else set()
            # definitions of the statement local: fresh ones (value does not read S) restart the obligation
            flagged, plain, fresh = [], [], []
            flag_values = set()
            for n in g.nodes:
                st = n.stmt
                if n.kind != "stmt" or not isinstance(st, (ast.Assign, ast.AnnAssign)) or st.value is None:
                    continue
                tg = st.targets if isinstance(st, ast.Assign) else [st.target]
                if not any(isinstance(t, ast.Name) and t.id == S for t in tg):
                    continue
                if not any(isinstance(x, ast.Name) and x.id == S for x in ast.walk(st.value)):
                    fresh.append(n.id)
                    continue
                rcalls = [c for c in calls_in(st.value) if isinstance(c.func, ast.Attribute) and c.func.attr in ("return_defaults", "returning")]
                ok = False
                for c in rcalls:
                    for k in c.keywords:
                        if k.arg == "sort_by_parameter_order":
                            try:
                                if SE.possible_truth(RD.expand(k.value, defs), assume) == {True}:
                                    ok = True
                                    flag_values.add(unparse(k.value))
                            except SE.Unsupported:
                                pass
                if ok:
                    flagged.append(n.id)
                elif rcalls:
                    plain.append(n.id)
                else:
                    # the statement is handed to something else and rebound: RETURNING may be configured there
                    others = [c for c in calls_in(st.value) if not (isinstance(c.func, ast.Attribute) and isinstance(c.func.value, ast.Name) and c.func.value.id == S)]
                    ctx.require(not others or not any(any(isinstance(x, ast.Name) and x.id == S for x in ast.walk(a)) for c in others for a in list(c.args) + [k.value for k in c.keywords]),
                                f"`{unparse(st)[:70]}` passes the statement to a helper: not followed (not understood)")
            ctx.require(flagged or plain, "no return_defaults()/returning() call on the INSERT statement found")
            starts = [s for s in fresh if enode in g.reachable([s], avoid=header, edge_ok=no_exc)] or [g.entry]
            names = set(assume)
            stores_of = [m.id for m in g.nodes if m.kind in ("stmt", "for") and m.stmt is not None and SE.stored_names(m.stmt) & names]

            decided: Dict[int, bool] = {}
            for t in g.nodes:
                if t.kind != "test":
                    continue
                try:
                    vals = SE.possible_truth(RD.expand(t.stmt.test, defs), assume)
                except SE.Unsupported:
                    continue
                if len(vals) != 1:
                    continue
                # the assumption describes the state at the execute(): only tests after the last binding of its names count
                later = g.reachable([t.id], avoid=header, edge_ok=no_exc)
                if any(s in later and SE.stored_names(g.node(s).stmt) & _names_behind(t.stmt.test, defs) for s in stores_of):
                    continue
                decided[t.id] = next(iter(vals))

            def edge_ok(a, b, lab):
                if lab == "exc" or lab == "loop":
                    return False
                if a in decided and lab in ("true", "false"):
                    return (lab == "true") == decided[a]
                return True

            # bindings of an assumed local to the opposite constant (`do_executemany = False`) are not on a path to this execute()
            contra = set()
            for sid in stores_of:
                st = g.node(sid).stmt
                if isinstance(st, ast.Assign) and len(st.targets) == 1 and isinstance(st.targets[0], ast.Name) and st.targets[0].id in assume \
                        and isinstance(st.value, ast.Constant) and bool(st.value.value) != assume[st.targets[0].id]:
                    later = g.reachable([sid], avoid=header, edge_ok=no_exc, include_starts=False)
                    if not any(o in later and st.targets[0].id in SE.stored_names(g.node(o).stmt) for o in stores_of if o != sid):
                        contra.add(sid)
            w = g.must_pass(starts, [enode], set(flagged) | contra, edge_ok=edge_ok)
            skipped = [f"L{g.node(p_).stmt.lineno} `{unparse(g.node(p_).stmt.value)[:70]}`" for p_ in plain]
            ctx.check(w is None, key,
                      f"the executemany INSERT `{unparse(ecall)[:60]}` can be reached without `{S}` having been given "
                      f"sort_by_parameter_order={'/'.join(sorted(flag_values)) or 'True'}"
                      + (f" (RETURNING is configured without it by {skipped})" if skipped else "")
                      + f": its rows are then paired positionally ({'/'.join(ROWS)}) with the states, and a backend that "
                      "returns them in another order gives every object another row's primary key / defaults",
                      f"{len(flagged)} flagged return_defaults()/returning() call(s) cover every path to the execute()",
                      f"{f.module.path}:{ecall.lineno}", w)


def _names_behind(test, defs):
    """the locals a test reads, boolean locals / aliases expanded"""
    t = RD.expand(test, defs)
    return {x.id for x in ast.walk(t) if isinstance(x, ast.Name)} | {x.id for x in ast.walk(test) if isinstance(x, ast.Name)}


# ---------------------------------------------------------------------- self-test battery
R.mutant("compiled-slice-off-by-one", COMP,
         sub("            compiled_batch = compiled_batches[0:batch_size]\n", "            compiled_batch = compiled_batches[0 : batch_size + 1]\n"), "C12-R1")
R.mutant("consume-different-bound", COMP,
         sub("            batches[0:batch_size] = []\n", "            batches[0 : batch_size - 1] = []\n"), "C12-R1")
R.mutant("compiled-not-consumed", COMP,
         sub("            compiled_batches[0:batch_size] = []\n", ""), "C12-R1")
R.mutant("counter-not-advanced", COMP,
         sub("                False,\n            )\n            batchnum += 1\n", "                False,\n            )\n"), "C12-R1")
R.mutant("batch-field-swapped", COMP,
         sub("                    [_sentinel_from_params(cb) for cb in compiled_batch]\n", "                    [_sentinel_from_params(cb) for cb in batch]\n"), "C12-R1")
R.mutant("total-batches-floor", COMP,
         sub("        total_batches = lenparams // batch_size + (\n            1 if lenparams % batch_size else 0\n        )", "        total_batches = lenparams // batch_size + 1"), "C12-R1")
R.mutant("row-at-a-time-misaligned", COMP,
         sub("                    zip(parameters, compiled_parameters),\n", "                    zip(parameters, reversed(compiled_parameters)),\n"), "C12-R1")
R.mutant("row-at-a-time-sentinel-from-param", COMP,
         sub("                        [_sentinel_from_params(compiled_param)]\n", "                        [_sentinel_from_params(param)]\n"), "C12-R1")
R.mutant("page-size-shrunk-late", COMP,
         sub("        insert_crud_params = imv.insert_crud_params\n        assert insert_crud_params is not None\n",
             "        insert_crud_params = imv.insert_crud_params\n        assert insert_crud_params is not None\n        batch_size = max(1, batch_size - 1)\n"), "C12-R1")
R.mutant("sentinel-branch-returns-raw-rows", DEF,
         sub("                    result.extend(ordered_rows)\n", "                    result.extend(rows)\n"), "C12-R2")
R.mutant("cardinality-check-removed", DEF,
         sub("                    if len(rows_by_sentinel) != len(imv_batch.batch):\n", "                    if False:\n"), "C12-R2")
R.mutant("cardinality-check-after-lookup", DEF,
         sub("                    if len(rows_by_sentinel) != len(imv_batch.batch):\n", "                    if len(rows_by_sentinel) > len(imv_batch.batch):\n"), "C12-R2")
R.mutant("lookup-in-server-order", DEF,
         sub("                            for sentinel_keys in imv_batch.sentinel_values\n", "                            for sentinel_keys in rows_by_sentinel\n"), "C12-R2")
R.mutant("implicit-sentinel-sorted-on-first-column", DEF,
         sub("                            sorted(rows, key=operator.itemgetter(-1))\n", "                            sorted(rows, key=operator.itemgetter(0))\n"), "C12-R2")
R.mutant("keyerror-not-translated", DEF,
         sub("                    except KeyError as ke:\n", "                    except IndexError as ke:\n"), "C12-R2")
R.mutant("sort-flag-without-returning", DEF,
         sub("        else:\n            sort_by_parameter_order = False\n            result = None\n", "        else:\n            sort_by_parameter_order = imv.sort_by_parameter_order\n            result = None\n"), "C12-R2")
R.mutant("sequence-matched-to-identity", COMP,
         sub("            _SentinelDefaultCharacterization.SEQUENCE: (\n                InsertmanyvaluesSentinelOpts.SEQUENCE\n            ),",
             "            _SentinelDefaultCharacterization.SEQUENCE: (\n                InsertmanyvaluesSentinelOpts.IDENTITY\n            ),"), "C12-R3")
R.mutant("serverside-offered-as-sentinel", COMP,
         sub("            _SentinelDefaultCharacterization.NONE: (\n                InsertmanyvaluesSentinelOpts._SUPPORTED_OR_NOT\n            ),",
             "            _SentinelDefaultCharacterization.NONE: (\n                InsertmanyvaluesSentinelOpts._SUPPORTED_OR_NOT\n            ),\n            _SentinelDefaultCharacterization.SERVERSIDE: (\n                InsertmanyvaluesSentinelOpts._SUPPORTED_OR_NOT\n            ),"), "C12-R3")
R.mutant("autoinc-table-extra-delta", COMP,
         sub("            _SentinelDefaultCharacterization.NONE: (\n                InsertmanyvaluesSentinelOpts.AUTOINCREMENT\n            ),\n        }",
             "            _SentinelDefaultCharacterization.NONE: (\n                InsertmanyvaluesSentinelOpts.AUTOINCREMENT\n            ),\n            _SentinelDefaultCharacterization.CLIENTSIDE: (\n                InsertmanyvaluesSentinelOpts.AUTOINCREMENT\n            ),\n        }"), "C12-R3")
R.mutant("bitmask-default-not-zero", COMP,
         sub("            bitmask = self._sentinel_col_non_autoinc_lookup.get(\n                sentinel_characteristics.default_characterization, 0\n            )",
             "            bitmask = self._sentinel_col_non_autoinc_lookup.get(\n                sentinel_characteristics.default_characterization, 1\n            )"), "C12-R3")
# benign
R.mutant("benign-rename-slices", COMP,
         sub("            batch = batches[0:batch_size]\n            compiled_batch = compiled_batches[0:batch_size]\n\n            batches[0:batch_size] = []\n            compiled_batches[0:batch_size] = []\n",
             "            batch = batches[:batch_size]\n            compiled_batch = compiled_batches[:batch_size]\n            compiled_batches[:batch_size] = []\n            batches[:batch_size] = []\n"), None)
R.mutant("benign-total-batches-ceil-idiom", COMP,
         sub("        total_batches = lenparams // batch_size + (\n            1 if lenparams % batch_size else 0\n        )", "        total_batches = -(-lenparams // batch_size)"), None)
R.mutant("benign-dialect-logging", DEF,
         sub("                    result.extend(ordered_rows)\n", "                    _n = len(ordered_rows)\n                    result.extend(ordered_rows)\n"), None)
R.mutant("benign-added-table-row", COMP,
         sub("    _sentinel_col_autoinc_lookup = _sentinel_col_non_autoinc_lookup.union(", "    _sentinel_unused_marker = 0\n    _sentinel_col_autoinc_lookup = _sentinel_col_non_autoinc_lookup.union("), None)
# ---- R2 addition ----
R.mutant("implicit-sentinel-sorted-descending", DEF,
         sub("                            sorted(rows, key=operator.itemgetter(-1))\n", "                            sorted(rows, key=operator.itemgetter(-1), reverse=True)\n"), "C12-R2")
# ---- R4 (upsert chain: detector, batching guard, ordering, consumer) ----
_DETECT = (
    "        # Detect parametrized bindparams in upsert SET clause for issue #13130\n"
    "        if (\n"
    "            is_upsert_set\n"
    "            and bindparam.value is None\n"
    "            and bindparam.callable is None\n"
    "            and self._insertmanyvalues is not None\n"
    "        ):\n"
    "            self._insertmanyvalues = self._insertmanyvalues._replace(\n"
    "                has_upsert_bound_parameters=True\n"
    "            )\n"
    "\n"
)
R.mutant("r4-detection-moved-below-early-returns", COMP,
         chain(sub(_DETECT + "        if not skip_bind_expression:\n", "        if not skip_bind_expression:\n"),
               sub("        name = self._truncate_bindparam(bindparam)\n\n        if name in self.binds:\n",
                   _DETECT + "        name = self._truncate_bindparam(bindparam)\n\n        if name in self.binds:\n")), "C12-R4")
R.mutant("r4-detection-only-for-required-parameters", COMP,
         sub("            and bindparam.value is None\n            and bindparam.callable is None\n            and self._insertmanyvalues is not None\n",
             "            and bindparam.required\n            and self._insertmanyvalues is not None\n"), "C12-R4")
R.mutant("r4-upsert-batched-without-returning", "sql/crud.py",
         sub("                    dialect.use_insertmanyvalues_wo_returning\n", "                    dialect.use_insertmanyvalues_wo_returning or True\n"), "C12-R4")
R.mutant("r4-post-values-clause-rendered-before-imv-exists", COMP,
         chain(sub("        if insert_stmt.select is not None:\n            # placed here by crud.py\n",
                   "        post_values_text = (\n            self.process(insert_stmt._post_values_clause, **kw)\n            if insert_stmt._post_values_clause is not None\n            else None\n        )\n"
                   "        if insert_stmt.select is not None:\n            # placed here by crud.py\n"),
               sub("            post_values_clause = self.process(\n                insert_stmt._post_values_clause, **kw\n            )\n",
                   "            post_values_clause = post_values_text\n")), "C12-R4")
R.mutant("benign-r4-consumer-conjuncts-reordered", COMP,
         sub("        elif imv.has_upsert_bound_parameters and self._result_columns:\n",
             "        elif self._result_columns and imv.has_upsert_bound_parameters:\n"), None)
R.mutant("benign-r4-imv-normalised-with-replace-after-post-values", COMP,
         sub("        if returning_clause and not self.returning_precedes_values:\n            text += \" \" + returning_clause\n",
             "        if returning_clause and not self.returning_precedes_values:\n            text += \" \" + returning_clause\n"
             "        if self._insertmanyvalues is not None:\n            self._insertmanyvalues = self._insertmanyvalues._replace(\n                num_positional_params_counted=counted_bindparam\n            )\n"), None)
# ---- R5 (negative increment never an implicit sentinel) ----
R.mutant("r5-negative-identity-kept-as-implicit-sentinel", "sql/schema.py",
         sub("                if the_sentinel_zero.identity._increment_is_negative:\n                    if sentinel_is_explicit:\n                        raise exc.InvalidRequestError(\n                            \"Can't use IDENTITY default with negative \"\n                            \"increment as an explicit sentinel column\"\n                        )\n                    else:\n                        if sentinel_is_autoinc:\n                            autoinc_col = None\n                            sentinel_is_autoinc = False\n                        the_sentinel = None\n                else:\n                    default_characterization = (\n                        _SentinelDefaultCharacterization.IDENTITY\n                    )\n",
             "                if (\n                    sentinel_is_explicit\n                    and the_sentinel_zero.identity._increment_is_negative\n                ):\n                    raise exc.InvalidRequestError(\n                        \"Can't use IDENTITY default with negative \"\n                        \"increment as an explicit sentinel column\"\n                    )\n                default_characterization = (\n                    _SentinelDefaultCharacterization.IDENTITY\n                )\n"), "C12-R5")
R.mutant("r5-negative-sequence-candidate-not-dropped", "sql/schema.py",
         sub("                            if sentinel_is_autoinc:\n                                autoinc_col = None\n                                sentinel_is_autoinc = False\n                            the_sentinel = None\n\n                    default_characterization = (\n                        _SentinelDefaultCharacterization.SEQUENCE\n",
             "                            if sentinel_is_autoinc:\n                                autoinc_col = None\n                                sentinel_is_autoinc = False\n\n                    default_characterization = (\n                        _SentinelDefaultCharacterization.SEQUENCE\n"), "C12-R5")
R.mutant("r5-identity-increment-not-tested", "sql/schema.py",
         sub("                if the_sentinel_zero.identity._increment_is_negative:\n", "                if the_sentinel_zero.identity is None:\n"), "C12-R5")
R.mutant("benign-r5-negative-test-in-a-local", "sql/schema.py",
         sub("                if the_sentinel_zero.identity._increment_is_negative:\n",
             "                counts_down = the_sentinel_zero.identity._increment_is_negative\n                if counts_down:\n"), None)
R.mutant("benign-r5-explicit-test-first", "sql/schema.py",
         sub("                if the_sentinel_zero.identity._increment_is_negative:\n                    if sentinel_is_explicit:\n                        raise exc.InvalidRequestError(\n                            \"Can't use IDENTITY default with negative \"\n                            \"increment as an explicit sentinel column\"\n                        )\n                    else:\n",
             "                if the_sentinel_zero.identity._increment_is_negative:\n                    if not sentinel_is_explicit:\n                        pass\n                    else:\n                        raise exc.InvalidRequestError(\n                            \"Can't use IDENTITY default with negative \"\n                            \"increment as an explicit sentinel column\"\n                        )\n                    if True:\n"), None)

# ---- rob-D2: benign refactoring families (stored diffs rfD_10 / rfD_11 and relatives) + the breaking twins that the
# ---- generalised recognisers must still catch
_YIELD_SENT = (
    "                batch,\n"
    "                (\n"
    "                    [_sentinel_from_params(cb) for cb in compiled_batch]\n"
    "                    if _sentinel_from_params\n"
    "                    else []\n"
    "                ),\n"
)
_YIELD_HEAD = "            yield _InsertManyValuesBatch(\n                replaced_statement,\n"
R.mutant("benign-rob-sentinel-list-in-a-local-before-the-yield", COMP,
         chain(sub(_YIELD_SENT, "                batch,\n                batch_sentinel_values,\n"),
               sub(_YIELD_HEAD,
                   "            batch_sentinel_values: List[Any]\n            if _sentinel_from_params:\n"
                   "                batch_sentinel_values = [\n                    _sentinel_from_params(cb) for cb in compiled_batch\n                ]\n"
                   "            else:\n                batch_sentinel_values = []\n\n" + _YIELD_HEAD)), None)
R.mutant("rob-sentinel-local-computed-from-the-parameter-slice", COMP,
         chain(sub(_YIELD_SENT, "                batch,\n                batch_sentinel_values,\n"),
               sub(_YIELD_HEAD,
                   "            if _sentinel_from_params:\n"
                   "                batch_sentinel_values = [\n                    _sentinel_from_params(cb) for cb in batch\n                ]\n"
                   "            else:\n                batch_sentinel_values = []\n\n" + _YIELD_HEAD)), "C12-R1")
R.mutant("benign-rob-batch-object-bound-before-the-yield", COMP,
         chain(sub(_YIELD_HEAD, "            this_batch = _InsertManyValuesBatch(\n                replaced_statement,\n"),
               sub("                sort_by_parameter_order,\n                False,\n            )\n            batchnum += 1\n",
                   "                sort_by_parameter_order,\n                False,\n            )\n            yield this_batch\n            batchnum += 1\n")), None)
R.mutant("benign-rob-slices-by-tuple-assignment-and-del", COMP,
         sub("            batch = batches[0:batch_size]\n            compiled_batch = compiled_batches[0:batch_size]\n\n            batches[0:batch_size] = []\n            compiled_batches[0:batch_size] = []\n",
             "            batch, compiled_batch = (\n                batches[0:batch_size],\n                compiled_batches[0:batch_size],\n            )\n            del batches[0:batch_size], compiled_batches[0:batch_size]\n"), None)
R.mutant("rob-tuple-assignment-slices-with-different-bounds", COMP,
         sub("            batch = batches[0:batch_size]\n            compiled_batch = compiled_batches[0:batch_size]\n\n",
             "            batch, compiled_batch = (\n                batches[0:batch_size],\n                compiled_batches[0 : batch_size - 1],\n            )\n\n"), "C12-R1")
_TB = "        total_batches = lenparams // batch_size + (\n            1 if lenparams % batch_size else 0\n        )"
R.mutant("benign-rob-total-batches-divmod-and-correction", COMP,
         sub(_TB, "        total_batches, _partial = divmod(lenparams, batch_size)\n        if _partial:\n            total_batches += 1"), None)
R.mutant("rob-total-batches-divmod-without-correction", COMP,
         sub(_TB, "        total_batches, _partial = divmod(lenparams, batch_size)"), "C12-R1")
R.mutant("benign-rob-total-batches-from-helper-locals", COMP,
         sub(_TB, "        full_batches = lenparams // batch_size\n        has_partial = lenparams % batch_size != 0\n        total_batches = full_batches + (1 if has_partial else 0)"), None)
R.mutant("benign-rob-batch-loop-tests-len", COMP, sub("        while batches:\n", "        while len(batches) > 0:\n"), None)
R.mutant("benign-rob-row-at-a-time-zero-based-enumerate", COMP,
         chain(sub("                    zip(parameters, compiled_parameters),\n                ),\n                1,\n            ):\n",
                   "                    zip(parameters, compiled_parameters),\n                ),\n            ):\n"),
               sub("                    1,\n                    batchnum,\n                    lenparams,\n", "                    1,\n                    batchnum + 1,\n                    lenparams,\n")), None)
R.mutant("rob-row-at-a-time-zero-based-numbering", COMP,
         sub("                    zip(parameters, compiled_parameters),\n                ),\n                1,\n            ):\n",
             "                    zip(parameters, compiled_parameters),\n                ),\n            ):\n"), "C12-R1")
# dialect level
_LOOKUP_COMP = (
    "                    try:\n"
    "                        ordered_rows = [\n"
    "                            rows_by_sentinel[sentinel_keys]\n"
    "                            for sentinel_keys in imv_batch.sentinel_values\n"
    "                        ]\n"
)
_LOOKUP_LOOP = (
    "                    try:\n"
    "                        for sentinel_keys in imv_batch.sentinel_values:\n"
    "                            ordered_rows.append(\n"
    "                                rows_by_sentinel[sentinel_keys]\n"
    "                            )\n"
)
R.mutant("benign-rob-lookup-as-append-loop", DEF,
         sub(_LOOKUP_COMP, "                    ordered_rows = []\n" + _LOOKUP_LOOP), None)
R.mutant("benign-rob-lookup-as-append-loop-bound-method", DEF,
         sub(_LOOKUP_COMP, "                    ordered_rows = []\n                    add_row = ordered_rows.append\n"
             "                    try:\n                        for sentinel_keys in imv_batch.sentinel_values:\n"
             "                            add_row(rows_by_sentinel[sentinel_keys])\n"), None)
R.mutant("rob-lookup-loop-list-not-emptied-per-batch", DEF,
         chain(sub(_LOOKUP_COMP, _LOOKUP_LOOP),
               sub("        for imv_batch in compiled._deliver_insertmanyvalues_batches(\n",
                   "        ordered_rows: List[Any] = []\n        for imv_batch in compiled._deliver_insertmanyvalues_batches(\n")), "C12-R2")
R.mutant("rob-lookup-loop-in-server-order", DEF,
         sub(_LOOKUP_COMP, "                    ordered_rows = []\n" + _LOOKUP_LOOP.replace("in imv_batch.sentinel_values:", "in rows_by_sentinel:")), "C12-R2")
R.mutant("rob-lookup-loop-outside-the-keyerror-handler", DEF,
         sub(_LOOKUP_COMP, "                    ordered_rows = []\n                    for sentinel_keys in imv_batch.sentinel_values:\n"
             "                        ordered_rows.append(rows_by_sentinel[sentinel_keys])\n                    try:\n                        pass\n"), "C12-R2")
R.mutant("benign-rob-sentinel-test-inverted-with-early-continue", DEF,
         RD.ast_edit("DefaultDialect._deliver_insertmanyvalues_batches", RD.t_guard_continue("num_sentinel_columns")), None)
R.mutant("benign-rob-sentinel-test-as-nested-ifs", DEF,
         RD.ast_edit("DefaultDialect._deliver_insertmanyvalues_batches", RD.t_split_and("num_sentinel_columns")), None)
R.mutant("benign-rob-sentinel-test-in-a-boolean-local", DEF,
         sub("                if imv.num_sentinel_columns and not imv_batch.is_downgraded:\n",
             "                match_by_sentinel = (\n                    imv.num_sentinel_columns and not imv_batch.is_downgraded\n                )\n                if match_by_sentinel:\n"), None)
R.mutant("benign-rob-aliases-for-batch-size-and-sentinel-values", DEF,
         chain(sub("                    if len(rows_by_sentinel) != len(imv_batch.batch):\n",
                   "                    expected_rows = len(imv_batch.batch)\n                    if len(rows_by_sentinel) != expected_rows:\n"),
               sub("                            for sentinel_keys in imv_batch.sentinel_values\n",
                   "                            for sentinel_keys in wanted_keys\n"),
               sub("                    try:\n                        ordered_rows = [\n",
                   "                    wanted_keys = imv_batch.sentinel_values\n                    try:\n                        ordered_rows = [\n")), None)
R.mutant("benign-rob-sorted-rows-in-a-local-lambda-key", DEF,
         sub("                        result.extend(\n                            sorted(rows, key=operator.itemgetter(-1))\n                        )\n",
             "                        in_order = sorted(rows, key=lambda row: row[-1])\n                        result.extend(in_order)\n"), None)
R.mutant("rob-raw-rows-added-before-the-sentinel-test", DEF,
         sub("                assert result is not None\n\n                if imv.num_sentinel_columns and not imv_batch.is_downgraded:\n",
             "                assert result is not None\n                if not imv.implicit_sentinel:\n                    result.extend(rows)\n\n"
             "                if imv.num_sentinel_columns and not imv_batch.is_downgraded:\n"), "C12-R2")
R.mutant("rob-inverted-sentinel-test-delivers-raw-rows-on-the-sentinel-side", DEF,
         sub("                if imv.num_sentinel_columns and not imv_batch.is_downgraded:\n",
             "                if not imv.num_sentinel_columns and not imv_batch.is_downgraded:\n"), "C12-R2")
R.mutant("benign-rob-row-at-a-time-early-return-turned-into-if-else", COMP,
         RD.ast_edit("SQLCompiler._deliver_insertmanyvalues_batches", RD.t_early_return_to_else("use_row_at_a_time")), None)
_DOEXEC = "    def do_executemany(self, cursor, statement, parameters, context=None):\n"
_CALL_HELPER = ("                    try:\n                        ordered_rows = self._rows_in_parameter_order(\n"
                "                            rows_by_sentinel, imv_batch\n                        )\n")
R.mutant("benign-rob-lookup-extracted-into-a-method", DEF,
         chain(sub(_LOOKUP_COMP, _CALL_HELPER),
               sub(_DOEXEC, "    def _rows_in_parameter_order(self, by_key, batch):\n"
                            "        return [by_key[k] for k in batch.sentinel_values]\n\n" + _DOEXEC)), None)
R.mutant("benign-rob-lookup-extracted-into-a-method-with-loop", DEF,
         chain(sub(_LOOKUP_COMP, "                    try:\n                        ordered_rows = self._rows_in_parameter_order(\n"
                                 "                            rows_by_sentinel, imv_batch.sentinel_values\n                        )\n"),
               sub(_DOEXEC, "    def _rows_in_parameter_order(self, by_key, wanted):\n        found = []\n        for k in wanted:\n"
                            "            found.append(by_key[k])\n        return found\n\n" + _DOEXEC)), None)
R.mutant("rob-extracted-lookup-in-server-order", DEF,
         chain(sub(_LOOKUP_COMP, _CALL_HELPER),
               sub(_DOEXEC, "    def _rows_in_parameter_order(self, by_key, batch):\n"
                            "        return [by_key[k] for k in by_key]\n\n" + _DOEXEC)), "C12-R2")
R.mutant("rob-extracted-lookup-called-outside-the-keyerror-handler", DEF,
         chain(sub(_LOOKUP_COMP, "                    ordered_rows = self._rows_in_parameter_order(\n"
                                 "                        rows_by_sentinel, imv_batch\n                    )\n                    try:\n                        pass\n"),
               sub(_DOEXEC, "    def _rows_in_parameter_order(self, by_key, batch):\n"
                            "        return [by_key[k] for k in batch.sentinel_values]\n\n" + _DOEXEC)), "C12-R2")
R.mutant("rob-extracted-lookup-with-the-wrong-table", DEF,
         chain(sub(_LOOKUP_COMP, "                    try:\n                        ordered_rows = self._rows_in_parameter_order(\n"
                                 "                            dict(enumerate(rows)), imv_batch\n                        )\n"),
               sub(_DOEXEC, "    def _rows_in_parameter_order(self, by_key, batch):\n"
                            "        return [by_key[k] for k in batch.sentinel_values]\n\n" + _DOEXEC)), "C12-R2")

# ---- str2-e (round-2 seeds C12_3 / C12_4): the batch bookkeeping judged by executing its program slice (R1, any loop shape),
# ---- sort_by_parameter_order on every path to the unit of work's executemany INSERT (R6)
_WORK_COPIES = ('        batches = cast("List[Sequence[Any]]", list(parameters))\n        compiled_batches = cast(\n'
                '            "List[Sequence[Any]]", list(compiled_parameters)\n        )\n')
_NO_COPIES = ('        batches = cast("Sequence[Sequence[Any]]", parameters)\n        compiled_batches = cast(\n'
              '            "Sequence[Sequence[Any]]", compiled_parameters\n        )\n')
_WHILE_HEAD = ("        while batches:\n            batch = batches[0:batch_size]\n            compiled_batch = compiled_batches[0:batch_size]\n\n"
               "            batches[0:batch_size] = []\n            compiled_batches[0:batch_size] = []\n\n"
               "            if batches:\n                current_batch_size = batch_size\n            else:\n                current_batch_size = len(batch)\n")
_FOR_HEAD = ("        for batchnum in range(1, total_batches + 1):\n            offset = (batchnum - 1) * batch_size\n"
             "            batch = batches[offset : offset + batch_size]\n            compiled_batch = compiled_batches[offset : offset + batch_size]\n"
             "            current_batch_size = len(batch)\n")
_COUNTER_INIT = "        batchnum = 1\n" + _TB + "\n"
_COUNTER_INC = "                False,\n            )\n            batchnum += 1\n"
_LENPARAMS = "        lenparams = len(parameters)\n"


def _offset_loop(head=_FOR_HEAD, init=_TB + "\n", hoisted=""):
    return chain(sub(_WORK_COPIES, _NO_COPIES), sub(_COUNTER_INIT, init), sub(_WHILE_HEAD, head),
                 sub(_COUNTER_INC, "                False,\n            )\n"), sub(_LENPARAMS, _LENPARAMS + hoisted))


R.mutant("benign-str2-offset-slices-in-a-for-loop-over-range", COMP, _offset_loop(), None)
# essence of seed C12_3: total_batches (now the loop bound) hoisted above the insertmanyvalues_max_parameters reduction
R.mutant("str2-offset-loop-bound-computed-before-page-size-reduction", COMP, _offset_loop(init="", hoisted=_TB + "\n"), "C12-R1")
R.mutant("str2-offset-loop-drops-the-partial-batch", COMP,
         _offset_loop(head=_FOR_HEAD.replace("range(1, total_batches + 1)", "range(1, lenparams // batch_size + 1)")), "C12-R1")
R.mutant("str2-offset-loop-compiled-slice-shifted", COMP,
         _offset_loop(head=_FOR_HEAD.replace("compiled_batches[offset : offset + batch_size]", "compiled_batches[offset + 1 : offset + 1 + batch_size]")), "C12-R1")
R.mutant("str2-offset-loop-overlapping-pages", COMP,
         _offset_loop(head=_FOR_HEAD.replace("offset = (batchnum - 1) * batch_size", "offset = (batchnum - 1) * (batch_size - 1)")), "C12-R1")
R.mutant("benign-str2-while-loop-with-a-cursor", COMP, chain(
    sub(_WORK_COPIES, _NO_COPIES),
    sub(_WHILE_HEAD, "        done = 0\n        while done < lenparams:\n            batch = batches[done : done + batch_size]\n"
                     "            compiled_batch = compiled_batches[done : done + batch_size]\n            done += len(batch)\n            current_batch_size = len(batch)\n")), None)
R.mutant("str2-while-loop-with-a-cursor-advanced-by-the-page-size-minus-one", COMP, chain(
    sub(_WORK_COPIES, _NO_COPIES),
    sub(_WHILE_HEAD, "        done = 0\n        while done < lenparams:\n            batch = batches[done : done + batch_size]\n"
                     "            compiled_batch = compiled_batches[done : done + batch_size]\n            done += max(1, batch_size - 1)\n            current_batch_size = len(batch)\n")), "C12-R1")
R.mutant("str2-total-batches-hoisted-above-page-size-reduction", COMP,
         chain(sub(_COUNTER_INIT, "        batchnum = 1\n"), sub(_LENPARAMS, _LENPARAMS + _TB + "\n")), "C12-R1")
# R6
_VERSION_RD = ("                statement = statement.return_defaults(\n                    mapper.version_id_col,\n"
               "                    sort_by_parameter_order=bookkeeping,\n                )\n")
_PK_RD = ("                statement = statement.return_defaults(\n"
          "                    *table.primary_key, sort_by_parameter_order=bookkeeping\n                )\n")
R.mutant("str2-version-id-return-defaults-without-sort-flag", PERS,   # essence of seed C12_4
         sub(_VERSION_RD, "                statement = statement.return_defaults(mapper.version_id_col)\n"), "C12-R6")
R.mutant("str2-primary-key-return-defaults-without-sort-flag", PERS,
         sub(_PK_RD, "                statement = statement.return_defaults(*table.primary_key)\n"), "C12-R6")
R.mutant("str2-version-id-return-defaults-sort-flag-false", PERS,
         sub(_VERSION_RD, "                statement = statement.return_defaults(\n                    mapper.version_id_col,\n"
                          "                    sort_by_parameter_order=False,\n                )\n"), "C12-R6")
R.mutant("str2-primary-key-returning-only-when-no-server-defaults", PERS,
         sub("            elif do_executemany:\n                statement = statement.return_defaults(\n                    *table.primary_key, sort_by_parameter_order=bookkeeping\n",
             "            elif do_executemany and has_all_defaults:\n                statement = statement.return_defaults(\n                    *table.primary_key, sort_by_parameter_order=bookkeeping\n"), "C12-R6")
R.mutant("benign-str2-sort-flag-through-a-local", PERS, chain(
    sub("            records = list(records)\n\n            if returning_is_required_anyway or (\n",
        "            records = list(records)\n            in_parameter_order = bookkeeping\n\n            if returning_is_required_anyway or (\n"),
    sub(_VERSION_RD, "                statement = statement.return_defaults(\n                    mapper.version_id_col,\n"
                     "                    sort_by_parameter_order=in_parameter_order,\n                )\n"),
    sub(_PK_RD, "                statement = statement.return_defaults(\n                    *table.primary_key, sort_by_parameter_order=in_parameter_order\n                )\n")), None)
R.mutant("benign-str2-version-test-inverted", PERS,
         sub("            if mapper.version_id_col is not None:\n" + _VERSION_RD + "            elif do_executemany:\n" + _PK_RD,
             "            if mapper.version_id_col is None:\n                if do_executemany:\n"
             + "".join("    " + l + "\n" for l in _PK_RD.splitlines())
             + "            else:\n" + _VERSION_RD), None)
R.mutant("benign-str2-version-call-drops-flag-after-unconditional-pk-call", PERS,
         sub("            if mapper.version_id_col is not None:\n" + _VERSION_RD + "            elif do_executemany:\n" + _PK_RD,
             "            if do_executemany:\n" + _PK_RD + "            if mapper.version_id_col is not None:\n"
             "                statement = statement.return_defaults(mapper.version_id_col)\n"), None)


def _own_page(text):
    import re
    return re.sub(r"\bbatch_size\b", "rows_per_page", text)


R.mutant("benign-str2-page-size-in-a-new-local", COMP, chain(
    sub(_WHILE_HEAD, _own_page(_WHILE_HEAD)),
    sub(_COUNTER_INIT, "        rows_per_page = batch_size\n" + _own_page(_COUNTER_INIT))), None)
R.mutant("benign-str2-offset-loop-page-size-in-a-new-local", COMP,
         _offset_loop(head=_own_page(_FOR_HEAD), init="        rows_per_page = batch_size\n" + _own_page(_TB) + "\n"), None)
