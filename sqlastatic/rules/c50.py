"""C50 -- Ordering lists and association proxies behave as their collection types (mutator cover + delegation)."""

from __future__ import annotations

import ast
import collections.abc as _abc

from ..astutil import call_name, calls_in, dotted, unparse, walk_local
from ..cfg import no_exc
from ..oracles import load, python_mutators
from ..report import Registry, sub
from .c38 import _decorators as _coll_decorators, _delegations, _interfaces as _coll_interfaces

R = Registry(
    "C50",
    title="Ordering lists and association proxies behave as their collection types",
    decides=(
        "every list mutator either is overridden in OrderingList and (re)numbers positions on every normal "
        "path around the underlying mutation, or reaches an overridden method through the instrumented "
        "list wrapper, or cannot disturb positions; every mutator of list/set/dict on _AssociationList/"
        "_AssociationSet/_AssociationDict creates intermediaries through _create()/creator and inserts/removes "
        "them through the underlying collection self.col (so ORM events fire), or delegates to a sibling that "
        "does, or is loudly unavailable; in-place operators return self."
    ),
    not_decided=(
        "persisted rows; index arithmetic of slice assignment (value level); the ordering function itself; "
        "reorder_on_append=False semantics for pre-numbered entities; scalar association proxies."
    ),
)

OL = "ext/orderinglist.py"
AP = "ext/associationproxy.py"
ORDER_CALLS = ("_reorder", "reorder", "_order_entity")

#: list mutators that need no renumbering in OrderingList -- {mutator: reason}
OL_EXEMPT = {
    "clear": "empties the list: no member is left whose position could be stale",
    "__imul__": "duplicates every member (n>1) or empties the list (n<=0): position == index is unsatisfiable for an "
                "entity that occurs twice; the missing collection events of list.__imul__ are C38-R1's finding",
}


def _super_calls(fn, names):
    out = []
    for c in calls_in(fn):
        f = c.func
        if isinstance(f, ast.Attribute) and f.attr in names:
            if isinstance(f.value, ast.Call) and dotted(f.value.func) == "super":
                out.append(c)
            elif isinstance(f.value, ast.Name) and f.value.id == "list" and c.args and unparse(c.args[0]) == "self":
                out.append(c)
    return out


@R.rule("C50-R1", floor=12, template="T-EXHAUST/T-PATH",
        desc="every list mutator is overridden in OrderingList with position (re)numbering on every normal path "
             "around the underlying mutation, or funnels into an overridden method through the instrumented "
             "wrapper, or is exempt with a reason")
def r1(ctx):
    cls = ctx.index.cls(f"{OL}::OrderingList")
    members, order_only = python_mutators("list")
    muts = members + order_only
    facs = _coll_interfaces(ctx)
    decs = _coll_decorators(ctx, facs["list"])
    for m in muts:
        key = f"{OL}::OrderingList.{m}"
        f = cls.methods.get(m)
        if f is not None and not f.type_only:
            g = ctx.cfg(f)
            order_nodes = [i for n in ORDER_CALLS for i in g.find_calls(f"self.{n}")]
            sup = _super_calls(f.node, muts)
            dele = [dn for dn, _ in _delegations(f.node) if dn in muts and dn in cls.methods]
            probs = []
            if not sup and not dele:
                probs.append("override neither performs the underlying list mutation nor delegates to an overridden mutator")
            # the only tolerated way to skip renumbering: the list is no longer the owner's collection
            owner_tests = {n.id for n in g.nodes if n.kind == "test" and "_referenced_by_owner" in unparse(n.stmt.test)}

            def ok_edge(a, b, l):
                return l != "exc" and not (a in owner_tests and l == "false")
            for c in sup:
                for nid in g.nodes_containing(c):
                    after = g.must_pass([nid], [g.exit], order_nodes, edge_ok=ok_edge)
                    before = g.always_preceded(nid, order_nodes, edge_ok=no_exc)
                    if after is not None and before is not None:
                        probs.append("a normal path performs the list mutation without (re)numbering positions: "
                                     + " -> ".join(after[-3:]))
            how = "renumbers" + (" (skipped only when not referenced by owner)" if owner_tests else "") if sup else \
                  "delegates to " + ",".join(sorted(set(dele)))
            ctx.check(not probs, key, "; ".join(probs), how, f.loc)
            continue
        if m in OL_EXEMPT:
            ctx.ok(key, "exempt: " + OL_EXEMPT[m], nontrivial=False)
            continue
        if m in decs:
            d, w, fnparam = decs[m]
            under = [c for c in calls_in(w) if call_name(c) == fnparam]
            dele = [dn for dn, _ in _delegations(w) if dn in muts]
            if not under and dele and all(dn in cls.methods for dn in dele):
                ctx.ok(key, f"instrumented wrapper funnels into overridden {','.join(sorted(set(dele)))}")
                continue
            ctx.violation(key, f"list.{m} is not overridden and its instrumented wrapper calls the raw list method: "
                               f"positions are not renumbered", cls.loc)
            continue
        what = "reorders the list" if m in order_only else "changes the list"
        ctx.violation(key, f"list.{m} {what} but OrderingList does not override it (and it is not instrumented): afterwards "
                           f"position != index, nothing is flushed and the old order comes back on reload", cls.loc)


APC = {"list": ("_AssociationList", "MutableSequence"), "set": ("_AssociationSet", "MutableSet"),
       "dict": ("_AssociationDict", "MutableMapping")}
COL_ADD = {"append", "add", "insert", "extend", "update", "setdefault"}
COL_REMOVE = {"pop", "remove", "discard", "clear", "popitem"}


def _col_aliases(fn):
    al = {"self.col"}
    for n in walk_local(fn):
        if isinstance(n, ast.Assign) and unparse(n.value) == "self.col":
            for t in n.targets:
                if isinstance(t, ast.Name):
                    al.add(t.id)
    return al


def _is_col(e, al):
    return (dotted(e) or "") in al


@R.rule("C50-R2", floor=33, template="T-SIBLING",
        desc="each list/set/dict mutator of the association-proxy collections creates intermediaries via "
             "_create()/creator and inserts/removes them through self.col, or delegates to a sibling that does, "
             "or is loudly unavailable; in-place operators return self")
def r2(ctx):
    effects = load("python_mutator_effects.json")
    for t, (cname, abcname) in APC.items():
        cls = ctx.index.cls(f"{AP}::{cname}")
        ctx.require(abcname in cls.base_exprs, f"{cname} no longer derives from collections.abc.{abcname}: {cls.base_exprs}")
        abc_cls = getattr(_abc, abcname)
        members, order_only = python_mutators(t)
        muts = members + order_only
        eff = dict(effects[t])
        for m in order_only:
            eff[m] = "order"

        def resolved(name):
            f = ctx.index.resolve_method(cls, name)
            return f if f is not None and not f.type_only else None
        unsupported = []
        for m in muts:
            key = f"{AP}::{cname}.{m}"
            f = resolved(m)
            if f is None:
                mix = getattr(abc_cls, m, None)
                if mix is None:
                    unsupported.append(m)
                    ctx.ok(key, f"unavailable: neither defined nor an {abcname} mixin method -> the operation raises "
                                f"TypeError/AttributeError and changes nothing", nontrivial=False)
                elif getattr(mix, "__isabstractmethod__", False):
                    ctx.violation(key, f"{abcname}.{m} is an abstract primitive that {cname} does not implement", cls.loc)
                else:
                    ctx.ok(key, f"{abcname} mixin method (funnels into the overridden primitives)", nontrivial=False)
                continue
            ctx.functions_analysed.add(f.key)
            g = ctx.cfg(f)
            if g.exit not in g.reachable([g.entry]):
                unsupported.append(m)
                ctx.ok(key, "unsupported: always raises", nontrivial=False)
                continue
            al = _col_aliases(f.node)
            creates = [c for c in calls_in(f.node) if call_name(c) in ("self._create", "self.creator")]
            col_adds, col_removes, sets = [], [], []
            for n in walk_local(f.node):
                if isinstance(n, ast.Call) and isinstance(n.func, ast.Attribute) and _is_col(n.func.value, al):
                    if n.func.attr in COL_ADD:
                        col_adds.append(n)
                    elif n.func.attr in COL_REMOVE:
                        col_removes.append(n)
                elif isinstance(n, ast.Assign):
                    for tg in n.targets:
                        if isinstance(tg, ast.Subscript) and _is_col(tg.value, al):
                            col_adds.append(n)
                elif isinstance(n, ast.Delete):
                    for tg in n.targets:
                        if isinstance(tg, ast.Subscript) and _is_col(tg.value, al):
                            col_removes.append(n)
                if isinstance(n, ast.Call) and call_name(n) in ("self._set", "self.setter") and n.args \
                        and isinstance(n.args[0], ast.Subscript) and _is_col(n.args[0].value, al):
                    sets.append(n)
            dele = [dn for dn, _ in _delegations(f.node) if dn in muts and dn != m or (dn == m and dn in ("__setitem__",))]
            dele = [dn for dn in dele if resolved(dn) is not None]
            probs = []
            # raw values must never be stored: every insertion into col carries a created intermediary
            for ins in col_adds:
                created_names = set()
                for n in walk_local(f.node):
                    if isinstance(n, ast.Assign) and isinstance(n.value, ast.Call) and call_name(n.value) in ("self._create", "self.creator"):
                        created_names |= {x.id for x in n.targets if isinstance(x, ast.Name)}
                txt_has_create = any(isinstance(x, ast.Call) and call_name(x) in ("self._create", "self.creator") for x in ast.walk(ins))
                uses_created = any(isinstance(x, ast.Name) and x.id in created_names for x in ast.walk(ins))
                if not (txt_has_create or uses_created):
                    probs.append(f"`{unparse(ins)[:60]}` inserts into the underlying collection something that was not built by "
                                 f"_create()/creator (a proxied value instead of an intermediary object)")
            e = eff[m]
            can_add = bool(creates and col_adds) or bool(sets) or any(eff.get(dn) in ("add", "both") for dn in dele)
            can_rem = bool(col_removes) or bool(sets) or any(eff.get(dn) in ("remove", "both") for dn in dele)
            if e in ("add", "both") and not can_add:
                probs.append(f"{t}.{m} adds members but the proxy neither creates an intermediary into self.col nor delegates to a sibling that does")
            if e in ("remove", "both") and not can_rem:
                probs.append(f"{t}.{m} removes members but the proxy neither removes from self.col nor delegates to a sibling that does")
            if m.startswith("__i") and m.endswith("__"):
                rets = [r for r in walk_local(f.node) if isinstance(r, ast.Return)]
                real = [r for r in rets if not (isinstance(r.value, ast.Name) and r.value.id == "NotImplemented")]
                falls = g.exit in g.reachable([g.entry], avoid=[i for r in rets for i in g.nodes_for(r)], edge_ok=no_exc)
                if falls or not real or not all(isinstance(r.value, ast.Name) and r.value.id == "self" for r in real):
                    probs.append("in-place operator does not return self (the parent attribute would be rebound / set to None)")
            how = []
            if creates and col_adds:
                how.append("create->col")
            if sets:
                how.append("setter on existing intermediary")
            if col_removes:
                how.append("col removal")
            if dele:
                how.append("delegates:" + ",".join(sorted(set(dele))))
            ctx.check(not probs, key, "; ".join(probs), " ".join(how), f.loc)
        if unsupported:
            ctx.note(f"{cname}: operations that are loudly unavailable (raise): {unsupported}")


# ------------------------------------------------------------------------------------- self-test
R.mutant("ol-insert-no-reorder", OL,
         sub("        super().insert(index, entity)\n        self._reorder()\n", "        super().insert(index, entity)\n"), "C50-R1")
R.mutant("ol-pop-override-removed", OL,
         sub("    def pop(self, index: SupportsIndex = -1) -> _T:\n        entity = super().pop(index)\n        self._reorder()\n        return entity\n\n", ""),
         "C50-R1")
R.mutant("ol-delitem-reorder-conditional", OL,
         sub("        super().__delitem__(index)\n        self._reorder()\n", "        super().__delitem__(index)\n        if isinstance(index, slice):\n            self._reorder()\n"),
         "C50-R1")
R.mutant("ol-append-override-removed", OL,
         sub("    def append(self, entity: _T) -> None:\n        super().append(entity)\n        self._order_entity(len(self) - 1, entity, self.reorder_on_append)\n\n", ""),
         "C50-R1")
R.mutant("aplist-append-raw-value", AP,
         sub("        col = self.col\n        item = self._create(value)\n        col.append(item)\n", "        col = self.col\n        col.append(value)\n"),
         "C50-R2")
R.mutant("apset-discard-noop", AP,
         sub("            if self._get(member) == __element:\n                self.col.discard(member)\n                break\n",
             "            if self._get(member) == __element:\n                break\n"),
         "C50-R2")
R.mutant("aplist-iadd-no-return", AP,
         sub("        self.extend(iterable)\n        return self\n", "        self.extend(iterable)\n"), "C50-R2")
R.mutant("apdict-clear-on-copy", AP,
         sub("    def clear(self) -> None:\n        self.col.clear()\n\n    def __eq__(self, other: object) -> bool:\n        return dict(self) == other\n",
             "    def clear(self) -> None:\n        dict(self.col).clear()\n\n    def __eq__(self, other: object) -> bool:\n        return dict(self) == other\n"),
         "C50-R2")
R.mutant("apdict-setdefault-raw", AP,
         sub("            self.col[key] = self._create(key, default)\n            return default", "            self.col[key] = default\n            return default"),
         "C50-R2")
# benign
R.mutant("benign-ol-rename-local", OL,
         sub("        entity = super().pop(index)\n        self._reorder()\n        return entity\n", "        popped = super().pop(index)\n        self._reorder()\n        return popped\n"),
         None)
R.mutant("benign-ol-sort-override", OL,
         sub("    def __reduce__(self) -> Any:\n",
             "    def sort(self, **kw: Any) -> None:\n        super().sort(**kw)\n        self._reorder()\n\n    def reverse(self) -> None:\n        super().reverse()\n        self._reorder()\n\n    def __reduce__(self) -> Any:\n"),
         None)
R.mutant("benign-ap-append-inline", AP,
         sub("        col = self.col\n        item = self._create(value)\n        col.append(item)\n", "        self.col.append(self._create(value))\n"),
         None)
