"""C50 -- Ordering lists and association proxies behave as their collection types (mutator cover + delegation)."""

from __future__ import annotations

import ast
import collections.abc as _abc

from ..astutil import FuncNode, ancestors, call_name, calls_in, dotted, lexical_guards, unparse, walk_local
from ..cfg import no_exc
from ..oracles import load, python_mutators
from ..report import Registry, chain, sub
from .c38 import _decorators as _coll_decorators, _delegations, _interfaces as _coll_interfaces
from ._helpers_rob_h1 import local_defs, nform, tri_edges
from ._helpers_str2_u import ModelRaise as _MRaise, ProxyExec, Unsupported as _MUnsupported, etype_of

R = Registry(
    "C50",
    title="Ordering lists and association proxies behave as their collection types",
    decides=(
        "every list mutator either is overridden in OrderingList and (re)numbers positions on every normal "
        "path around the underlying mutation, or reaches an overridden method through the instrumented "
        "list wrapper, or cannot disturb positions; every mutator of list/set/dict on _AssociationList/"
        "_AssociationSet/_AssociationDict creates intermediaries through _create()/creator and inserts/removes "
        "them through the underlying collection self.col (so ORM events fire), or delegates to a sibling that "
        "does, or is loudly unavailable; in-place operators return self; for every overridden OrderingList mutator a "
        "small-scope model (lists of 0..3, every int index in [-(n+2), n+2], both reorder_on_append settings), obtained by "
        "abstract execution of the method's own AST with Python's list semantics, ends with position == index for every "
        "element (negative/out-of-range indexes, partial renumbering and -- where the instrumented wrapper hands them on: "
        "__delitem__ -- slices with negative bounds / steps included); whole-collection assignment to an "
        "association proxy removes old-only keys, creates new-only keys and keeps -- for dicts re-assigns -- the common ones; "
        "every mutator of _AssociationSet/_AssociationList/_AssociationDict, executed from its own source over a model of the "
        "underlying collection + creator/getter/setter, leaves exactly the proxied values the builtin set/list/dict holds after the "
        "same call (iterables with repeats, several iterables, out-of-range indexes, slices, defaults), raises the same exception "
        "and returns the same value."
    ),
    not_decided=(
        "persisted rows; OrderingList slice ASSIGNMENT (the instrumented wrapper decomposes it into int-index calls, the "
        "override's own slice branch is only entered on a never-instrumented OrderingList); the instrumented collection underneath "
        "an association proxy (assumed to behave as the builtin: C38-R12's business); proxy arguments that are the proxy itself; "
        "lists longer than 3; the ordering function itself; "
        "reorder_on_append=False semantics for pre-numbered entities; scalar association proxies; list lengths > 3 "
        "and custom ordering functions in the position model (count_from_0 is modelled; sort is modelled as a reversal; "
        "calls on objects other than the list are assumed effect-free); a construct outside the modelled Python subset "
        "ends the check with exit 2, not with a verdict."
    ),
)

OL = "ext/orderinglist.py"
AP = "ext/associationproxy.py"
ORDER_CALLS = ("_reorder", "reorder", "_order_entity")
LIST_SEM = {k: v for k, v in load("python_list_index_semantics.json").items() if k != "_comment"}
SLICE_SEM = {k: v for k, v in load("python_list_slice_arguments.json").items() if k != "_comment"}

#: list mutators that need no renumbering in OrderingList -- {mutator: reason}
OL_EXEMPT = {
    "clear": "empties the list: no member is left whose position could be stale",
    "__imul__": "duplicates every member (n>1) or empties the list (n<=0): position == index is unsatisfiable for an "
                "entity that occurs twice; the missing collection events of list.__imul__ are C38-R1's finding",
}


def _super_calls(fn, names):
    out = []
    for c in calls_in(fn):
        f = c.func
        if isinstance(f, ast.Attribute) and f.attr in names:
            if isinstance(f.value, ast.Call) and dotted(f.value.func) == "super":
                out.append(c)
            elif isinstance(f.value, ast.Name) and f.value.id == "list" and c.args and unparse(c.args[0]) == "self":
                out.append(c)
    return out


def _owner_fact(fnode):
    """fact oracle for `tri`: the collection adapter of the list (the expression `collection_adapter(self)` or a local
    bound only to it) is truthy, and so is its `_referenced_by_owner`"""
    defs = {k: list(v) for k, v in local_defs(fnode).items()}
    for n in walk_local(fnode):          # `if (adapter := collection_adapter(self)) and ...`
        if isinstance(n, ast.NamedExpr) and isinstance(n.target, ast.Name) and None in defs.get(n.target.id, []):
            vs = defs[n.target.id]
            vs[vs.index(None)] = n.value

    def is_adapter(e):
        if isinstance(e, ast.Call) and (call_name(e) or "").split(".")[-1] == "collection_adapter" and len(e.args) == 1 \
                and unparse(e.args[0]) == "self":
            return True
        if isinstance(e, ast.NamedExpr):
            return is_adapter(e.value)
        if isinstance(e, ast.Name):
            vs = defs.get(e.id)
            return bool(vs) and all(v is not None and is_adapter(v) for v in vs)
        return False

    def fact(e):
        if is_adapter(e):
            return True
        if isinstance(e, ast.Attribute) and e.attr == "_referenced_by_owner" and is_adapter(e.value):
            return True
        return None
    return fact


@R.rule("C50-R1", floor=12, template="T-EXHAUST/T-PATH",
        desc="every list mutator is overridden in OrderingList with position (re)numbering on every normal path "
             "around the underlying mutation, or funnels into an overridden method through the instrumented "
             "wrapper, or is exempt with a reason")
def r1(ctx):
    cls = ctx.index.cls(f"{OL}::OrderingList")
    members, order_only = python_mutators("list")
    muts = members + order_only
    facs = _coll_interfaces(ctx)
    decs = _coll_decorators(ctx, facs["list"])
    for m in muts:
        key = f"{OL}::OrderingList.{m}"
        f = cls.methods.get(m)
        if f is not None and not f.type_only:
            # judged on the normal form: private helpers inlined at the call, call-free locals resolved -- an extracted
            # `self._renumber_if_owned()` or a boolean local `attached = adapter and adapter._referenced_by_owner`
            # is read as the code it stands for.  The rule's own vocabulary (renumbering calls, list mutators) is kept.
            f = nform(ctx, f, keep=set(ORDER_CALLS) | set(muts))
            g = ctx.cfg(f)
            pm = f.pm
            whole = [i for n in ("_reorder", "reorder") for i in g.find_calls(f"self.{n}")]
            single, loops = [], []
            for c in calls_in(f.node):
                if call_name(c) != "self._order_entity":
                    continue
                lp = next((a for a in ancestors(pm, c) if isinstance(a, (ast.For, ast.While, FuncNode))), None)
                lp = lp if isinstance(lp, (ast.For, ast.While)) else None
                if lp is None:
                    single += g.nodes_containing(c)
                elif not lexical_guards(pm, c, stop=lp):
                    # a renumbering loop does its work at the `for` statement (the zero-iteration path of the CFG is
                    # not a path without renumbering); WHICH indexes it covers is decided by the model check C50-R3
                    loops += g.nodes_for(lp)
            shifts = LIST_SEM.get(m, {}).get("shifts", True)
            order_nodes = whole + loops + ([] if shifts else single)
            sup = _super_calls(f.node, muts)
            dele = [dn for dn, _ in _delegations(f.node) if dn in muts and dn in cls.methods]
            probs = []
            if shifts and single and not (whole or loops):
                probs.append(f"only one element is numbered (`_order_entity` outside a loop) although list.{m} changes the "
                             f"index of the elements behind it as well")
            if not sup and not dele:
                probs.append("override neither performs the underlying list mutation nor delegates to an overridden mutator")
            # the only tolerated way to skip renumbering: the list is not (or no longer) the owner's collection.  Paths are
            # judged under the FACT "the list has a collection adapter that is referenced by its owner": every branch
            # outcome that fact refutes is cut, however the test is spelled (compound `and`, nested ifs, early return,
            # `is not None`, inverted if/else)
            owner_fact = _owner_fact(f.node)
            cut = tri_edges(g, owner_fact)
            owner_tests = {a for a, _ in cut}

            def ok_edge(a, b, l):
                return l != "exc" and (a, l) not in cut
            for c in sup:
                for nid in g.nodes_containing(c):
                    after = g.must_pass([nid], [g.exit], order_nodes, edge_ok=ok_edge)
                    before = g.always_preceded(nid, order_nodes, edge_ok=no_exc)
                    # numbering BEFORE the mutation can only be right when no other element moves
                    if after is not None and (shifts or before is not None):
                        probs.append("a normal path performs the list mutation without (re)numbering positions: "
                                     + " -> ".join(after[-3:]))
            how = "renumbers" + (" (skipped only when not referenced by owner)" if owner_tests else "") if sup else \
                  "delegates to " + ",".join(sorted(set(dele)))
            ctx.check(not probs, key, "; ".join(probs), how, f.loc)
            continue
        if m in OL_EXEMPT:
            ctx.ok(key, "exempt: " + OL_EXEMPT[m], nontrivial=False)
            continue
        if m in decs:
            d, w, fnparam = decs[m]
            under = [c for c in calls_in(w) if call_name(c) == fnparam]
            dele = [dn for dn, _ in _delegations(w) if dn in muts]
            if not under and dele and all(dn in cls.methods for dn in dele):
                ctx.ok(key, f"instrumented wrapper funnels into overridden {','.join(sorted(set(dele)))}")
                continue
            ctx.violation(key, f"list.{m} is not overridden and its instrumented wrapper calls the raw list method: "
                               f"positions are not renumbered", cls.loc)
            continue
        what = "reorders the list" if m in order_only else "changes the list"
        ctx.violation(key, f"list.{m} {what} but OrderingList does not override it (and it is not instrumented): afterwards "
                           f"position != index, nothing is flushed and the old order comes back on reload", cls.loc)


# ------------------------------------------------------------------- C50-R3: small-scope model of position == index
class _Unmodelled(Exception):
    pass


class _PyRaise(Exception):
    """the modelled code raised a Python exception (IndexError from list.pop on a bad index, ...)"""

    def __init__(self, etype, text=None):
        super().__init__(text or etype)
        self.etype = etype


class _Return(Exception):
    def __init__(self, value):
        self.value = value


class _Break(Exception):
    pass


class _Continue(Exception):
    pass


class _Opaque:
    """a value the model knows nothing about (collection adapter, logger, ...); truthy"""
    def __repr__(self):
        return "<opaque>"


class _Ent:
    __slots__ = ("name",)

    def __init__(self, name):
        self.name = name

    def __repr__(self):
        return self.name


class _Bound:
    """a callable value: a method of the list itself (`self.m`), the underlying list operation (`super().m`,
    `list.m` + explicit self), the ordering function, a method of a local python list, `int.__index__`"""
    __slots__ = ("kind", "name", "obj")

    def __init__(self, kind, name, obj=None):
        self.kind, self.name, self.obj = kind, name, obj

    def __repr__(self):
        return f"<{self.kind}.{self.name}>"


_SELF = object()
_SUPER = object()
_LISTCLS = object()
_ORDERING_ATTR = object()
_BIN = {ast.Add: lambda a, b: a + b, ast.Sub: lambda a, b: a - b, ast.Mult: lambda a, b: a * b,
        ast.FloorDiv: lambda a, b: a // b, ast.Mod: lambda a, b: a % b}
_CMP = {ast.Lt: lambda a, b: a < b, ast.LtE: lambda a, b: a <= b, ast.Gt: lambda a, b: a > b, ast.GtE: lambda a, b: a >= b,
        ast.Eq: lambda a, b: a == b, ast.NotEq: lambda a, b: a != b, ast.Is: lambda a, b: a is b,
        ast.IsNot: lambda a, b: a is not b, ast.In: lambda a, b: a in b, ast.NotIn: lambda a, b: a not in b}
_LIST_OPS = ("insert", "append", "pop", "remove", "__setitem__", "__delitem__", "reverse", "clear", "extend", "index", "count",
             "__getitem__", "__len__", "__contains__", "__iter__")
_PYLIST_OPS = ("append", "extend", "insert", "pop", "remove", "index", "count", "reverse", "clear", "copy")


def _exc_matches(etype, handler_type):
    """does `except <handler_type>` catch an exception of builtin type name `etype`?  None = not understood"""
    import builtins
    if handler_type is None:
        return True
    names = [unparse(x) for x in handler_type.elts] if isinstance(handler_type, ast.Tuple) else [unparse(handler_type)]
    et = getattr(builtins, etype, None)
    res = False
    for n in names:
        ht = getattr(builtins, n.split(".")[-1], None)
        if n == etype:
            return True
        if isinstance(et, type) and isinstance(ht, type) and issubclass(ht, BaseException):
            if issubclass(et, ht):
                return True
        elif not (isinstance(ht, type) and issubclass(ht, BaseException)):
            res = None          # a non-builtin exception class: cannot tell
    return res


class _OLModel:
    """Abstract execution of OrderingList's own source (AST) against a model list: `items` are entities, `pos` their
    ordering attribute; the underlying list operations have Python's semantics, `ordering_func` is count_from_0.
    Nothing of /repo is imported or run: the statements are interpreted here, over a subset of Python that covers the
    everyday ways of writing such methods (early return or positive guard, nested or compound conditions, while/for
    loops with break/continue, comprehensions, try/except/finally, keyword arguments, bound-method and value aliases,
    extracted helper methods) -- anything outside it raises _Unmodelled (the check then ends with exit 2, never with a
    verdict)."""

    def __init__(self, cls, n, reorder_on_append):
        self.cls = cls
        self.items = [_Ent(f"e{i}") for i in range(n)]
        self.pos = {e: i for i, e in enumerate(self.items)}
        self.roa = reorder_on_append
        self.steps = 0
        self.mutated = False

    # ---- methods
    def method_node(self, name):
        f = self.cls.methods.get(name)
        if f is not None and not f.type_only:
            return f.node
        for v in self.cls.assigns.get(name, []):       # `_reorder = reorder`
            if isinstance(v, ast.Name) and v.id != name:
                return self.method_node(v.id)
        return None

    def call_method(self, name, args, depth=0, kwargs=None):
        fn = self.method_node(name)
        if fn is None:
            raise _Unmodelled(f"self.{name}() is not a method of OrderingList")
        if depth > 8:
            raise _Unmodelled("call depth")
        a = fn.args
        if a.vararg:
            raise _Unmodelled(f"signature of {name}")
        decos = {unparse(d).split(".")[-1].split("(")[0] for d in fn.decorator_list}
        if decos - {"overload", "override", "final", "no_type_check"}:
            if decos & {"staticmethod", "classmethod", "property"} or "contextmanager" in decos:
                raise _Unmodelled(f"decorated method {name}")
        kwargs = dict(kwargs or {})
        params = [x.arg for x in a.posonlyargs + a.args][1:]
        if len(args) > len(params):
            raise _Unmodelled(f"{name}(): too many arguments")
        env = {"self": _SELF}
        defaults = dict(zip(params[len(params) - len(a.defaults):], a.defaults))
        for kw, d in zip(a.kwonlyargs, a.kw_defaults):
            params.append(kw.arg)
            if d is not None:
                defaults[kw.arg] = d
        for i, pn in enumerate(params):
            if i < len(args):
                env[pn] = args[i]
            elif pn in kwargs:
                env[pn] = kwargs.pop(pn)
            elif pn in defaults:
                env[pn] = self.ev(defaults[pn], env, depth)
            else:
                raise _Unmodelled(f"{name}(): missing argument {pn}")
        if a.kwarg:
            env[a.kwarg.arg] = kwargs
        elif kwargs:
            raise _Unmodelled(f"{name}(): unexpected keyword {sorted(kwargs)}")
        try:
            self.block(fn.body, env, depth)
        except _Return as r:
            return r.value
        except (_Break, _Continue):
            raise _Unmodelled("break/continue outside a loop")
        return None

    # ---- statements
    def block(self, body, env, depth):
        for st in body:
            self.steps += 1
            if self.steps > 20000:
                raise _Unmodelled("step budget")
            if isinstance(st, ast.Expr):
                if isinstance(st.value, ast.Constant):
                    continue
                self.ev(st.value, env, depth)
            elif isinstance(st, (ast.Assign, ast.AnnAssign)):
                if isinstance(st, ast.AnnAssign) and st.value is None:
                    continue
                v = self.ev(st.value, env, depth)
                for tg in (st.targets if isinstance(st, ast.Assign) else [st.target]):
                    self.bind(tg, v, env, depth)
            elif isinstance(st, ast.AugAssign) and isinstance(st.target, ast.Name) and type(st.op) in _BIN:
                if st.target.id not in env:
                    raise _Unmodelled(f"name `{st.target.id}`")
                env[st.target.id] = self.arith(_BIN[type(st.op)], env[st.target.id], self.ev(st.value, env, depth))
            elif isinstance(st, ast.If):
                self.block(st.body if self.truth(self.ev(st.test, env, depth)) else st.orelse, env, depth)
            elif isinstance(st, ast.For):
                it = self.ev(st.iter, env, depth)
                if it is _SELF:
                    it = list(self.items)
                if not isinstance(it, (list, range, tuple)):
                    raise _Unmodelled(f"iteration over `{unparse(st.iter)}`")
                broke = False
                for v in list(it):
                    self.bind(st.target, v, env, depth)
                    try:
                        self.block(st.body, env, depth)
                    except _Break:
                        broke = True
                        break
                    except _Continue:
                        continue
                if not broke:
                    self.block(st.orelse, env, depth)
            elif isinstance(st, ast.While):
                broke = False
                while self.truth(self.ev(st.test, env, depth)):
                    self.steps += 1
                    if self.steps > 20000:
                        raise _Unmodelled("step budget")
                    try:
                        self.block(st.body, env, depth)
                    except _Break:
                        broke = True
                        break
                    except _Continue:
                        continue
                if not broke:
                    self.block(st.orelse, env, depth)
            elif isinstance(st, ast.Break):
                raise _Break()
            elif isinstance(st, ast.Continue):
                raise _Continue()
            elif isinstance(st, ast.Return):
                raise _Return(self.ev(st.value, env, depth) if st.value is not None else None)
            elif isinstance(st, ast.Pass):
                pass
            elif isinstance(st, ast.Assert):
                if not self.truth(self.ev(st.test, env, depth)):
                    raise _PyRaise("AssertionError")
            elif isinstance(st, ast.Delete):
                for tg in st.targets:
                    if isinstance(tg, ast.Name) and tg.id in env:
                        del env[tg.id]
                    elif isinstance(tg, ast.Subscript):
                        v = self.ev(tg.value, env, depth)
                        i = self.index_value(tg.slice, env, depth)
                        if v is _SELF:
                            self.call_self("__delitem__", [i], {}, depth)
                        elif isinstance(v, list):
                            self.pylist(v, "__delitem__", [i])
                        else:
                            raise _Unmodelled(f"`{unparse(st)[:50]}`")
                    else:
                        raise _Unmodelled(f"`{unparse(st)[:50]}`")
            elif isinstance(st, ast.Raise):
                if st.exc is None:
                    cur = env.get("__exc__")
                    if cur is None:
                        raise _Unmodelled("bare raise outside a handler")
                    raise _PyRaise(cur)
                e = st.exc.func if isinstance(st.exc, ast.Call) else st.exc
                raise _PyRaise((dotted(e) or "Exception").split(".")[-1], unparse(st)[:60])
            elif isinstance(st, ast.Try):
                self.do_try(st, env, depth)
            else:
                raise _Unmodelled(f"statement `{unparse(st)[:50]}`")

    def do_try(self, st, env, depth):
        try:
            try:
                self.block(st.body, env, depth)
            except _PyRaise as ex:
                for h in st.handlers:
                    m = _exc_matches(ex.etype, h.type)
                    if m is None:
                        raise _Unmodelled(f"`except {unparse(h.type)}` for a {ex.etype}")
                    if m:
                        if h.name:
                            env[h.name] = _Opaque()
                        saved = env.get("__exc__")
                        env["__exc__"] = ex.etype
                        try:
                            self.block(h.body, env, depth)
                        finally:
                            env["__exc__"] = saved
                        break
                else:
                    raise
            else:
                self.block(st.orelse, env, depth)
        finally:
            # (python semantics: a finally body that completes normally lets the pending exception / return continue;
            #  one that raises or returns replaces it -- exactly what this `finally` does with the model's signals)
            self.block(st.finalbody, env, depth)

    def bind(self, tg, v, env, depth=0):
        if isinstance(tg, ast.Name):
            env[tg.id] = v
        elif isinstance(tg, (ast.Tuple, ast.List)) and isinstance(v, (tuple, list)) and len(v) == len(tg.elts) \
                and not any(isinstance(t, ast.Starred) for t in tg.elts):
            for t1, v1 in zip(tg.elts, v):
                self.bind(t1, v1, env, depth)
        elif isinstance(tg, ast.Subscript):
            recv = self.ev(tg.value, env, depth)
            i = self.index_value(tg.slice, env, depth)
            if isinstance(i, slice) and isinstance(recv, dict):
                raise _Unmodelled(f"assignment target `{unparse(tg)}`")
            if recv is _SELF:
                self.call_self("__setitem__", [i, v], {}, depth)
            elif isinstance(recv, list):
                self.pylist(recv, "__setitem__", [i, v])
            elif isinstance(recv, dict):
                recv[i] = v
            else:
                raise _Unmodelled(f"assignment target `{unparse(tg)}`")
        else:
            raise _Unmodelled(f"assignment target `{unparse(tg)}`")

    # ---- expressions
    def index_value(self, sl, env, depth):
        """the subscript of `x[...]`: an int / key, or a slice object built from a literal `a:b:c`"""
        if isinstance(sl, ast.Slice):
            parts = [None if x is None else self.ev(x, env, depth) for x in (sl.lower, sl.upper, sl.step)]
            if not all(p is None or (isinstance(p, int) and not isinstance(p, bool)) for p in parts):
                raise _Unmodelled(f"slice bounds `{unparse(sl)}`")
            return slice(*parts)
        return self.ev(sl, env, depth)

    def pos_args(self, c, env, depth):
        """positional arguments of a call, `*<tuple/list/range>` spliced in"""
        out = []
        for a in c.args:
            if isinstance(a, ast.Starred):
                v = self.seq(self.ev(a.value, env, depth))
                if not isinstance(v, (list, tuple, range)):
                    raise _Unmodelled(f"star-args `{unparse(a)}`")
                out.extend(v)
            else:
                out.append(self.ev(a, env, depth))
        return out

    @staticmethod
    def truth(v):
        if isinstance(v, (_Opaque, _Bound, _Ent)):
            return True
        if v is _SELF:
            raise _Unmodelled("truth value of the list itself")
        return bool(v)

    @staticmethod
    def arith(op, a, b):
        if isinstance(a, bool) or isinstance(b, bool) or not isinstance(a, int) or not isinstance(b, int):
            if isinstance(a, list) and isinstance(b, list) and op is _BIN[ast.Add]:
                return a + b
            raise _Unmodelled("arithmetic on a non-integer")
        try:
            return op(a, b)
        except ZeroDivisionError:
            raise _PyRaise("ZeroDivisionError")

    def seq(self, v):
        return self.items if v is _SELF else v

    def comprehension(self, e, env, depth):
        out = []

        def rec(i, env2):
            if i == len(e.generators):
                if isinstance(e, ast.DictComp):
                    raise _Unmodelled("dict comprehension")
                out.append(self.ev(e.elt, env2, depth))
                return
            gen = e.generators[i]
            if gen.is_async:
                raise _Unmodelled("async comprehension")
            it = self.seq(self.ev(gen.iter, env2, depth))
            if not isinstance(it, (list, range, tuple)):
                raise _Unmodelled(f"iteration over `{unparse(gen.iter)}`")
            for v in list(it):
                self.steps += 1
                if self.steps > 20000:
                    raise _Unmodelled("step budget")
                self.bind(gen.target, v, env2, depth)
                if all(self.truth(self.ev(c, env2, depth)) for c in gen.ifs):
                    rec(i + 1, env2)
        rec(0, dict(env))
        return out

    def ev(self, e, env, depth):
        if isinstance(e, ast.Constant):
            return e.value
        if isinstance(e, ast.Name):
            if e.id in env:
                return env[e.id]
            if e.id == "list":
                return _LISTCLS
            raise _Unmodelled(f"name `{e.id}`")
        if isinstance(e, ast.Tuple):
            return tuple(self.ev(x, env, depth) for x in e.elts)
        if isinstance(e, ast.List):
            return [self.ev(x, env, depth) for x in e.elts]
        if isinstance(e, ast.JoinedStr):
            return "<text>"
        if isinstance(e, ast.NamedExpr) and isinstance(e.target, ast.Name):
            v = self.ev(e.value, env, depth)
            env[e.target.id] = v
            return v
        if isinstance(e, (ast.ListComp, ast.GeneratorExp, ast.SetComp)):
            return self.comprehension(e, env, depth)
        if isinstance(e, ast.BinOp) and type(e.op) in _BIN:
            left, right = self.ev(e.left, env, depth), self.ev(e.right, env, depth)
            if isinstance(left, str) and isinstance(e.op, (ast.Mod, ast.Add)):
                return "<text>"
            return self.arith(_BIN[type(e.op)], left, right)
        if isinstance(e, ast.UnaryOp):
            v = self.ev(e.operand, env, depth)
            if isinstance(e.op, ast.Not):
                return not self.truth(v)
            if isinstance(e.op, ast.USub) and isinstance(v, int) and not isinstance(v, bool):
                return -v
            if isinstance(e.op, ast.UAdd) and isinstance(v, int) and not isinstance(v, bool):
                return v
            raise _Unmodelled(f"`{unparse(e)}`")
        if isinstance(e, ast.BoolOp):
            v = None
            for x in e.values:
                v = self.ev(x, env, depth)
                if isinstance(e.op, ast.And) and not self.truth(v):
                    return v
                if isinstance(e.op, ast.Or) and self.truth(v):
                    return v
            return v
        if isinstance(e, ast.IfExp):
            return self.ev(e.body if self.truth(self.ev(e.test, env, depth)) else e.orelse, env, depth)
        if isinstance(e, ast.Compare):
            left = self.ev(e.left, env, depth)
            for op, c in zip(e.ops, e.comparators):
                right = self.ev(c, env, depth)
                if type(op) not in _CMP:
                    raise _Unmodelled(f"`{unparse(e)}`")
                unknown = [x for x in (left, right) if isinstance(x, (_Opaque, _Bound))]
                if unknown:
                    # an object is never None; nothing else is known about it
                    if isinstance(op, (ast.Is, ast.IsNot)) and (left is None or right is None):
                        res = isinstance(op, ast.IsNot)
                    else:
                        raise _Unmodelled(f"comparison with an unknown value `{unparse(e)}`")
                else:
                    if right is _SELF and isinstance(op, (ast.In, ast.NotIn)):
                        right = self.items
                    if left is _SELF or right is _SELF:
                        if isinstance(op, (ast.Is, ast.IsNot)):
                            res = _CMP[type(op)](left, right)
                        else:
                            raise _Unmodelled(f"`{unparse(e)}` compares the list itself")
                    else:
                        try:
                            res = _CMP[type(op)](left, right)
                        except TypeError:
                            raise _Unmodelled(f"`{unparse(e)}` compares {left!r} with {right!r}")
                if not res:
                    return False
                left = right
            return True
        if isinstance(e, ast.Attribute):
            v = self.ev(e.value, env, depth)
            if v is _SELF:
                if e.attr == "reorder_on_append":
                    return self.roa
                if e.attr == "ordering_attr":
                    return _ORDERING_ATTR
                if e.attr == "ordering_func":
                    return _Bound("func", "ordering_func")
                if self.method_node(e.attr) is not None:
                    return _Bound("self", e.attr)
                if e.attr in _LIST_OPS:                       # an inherited list method, not overridden
                    return _Bound("list", e.attr)
                raise _Unmodelled(f"attribute self.{e.attr}")
            if v is _SUPER:
                return _Bound("list", e.attr)
            if v is _LISTCLS:
                return _Bound("listcls", e.attr)
            if isinstance(v, _Opaque):
                # `adapter._referenced_by_owner`: the model is a collection in use by its owner
                return True if e.attr == "_referenced_by_owner" else _Opaque()
            if isinstance(v, list) and e.attr in _PYLIST_OPS:
                return _Bound("pylist", e.attr, v)
            if isinstance(v, int) and not isinstance(v, bool) and e.attr == "__index__":
                return _Bound("const", e.attr, v)
            if isinstance(v, slice):
                if e.attr in ("start", "stop", "step"):
                    return getattr(v, e.attr)
                if e.attr == "indices":
                    return _Bound("slice", "indices", v)
            raise _Unmodelled(f"`{unparse(e)}`")
        if isinstance(e, ast.Subscript):
            v = self.seq(self.ev(e.value, env, depth))
            if isinstance(e.slice, ast.Slice):
                parts = [None if x is None else self.ev(x, env, depth) for x in (e.slice.lower, e.slice.upper, e.slice.step)]
                if isinstance(v, (list, tuple, range)) and all(p is None or (isinstance(p, int) and not isinstance(p, bool)) for p in parts):
                    try:
                        r = v[slice(*parts)]
                    except ValueError:
                        raise _PyRaise("ValueError")
                    return list(r) if isinstance(v, list) else r
                raise _Unmodelled(f"slice `{unparse(e)}`")
            i = self.ev(e.slice, env, depth)
            if isinstance(v, (list, tuple, range)) and isinstance(i, int) and not isinstance(i, bool):
                try:
                    return v[i]
                except IndexError:
                    raise _PyRaise("IndexError")
            if isinstance(v, (list, tuple, range)) and isinstance(i, slice):
                try:
                    r = v[i]
                except ValueError:
                    raise _PyRaise("ValueError")
                return list(r) if isinstance(v, list) else r
            if isinstance(v, dict):
                try:
                    return v[i]
                except (KeyError, TypeError):
                    raise _PyRaise("KeyError")
            raise _Unmodelled(f"`{unparse(e)}`")
        if isinstance(e, ast.Call):
            return self.call(e, env, depth)
        raise _Unmodelled(f"expression `{unparse(e)[:50]}`")

    def listop(self, name, args):
        """Python's own list semantics, on the model list"""
        L = self.items
        try:
            if name == "sort":
                # an arbitrary permutation may result (the key is the caller's): reversal stands for it
                name, args = "reverse", []
            if name in _LIST_OPS:
                before = list(L)
                r = getattr(L, name)(*args)
                self.mutated = self.mutated or before != L
                if name == "__iter__":
                    return list(L)
                return r
        except (IndexError, ValueError, TypeError) as ex:
            raise _PyRaise(type(ex).__name__)
        raise _Unmodelled(f"list.{name}")

    def pylist(self, lst, name, args):
        try:
            if name == "sort":
                raise _Unmodelled("sort of a local list")
            return getattr(lst, name)(*args)
        except (IndexError, ValueError, TypeError) as ex:
            raise _PyRaise(type(ex).__name__)

    def call_self(self, name, args, kwargs, depth):
        if self.method_node(name) is not None:
            return self.call_method(name, args, depth + 1, kwargs)
        if name in _LIST_OPS:
            return self.listop(name, args)
        raise _Unmodelled(f"self.{name}() is not a method of OrderingList")

    def call(self, c, env, depth):
        f = c.func
        star_kw = [k for k in c.keywords if k.arg is None]
        if isinstance(f, ast.Name) and f.id not in env:
            return self.builtin(f.id, c, env, depth)
        if isinstance(f, ast.Attribute) and isinstance(f.value, ast.Name) and f.value.id not in env and f.value.id != "list":
            # module.function(...): operator.index() is understood, anything else (util.warn, log.debug) is assumed
            # to have no effect on the list
            args = self.pos_args(c, env, depth)
            if f.value.id == "operator" and f.attr == "index" and len(args) == 1 and isinstance(args[0], int) and not isinstance(args[0], bool):
                return args[0]
            if any(a is _SELF or isinstance(a, _Ent) for a in args) and f.attr not in ("warn", "debug", "info", "warning", "error"):
                raise _Unmodelled(f"`{unparse(c)[:50]}` is handed the list / an entity")
            return _Opaque()
        fv = self.ev(f, env, depth)
        args = self.pos_args(c, env, depth)
        kwargs = {k.arg: self.ev(k.value, env, depth) for k in c.keywords if k.arg is not None}
        if isinstance(fv, _Bound):
            if fv.kind == "self":
                for k in star_kw:
                    v = self.ev(k.value, env, depth)
                    if not isinstance(v, dict):
                        raise _Unmodelled("**kwargs")
                    kwargs.update(v)
                return self.call_method(fv.name, args, depth + 1, kwargs)
            if fv.kind == "func":
                params = ["index", "collection"]
                if len(args) > 2 or set(kwargs) - set(params[len(args):]) or star_kw:
                    raise _Unmodelled("ordering_func arguments")
                full = dict(zip(params, args))
                full.update(kwargs)
                if set(full) != set(params) or full["collection"] is not _SELF or not isinstance(full["index"], int) \
                        or isinstance(full["index"], bool):
                    raise _Unmodelled("ordering_func arguments")
                return full["index"]                               # count_from_0
            if fv.kind in ("list", "listcls"):
                if fv.kind == "listcls":
                    if not args or args[0] is not _SELF:
                        raise _Unmodelled(f"`{unparse(c)[:50]}`")
                    args = args[1:]
                if kwargs and fv.name != "sort":
                    raise _Unmodelled(f"keyword arguments of list.{fv.name}")
                return self.listop(fv.name, args)
            if fv.kind == "pylist":
                if kwargs or star_kw:
                    raise _Unmodelled(f"`{unparse(c)[:50]}`")
                return self.pylist(fv.obj, fv.name, args)
            if fv.kind == "const" and not args and not kwargs:
                return fv.obj
            if fv.kind == "slice" and len(args) == 1 and not kwargs and isinstance(args[0], int) and not isinstance(args[0], bool):
                try:
                    return fv.obj.indices(args[0])
                except ValueError:
                    raise _PyRaise("ValueError")
            raise _Unmodelled(f"`{unparse(c)[:50]}`")
        if isinstance(fv, _Opaque):
            return _Opaque()          # a call on something that is not the list (logger, adapter): assumed effect-free
        raise _Unmodelled(f"call `{unparse(c)[:50]}`")

    def builtin(self, n, c, env, depth):
        if n == "isinstance" and len(c.args) == 2 and not c.keywords:
            v = self.ev(c.args[0], env, depth)
            kinds = c.args[1].elts if isinstance(c.args[1], ast.Tuple) else [c.args[1]]
            tns = [k.id if isinstance(k, ast.Name) else None for k in kinds]
            if isinstance(v, int) and not isinstance(v, bool) and all(t in ("slice", "int") for t in tns):
                return "int" in tns
            if isinstance(v, slice) and all(t in ("slice", "int") for t in tns):
                return "slice" in tns
            raise _Unmodelled(f"`{unparse(c)}`")
        if n == "super":
            if not c.args or (len(c.args) == 2 and unparse(c.args[1]) == "self"):
                return _SUPER
            raise _Unmodelled(f"`{unparse(c)}`")
        args = self.pos_args(c, env, depth)
        kwargs = {k.arg: self.ev(k.value, env, depth) for k in c.keywords if k.arg is not None}
        ints = all(isinstance(a, int) and not isinstance(a, bool) for a in args)
        known = ("int", "len", "min", "max", "abs", "range", "enumerate", "list", "tuple", "reversed", "getattr", "setattr",
                 "zip", "bool", "sorted", "iter", "next", "sum", "any", "all", "divmod", "slice", "type", "hasattr", "id")
        if n == "enumerate" and set(kwargs) <= {"start"} and len(args) in (1, 2):
            start = kwargs.get("start", args[1] if len(args) == 2 else 0)
            seq = self.seq(args[0])
            if isinstance(seq, (list, tuple, range)) and isinstance(start, int) and not isinstance(start, bool) \
                    and not (len(args) == 2 and kwargs):
                return list(enumerate(seq, start))
            raise _Unmodelled(f"`{unparse(c)[:50]}`")
        if kwargs and n in known:
            raise _Unmodelled(f"`{unparse(c)[:50]}`")
        if n == "int" and len(args) == 1 and ints:
            return args[0]
        if n == "int" and len(args) == 1 and isinstance(args[0], slice) and not kwargs:
            raise _PyRaise("TypeError")
        if n == "slice" and 1 <= len(args) <= 3 and not kwargs \
                and all(a is None or (isinstance(a, int) and not isinstance(a, bool)) for a in args):
            return slice(*args)
        if n == "bool" and len(args) == 1:
            return self.truth(args[0])
        if n == "len" and len(args) == 1:
            seq = self.seq(args[0])
            if isinstance(seq, (list, tuple, range)):
                return len(seq)
        if n in ("min", "max", "abs") and args and ints:
            return {"min": min, "max": max, "abs": abs}[n](*args)
        if n in ("min", "max") and len(args) == 1 and isinstance(args[0], (list, tuple, range)) and args[0] \
                and all(isinstance(a, int) and not isinstance(a, bool) for a in args[0]):
            return {"min": min, "max": max}[n](args[0])
        if n == "divmod" and len(args) == 2 and ints and args[1] != 0:
            return divmod(*args)
        if n == "range" and args and ints:
            try:
                return range(*args)
            except (TypeError, ValueError):
                raise _PyRaise("ValueError")
        if n == "zip" and args:
            seqs = [self.seq(a) for a in args]
            if all(isinstance(s, (list, tuple, range)) for s in seqs):
                return list(zip(*seqs))
        if n in ("list", "tuple", "reversed", "iter") and len(args) == 1:
            seq = self.seq(args[0])
            if isinstance(seq, (list, tuple, range)):
                return list(reversed(seq)) if n == "reversed" else list(seq)
        if n in ("list", "tuple") and not args:
            return []
        if n in ("any", "all") and len(args) == 1 and isinstance(args[0], (list, tuple)):
            return {"any": any, "all": all}[n](self.truth(x) for x in args[0])
        if n == "getattr" and len(args) >= 2 and isinstance(args[0], _Ent) and args[1] is _ORDERING_ATTR:
            return self.pos.get(args[0])
        if n == "setattr" and len(args) == 3 and isinstance(args[0], _Ent) and args[1] is _ORDERING_ATTR:
            self.pos[args[0]] = args[2]
            return None
        if n in known:
            raise _Unmodelled(f"`{unparse(c)[:50]}`")
        if n in ("IndexError", "ValueError", "TypeError", "KeyError", "Exception", "AssertionError"):
            return _Opaque()
        return _Opaque()          # module-level helper (collection_adapter(self), util.warn ...): assumed effect-free

    # ---- verdict
    def mismatch(self):
        for i, e in enumerate(self.items):
            if self.pos.get(e) != i:
                return i, e
        return None


def _ol_inputs(kinds, n):
    """argument tuples for one list-API shape, as (label, maker(model) -> args)"""
    rng = range(-(n + 2), n + 3)
    if kinds == ["new"]:
        return [("new", lambda m: [_Ent("new")])]
    if kinds == ["index", "new"]:
        return [(f"{i}, new", lambda m, i=i: [i, _Ent("new")]) for i in rng]
    if kinds == ["index?"]:
        return [("", lambda m: [])] + [(f"{i}", lambda m, i=i: [i]) for i in rng]
    if kinds == ["index"]:
        return [(f"{i}", lambda m, i=i: [i]) for i in rng]
    if kinds == ["member"]:
        return [(f"e{i}", lambda m, i=i: [m.items[i]]) for i in range(n)] + [("absent", lambda m: [_Ent("absent")])]
    if kinds == []:
        return [("", lambda m: [])]
    if kinds and kinds[0] == "slice":
        bounds = [None] + list(range(-(n + 1), n + 2))
        out = []
        for st in (None, 1, 2, -1, -2):
            for a in bounds:
                for b in bounds:
                    sl = slice(a, b, st)
                    lab = f"slice({a}, {b}, {st})"
                    if kinds == ["slice"]:
                        out.append((lab, lambda m, sl=sl: [sl]))
                    elif kinds == ["slice", "news"]:
                        # as many new entities as the slice selects (the only length an extended slice accepts), and one
                        # more / one less for a plain slice (the list grows / shrinks)
                        k = len(range(*sl.indices(n)))
                        for cnt in sorted({k} | ({max(k - 1, 0), k + 1} if st in (None, 1) else set())):
                            out.append((f"{lab}, [{cnt} new]", lambda m, sl=sl, cnt=cnt: [sl, [_Ent(f"new{j}") for j in range(cnt)]]))
                    else:
                        raise _Unmodelled(f"argument shape {kinds}")
        return out
    raise _Unmodelled(f"argument shape {kinds}")


def _slices_reach_override(ctx, decs, m):
    """(bool, why): can the OrderingList override of `m` be entered with a SLICE index when the list is an instrumented
    relationship collection?  The instrumented wrapper of orm.collections (C38's decorators) wraps the override: if it hands
    a slice on to the wrapped method (`fn(self, index)` reachable when `isinstance(index, slice)`) the override has to cope
    with it; if it decomposes the slice into int-index calls itself, the override's own slice branch is never entered."""
    if m not in decs:
        return True, "no instrumented wrapper: the override is called directly"
    d, w, fnparam = decs[m]
    ps = [a.arg for a in w.args.args]
    if len(ps) < 2:
        return True, "wrapper signature not understood: assumed to pass slices on"
    idx = ps[1]

    def fact(e):
        if isinstance(e, ast.Call) and isinstance(e.func, ast.Name) and e.func.id == "isinstance" and len(e.args) == 2 \
                and isinstance(e.args[0], ast.Name) and e.args[0].id == idx and unparse(e.args[1]) == "slice":
            return True
        return None
    g = ctx.cfg(w)
    cut = tri_edges(g, fact)
    reach = g.reachable([g.entry], edge_ok=lambda a, b, l: (a, l) not in cut)
    calls = [c for c in calls_in(w) if call_name(c) == fnparam and len(c.args) >= 2
             and isinstance(c.args[1], ast.Name) and c.args[1].id == idx]
    hit = any(i in reach for c in calls for i in g.nodes_containing(c))
    return hit, (f"the instrumented wrapper passes a slice on to the override (`{fnparam}(self, {idx}, ..)`)" if hit else
                 f"the instrumented wrapper of orm.collections decomposes a slice into int-index calls and never passes it to the override")


@R.rule("C50-R3", floor=8, template="T-MODEL",
        desc="small-scope model check by abstract execution of OrderingList's source: for every overridden list mutator, "
             "every list length 0..3, every int index in [-(n+2), n+2] (Python semantics: negative counts from the end, "
             "insert clamps), for __delitem__/__setitem__ also every slice with bounds None or in [-(n+1), n+1] and step "
             "None, 1, 2, -1, -2 (a negative step walks downwards), and both reorder_on_append settings, the operation ends -- normally or by the builtin's "
             "IndexError/ValueError -- with position == index for EVERY element of the list, the new one included")
def r3(ctx):
    cls = ctx.index.cls(f"{OL}::OrderingList")
    members, order_only = python_mutators("list")
    done = 0
    decs = _coll_decorators(ctx, _coll_interfaces(ctx)["list"])
    for m in members + order_only:
        f = cls.methods.get(m)
        if m not in LIST_SEM:
            continue
        if f is None or f.type_only:
            ctx.ok(f"{OL}::OrderingList.{m}:position==index", "no override to model (cover is C50-R1's business)", nontrivial=False)
            continue
        ctx.functions_analysed.add(f.key)
        key = f"{f.key}:position==index"
        worst = None
        runs = 0
        shapes = [LIST_SEM[m]["args"]]
        slices = ""
        if m in SLICE_SEM:
            yes, slices = _slices_reach_override(ctx, decs, m)
            if yes:
                shapes.append(SLICE_SEM[m]["args"])
        for n in range(0, 4):
            for roa in (False, True):
                for label, mk in [x for kinds in shapes for x in _ol_inputs(kinds, n)]:
                    model = _OLModel(cls, n, roa)
                    args = mk(model)
                    start = [repr(e) for e in model.items]
                    raised = None
                    try:
                        model.call_method(m, args)
                    except _PyRaise as ex:
                        raised = str(ex)
                    except _Unmodelled as ex:
                        ctx.require(False, f"{key}: OrderingList.{m}({label}) uses a construct outside the modelled subset: {ex}")
                    runs += 1
                    bad = model.mismatch()
                    if bad is not None:
                        i, e = bad
                        cand = (n, len(label), f"on a list of {n} ({', '.join(start) or 'empty'}; positions 0..{n - 1} correct), "
                                f"`{m}({label})`" + (f" [reorder_on_append={roa}]" if m == "append" else "")
                                + (f" raises {raised} after the list was changed and" if raised else "")
                                + f" leaves {[repr(x) for x in model.items]} with positions {[model.pos.get(x) for x in model.items]}: "
                                f"{e!r} at index {i} has position {model.pos.get(e)}")
                        if worst is None or cand[:2] < worst[:2]:
                            worst = cand
        ctx.check(worst is None, key,
                  "position != index after the operation: " + (worst[2] if worst else "")
                  + "; the wrong number is flushed and `order_by position` returns another order on reload",
                  f"{runs} modelled runs end with position == index" + (f"; slices: {slices}" if slices else ""), f.loc)
        done += 1
    ctx.require(done > 0, "no overridden list mutator of OrderingList could be modelled")


APC = {"list": ("_AssociationList", "MutableSequence"), "set": ("_AssociationSet", "MutableSet"),
       "dict": ("_AssociationDict", "MutableMapping")}
COL_ADD = {"append", "add", "insert", "extend", "update", "setdefault"}
COL_REMOVE = {"pop", "remove", "discard", "clear", "popitem"}


def _col_aliases(fn):
    al = {"self.col"}
    for n in walk_local(fn):
        if isinstance(n, ast.Assign) and unparse(n.value) == "self.col":
            for t in n.targets:
                if isinstance(t, ast.Name):
                    al.add(t.id)
    return al


def _is_col(e, al):
    return (dotted(e) or "") in al


@R.rule("C50-R2", floor=33, template="T-SIBLING",
        desc="each list/set/dict mutator of the association-proxy collections creates intermediaries via "
             "_create()/creator and inserts/removes them through self.col, or delegates to a sibling that does, "
             "or is loudly unavailable; in-place operators return self")
def r2(ctx):
    effects = load("python_mutator_effects.json")
    all_muts = {m for t in APC for part in python_mutators(t) for m in part}
    for t, (cname, abcname) in APC.items():
        cls = ctx.index.cls(f"{AP}::{cname}")
        ctx.require(abcname in cls.base_exprs, f"{cname} no longer derives from collections.abc.{abcname}: {cls.base_exprs}")
        abc_cls = getattr(_abc, abcname)
        members, order_only = python_mutators(t)
        muts = members + order_only
        eff = dict(effects[t])
        for m in order_only:
            eff[m] = "order"

        def resolved(name):
            f = ctx.index.resolve_method(cls, name)
            return f if f is not None and not f.type_only else None
        unsupported = []
        for m in muts:
            key = f"{AP}::{cname}.{m}"
            f = resolved(m)
            if f is None:
                mix = getattr(abc_cls, m, None)
                if mix is None:
                    unsupported.append(m)
                    ctx.ok(key, f"unavailable: neither defined nor an {abcname} mixin method -> the operation raises "
                                f"TypeError/AttributeError and changes nothing", nontrivial=False)
                elif getattr(mix, "__isabstractmethod__", False):
                    ctx.violation(key, f"{abcname}.{m} is an abstract primitive that {cname} does not implement", cls.loc)
                else:
                    ctx.ok(key, f"{abcname} mixin method (funnels into the overridden primitives)", nontrivial=False)
                continue
            ctx.functions_analysed.add(f.key)
            # normal form: a private helper (`self._apply_delta(want, have)` shared by three mutators) is read at its call
            # sites; the mutators themselves, the intermediary factory and the setter stay calls (the rule's vocabulary)
            f = nform(ctx, f, keep=set(all_muts) | {"_create", "creator", "_set", "setter", "_get", "getter"}, alias="dotted")
            g = ctx.cfg(f)
            if g.exit not in g.reachable([g.entry]):
                unsupported.append(m)
                ctx.ok(key, "unsupported: always raises", nontrivial=False)
                continue
            al = _col_aliases(f.node)
            creates = [c for c in calls_in(f.node) if call_name(c) in ("self._create", "self.creator")]
            col_adds, col_removes, sets = [], [], []
            for n in walk_local(f.node):
                if isinstance(n, ast.Call) and isinstance(n.func, ast.Attribute) and _is_col(n.func.value, al):
                    if n.func.attr in COL_ADD:
                        col_adds.append(n)
                    elif n.func.attr in COL_REMOVE:
                        col_removes.append(n)
                elif isinstance(n, ast.Assign):
                    for tg in n.targets:
                        if isinstance(tg, ast.Subscript) and _is_col(tg.value, al):
                            col_adds.append(n)
                elif isinstance(n, ast.Delete):
                    for tg in n.targets:
                        if isinstance(tg, ast.Subscript) and _is_col(tg.value, al):
                            col_removes.append(n)
                if isinstance(n, ast.Call) and call_name(n) in ("self._set", "self.setter") and n.args \
                        and isinstance(n.args[0], ast.Subscript) and _is_col(n.args[0].value, al):
                    sets.append(n)
            dele = [dn for dn, _ in _delegations(f.node) if dn in muts and dn != m or (dn == m and dn in ("__setitem__",))]
            dele = [dn for dn in dele if resolved(dn) is not None]
            probs = []
            # raw values must never be stored: every insertion into col carries a created intermediary
            for ins in col_adds:
                created_names = set()
                for n in walk_local(f.node):
                    if isinstance(n, ast.Assign) and isinstance(n.value, ast.Call) and call_name(n.value) in ("self._create", "self.creator"):
                        created_names |= {x.id for x in n.targets if isinstance(x, ast.Name)}
                txt_has_create = any(isinstance(x, ast.Call) and call_name(x) in ("self._create", "self.creator") for x in ast.walk(ins))
                uses_created = any(isinstance(x, ast.Name) and x.id in created_names for x in ast.walk(ins))
                if not (txt_has_create or uses_created):
                    probs.append(f"`{unparse(ins)[:60]}` inserts into the underlying collection something that was not built by "
                                 f"_create()/creator (a proxied value instead of an intermediary object)")
            e = eff[m]
            can_add = bool(creates and col_adds) or bool(sets) or any(eff.get(dn) in ("add", "both") for dn in dele)
            can_rem = bool(col_removes) or bool(sets) or any(eff.get(dn) in ("remove", "both") for dn in dele)
            if e in ("add", "both") and not can_add:
                probs.append(f"{t}.{m} adds members but the proxy neither creates an intermediary into self.col nor delegates to a sibling that does")
            if e in ("remove", "both") and not can_rem:
                probs.append(f"{t}.{m} removes members but the proxy neither removes from self.col nor delegates to a sibling that does")
            if m.startswith("__i") and m.endswith("__"):
                rets = [r for r in walk_local(f.node) if isinstance(r, ast.Return)]
                real = [r for r in rets if not (isinstance(r.value, ast.Name) and r.value.id == "NotImplemented")]
                falls = g.exit in g.reachable([g.entry], avoid=[i for r in rets for i in g.nodes_for(r)], edge_ok=no_exc)
                if falls or not real or not all(isinstance(r.value, ast.Name) and r.value.id == "self" for r in real):
                    probs.append("in-place operator does not return self (the parent attribute would be rebound / set to None)")
            how = []
            if creates and col_adds:
                how.append("create->col")
            if sets:
                how.append("setter on existing intermediary")
            if col_removes:
                how.append("col removal")
            if dele:
                how.append("delegates:" + ",".join(sorted(set(dele))))
            ctx.check(not probs, key, "; ".join(probs), " ".join(how), f.loc)
        if unsupported:
            ctx.note(f"{cname}: operations that are loudly unavailable (raise): {unsupported}")


# ------------------------------------------------------- C50-R4: whole-collection assignment = three-way partition
#: the Venn regions of (existing collection, assigned values)
_E, _B, _V = "only-existing", "in-both", "only-new"
_SETLIKE = {"set", "frozenset", "list", "tuple", "IdentitySet", "OrderedSet", "OrderedIdentitySet", "idset", "dict"}
_ADD_CALLS = {"add", "append", "appender"}
_REM_CALLS = {"remove", "discard", "remover", "pop"}
_BULK_ADD = {"update", "extend", "_set"}


class _Venn:
    """Evaluates the set algebra of a bulk-replace routine over the three regions of (existing, values) and replays,
    region by region, what the routine does to a key of that region."""

    def __init__(self, fn, existing_names, values_name):
        self.fn = fn
        self.env = {n: frozenset({_E, _B}) for n in existing_names}
        self.env[values_name] = frozenset({_B, _V})
        self.alias = {}      # local -> dotted callee (appender = self.add)
        # per region: is a key of that region in the resulting collection, and was its value (re)assigned?
        self.present = {_E: True, _B: True, _V: False}
        self.fresh = {_E: False, _B: False, _V: False}
        self.unknown = []

    def regions(self, e):
        if isinstance(e, ast.Name):
            return self.env.get(e.id)
        if isinstance(e, ast.BoolOp) and isinstance(e.op, ast.Or):
            return self.regions(e.values[0])                       # `values or ()`
        if isinstance(e, (ast.Tuple, ast.List, ast.Set)) and not e.elts:
            return frozenset()
        if isinstance(e, ast.BinOp):
            a, b = self.regions(e.left), self.regions(e.right)
            if a is None or b is None:
                return None
            return {ast.BitAnd: a & b, ast.Sub: a - b, ast.BitOr: a | b, ast.BitXor: a ^ b}.get(type(e.op))
        if isinstance(e, ast.Call):
            f = e.func
            if isinstance(f, ast.Attribute):
                recv = self.regions(f.value)
                if recv is not None:
                    if f.attr in ("items", "keys", "copy") and not e.args:
                        return recv
                    if f.attr in ("intersection", "difference", "union", "symmetric_difference") and len(e.args) == 1:
                        b = self.regions(e.args[0])
                        if b is None:
                            return None
                        return {"intersection": recv & b, "difference": recv - b, "union": recv | b,
                                "symmetric_difference": recv ^ b}[f.attr]
                    return None
            nm = (call_name(e) or "").split(".")[-1]
            nm = self.alias.get(nm, nm).split(".")[-1]
            if nm in _SETLIKE and len(e.args) == 1:
                return self.regions(e.args[0])
        return None

    def callee(self, c):
        nm = call_name(c) or ""
        if isinstance(c.func, ast.Name) and c.func.id in self.alias:
            nm = self.alias[c.func.id]
        return nm

    def effect(self, regs, kind):
        for r in regs:
            if kind == "remove":
                self.present[r], self.fresh[r] = False, False
            elif kind == "assign":
                self.present[r], self.fresh[r] = True, True
            elif kind == "add":                 # set.add / list.append of a member: a no-op for a present set member
                if not self.present[r]:
                    self.present[r], self.fresh[r] = True, True

    def run(self, body, key=None, region=None):
        for st in body:
            if isinstance(st, (ast.Assign, ast.AnnAssign)) and getattr(st, "value", None) is not None:
                tgs = st.targets if isinstance(st, ast.Assign) else [st.target]
                tg = tgs[0]
                if isinstance(tg, ast.Name):
                    r = self.regions(st.value)
                    if r is not None:
                        self.env[tg.id] = r
                        continue
                    if isinstance(st.value, ast.Call) and (call_name(st.value) or "").endswith("bulk_appender"):
                        self.alias[tg.id] = "appender"
                    elif isinstance(st.value, (ast.Name, ast.Attribute)) and dotted(st.value):
                        self.alias[tg.id] = dotted(st.value)
                    continue
                if isinstance(tg, ast.Subscript) and dotted(tg.value) == "self" and key is not None \
                        and isinstance(tg.slice, ast.Name) and tg.slice.id == key:
                    self.effect([region], "assign")
                    continue
                self.unknown.append(unparse(st)[:60])
            elif isinstance(st, ast.Delete):
                for tg in st.targets:
                    if isinstance(tg, ast.Subscript) and dotted(tg.value) == "self" and key is not None \
                            and isinstance(tg.slice, ast.Name) and tg.slice.id == key:
                        self.effect([region], "remove")
                    else:
                        self.unknown.append(unparse(st)[:60])
            elif isinstance(st, ast.Expr) and isinstance(st.value, ast.Call):
                self.call(st.value, key, region)
            elif isinstance(st, ast.Expr):
                continue
            elif isinstance(st, ast.If):
                t = self.test(st.test, key, region)
                if t is None:
                    self.unknown.append("if " + unparse(st.test)[:60])
                    # existence checks on the old collection (`if existing_adapter:`) guard event firing only
                    self.run(st.body, key, region)
                else:
                    self.run(st.body if t else st.orelse, key, region)
            elif isinstance(st, ast.For):
                regs = self.regions(st.iter)
                if regs is None or key is not None:
                    self.unknown.append("for ... in " + unparse(st.iter)[:60])
                    continue
                tg = st.target
                k = tg.id if isinstance(tg, ast.Name) else (tg.elts[0].id if isinstance(tg, ast.Tuple) and tg.elts and isinstance(tg.elts[0], ast.Name) else None)
                if k is None:
                    self.unknown.append("for target " + unparse(tg))
                    continue
                for r in sorted(regs):
                    self.run(st.body, k, r)
            elif isinstance(st, (ast.Assert, ast.Pass)):
                continue
            else:
                self.unknown.append(unparse(st)[:60])

    def test(self, t, key, region):
        if isinstance(t, ast.UnaryOp) and isinstance(t.op, ast.Not):
            v = self.test(t.operand, key, region)
            return None if v is None else not v
        if isinstance(t, ast.BoolOp):
            vs = [self.test(v, key, region) for v in t.values]
            if any(v is None for v in vs):
                return None
            return all(vs) if isinstance(t.op, ast.And) else any(vs)
        if isinstance(t, ast.Compare) and len(t.ops) == 1 and isinstance(t.ops[0], (ast.In, ast.NotIn)) \
                and isinstance(t.left, ast.Name) and t.left.id == key:
            regs = self.regions(t.comparators[0])
            if regs is None:
                return None
            return (region in regs) == isinstance(t.ops[0], ast.In)
        return None

    def call(self, c, key, region):
        nm = self.callee(c)
        last = nm.split(".")[-1]
        a0 = c.args[0] if c.args else None
        if key is not None and isinstance(a0, ast.Name) and a0.id == key:
            if last in _ADD_CALLS:
                return self.effect([region], "add")
            if last in _REM_CALLS:
                return self.effect([region], "remove")
        if key is None:
            if nm == "self.clear" and not c.args:
                return self.effect([_E, _B], "remove")
            for a in c.args:
                regs = self.regions(a)
                if regs is not None and not (isinstance(a, ast.Name) and a.id == "self"):
                    if last in _BULK_ADD:
                        return self.effect(sorted(regs), "assign")
                    if "remove" in last:
                        return self.effect(sorted(regs), "remove")
                    if "append" in last:
                        return None            # event-only helper for members that stay
        self.unknown.append(unparse(c)[:60])


@R.rule("C50-R4", floor=5, template="T-SIBLING",
        desc="whole-collection assignment: every _bulk_replace of the association-proxy collections (and "
             "orm.collections.bulk_replace) treats all three regions of (existing, new) -- keys only in the old collection "
             "are removed, keys only in the new one are created, and keys in BOTH stay present; for the dict proxy the "
             "kept keys are re-assigned (their value may differ) -- decided by evaluating the routine's set algebra over "
             "the Venn regions and replaying its loops per region")
def r4(ctx):
    ix = ctx.index
    m = ix.module(AP)
    fam = [f for f in ix.all_functions(m) if f.name == "_bulk_replace" and f.cls is not None and not f.type_only]
    ctx.require(len(fam) >= 3, f"only {len(fam)} _bulk_replace implementations found in {AP}")
    jobs = [(f, ["self"], f.params[-1], "dict" if ix.is_subclass(f.cls, ix.cls(f"{AP}::_AssociationDict")) else "members") for f in fam]
    ob = ix.func("orm/collections.py::bulk_replace")
    ctx.require(len(ob.params) >= 3, "orm.collections.bulk_replace signature not understood")
    jobs.append((ob, [ob.params[1]], ob.params[0], "fresh"))
    # the list proxy's routine is clear() + AssociationProxyInstance._set(proxy, values): _set has to hand ALL the values to
    # the proxy's bulk adder for each builtin collection type
    sf = ix.func(f"{AP}::AssociationProxyInstance._set")
    ctx.functions_analysed.add(sf.key)
    vals = sf.params[-1]
    branches = [n for n in ast.walk(sf.node) if isinstance(n, ast.If) and "collection_class is" in unparse(n.test)]
    ctx.require(branches, f"{sf.key}: dispatch on collection_class not found")
    bad = [unparse(b.test) for b in branches
           if not any(isinstance(c.func, ast.Attribute) and c.func.attr in ("extend", "update") and len(c.args) == 1
                      and isinstance(c.args[0], ast.Name) and c.args[0].id == vals for st in b.body for c in calls_in(st))]
    ctx.check(not bad, f"{sf.key}:bulk-add", f"branch `{'`, `'.join(bad)}` does not pass the assigned values to the proxy's extend()/update()",
              f"{len(branches)} collection types -> proxy.extend/update({vals})", sf.loc)
    for f, existing, values, mode in jobs:
        ctx.functions_analysed.add(f.key)
        v = _Venn(f.node, existing, values)
        if mode == "fresh":
            # the new adapter starts empty: every assigned value has to be appended to it
            v.present = {_E: False, _B: False, _V: False}
        v.run(f.node.body)
        probs = []
        if v.present[_E] and mode != "fresh":
            probs.append("a key/member that is only in the OLD collection is never removed")
        if not v.present[_V]:
            probs.append("a key/member that is only in the NEW value is never created")
        if not v.present[_B]:
            probs.append("a key/member that is in both the old collection and the new value is missing afterwards")
        elif mode == "dict" and not v.fresh[_B]:
            probs.append("a key that is in both the old dict and the new value is not re-assigned: it keeps its OLD value although "
                         "the assigned mapping may give it another one (`obj.proxy = {k: new}` leaves proxy[k] == old, and the "
                         "association row keeps the stale value)")
        if probs:
            ctx.violation(f"{f.key}:partition", "; ".join(probs), f.loc)
        else:
            # a verdict needs the routine to be understood; constructs we skipped matter only when nothing fired
            hard = [u for u in v.unknown if not u.startswith("if ")]
            ctx.require(not hard, f"{f.key}: bulk replace uses constructs the region replay does not understand: {hard}")
            ctx.ok(f"{f.key}:partition", f"old-only removed, new-only created, kept {'re-assigned' if v.fresh[_B] else 'present'}")


# ------------------------------------- C50-R5: the proxy collections against the builtin collections, input by input
COLL_ARGS = {k: v for k, v in load("python_collection_mutator_arguments.json").items() if k != "_comment"}
_UNIVERSE = (1, 2, 3)
_KEYS = ("a", "b", "c")
_INITIAL = {
    "set": ([], [1], [1, 2]),
    "list": ([], [1], [1, 2], [1, 2, 1], [1, 2, 3]),
    "dict": ([], [("a", 1)], [("a", 1), ("b", 2)]),
}


def _iterables(maxlen):
    out = [[]]
    layer = [[]]
    for _ in range(maxlen):
        layer = [x + [v] for x in layer for v in _UNIVERSE]
        out += layer
    return out


def _slices(n, steps=(None, 2, -1)):
    # (step 1 is step None)
    bounds = [None] + list(range(-(n + 1), n + 2))
    return [slice(a, b, st) for st in steps for a in bounds for b in bounds]


def _model_inputs(shape, n):
    """[(label, args, kwargs)] for one argument shape of a builtin collection API (n = current size)"""
    rng = range(-(n + 2), n + 3)
    if shape in ("element", "value"):
        return [(repr(v), [v], {}) for v in _UNIVERSE]
    if shape == "none":
        return [("", [], {})]
    if shape == "iterable":
        # any iterable: lists WITH REPEATS included (a set operation treats the argument as the set of its elements)
        return [(repr(x), [x], {}) for x in _iterables(3)]
    if shape == "iterables":
        short = _iterables(1)
        return [("", [], {})] + [(repr(x), [x], {}) for x in _iterables(3)] + [(f"{a!r}, {b!r}", [a, b], {}) for a in short for b in short] \
            + [("[1, 2], [2, 3]", [[1, 2], [2, 3]], {}), ("[1, 1, 2], [2]", [[1, 1, 2], [2]], {})]
    if shape == "set":
        return [(repr(set(x)) if x else "set()", [set(x)], {}) for x in ([], [1], [2], [3], [1, 2], [1, 3], [2, 3], [1, 2, 3])]
    if shape == "index":
        return [(str(i), [i], {}) for i in rng]
    if shape == "index?":
        return [("", [], {})] + [(str(i), [i], {}) for i in rng]
    if shape == "index,value":
        return [(f"{i}, 9", [i, 9], {}) for i in rng]
    if shape == "slice":
        return [(repr(sl), [sl], {}) for sl in _slices(n)]
    if shape == "slice,iterable":
        out = []
        for sl in _slices(n):
            k = len(range(*sl.indices(n)))
            for cnt in sorted({k, 0} | ({k + 1, max(k - 1, 0)} if sl.step in (None, 1) else set())):
                out.append((f"{sl!r}, {[7, 8, 9, 6][:cnt]!r}", [sl, [7, 8, 9, 6][:cnt]], {}))
        return out
    if shape == "int":
        return [(str(i), [i], {}) for i in (-1, 0, 1, 2, 3)]
    if shape == "key":
        return [(repr(k), [k], {}) for k in _KEYS]
    if shape == "key,value":
        return [(f"{k!r}, 9", [k, 9], {}) for k in _KEYS]
    if shape == "key,default":
        return [(f"{k!r}, 9", [k, 9], {}) for k in _KEYS] + [(f"{k!r}, None", [k, None], {}) for k in _KEYS[:2]]
    if shape in ("mappings", "mapping"):
        maps = [{}, {"a": 9}, {"c": 9}, {"a": 8, "c": 9}, {"b": 8, "a": 9}]
        out = [(repr(m), [dict(m)], {}) for m in maps]
        if shape == "mappings":
            out += [("", [], {})]
            out += [(repr(list(m.items())), [list(m.items())], {}) for m in maps[1:]]
            out += [("[('a', 8), ('a', 9)]", [[("a", 8), ("a", 9)]], {}), ("[('c', 8), ('c', 9)]", [[("c", 8), ("c", 9)]], {})]
            out += [("a=9", [], {"a": 9}), ("c=9", [], {"c": 9}), ("{'a': 8}, a=9, c=7", [{"a": 8}], {"a": 9, "c": 7})]
        return out
    raise _MUnsupported(f"argument shape {shape}")


def _copy_arg(a):
    if isinstance(a, list):
        return [tuple(x) if isinstance(x, tuple) else x for x in a]
    if isinstance(a, (set, dict)):
        return type(a)(a)
    return a


_BUILTIN = {"set": set, "list": list, "dict": dict}
_PROXY_OF = {"set": "_AssociationSet", "list": "_AssociationList", "dict": "_AssociationDict"}
_RETURNS_VALUE = {("list", "pop"), ("dict", "pop"), ("dict", "popitem"), ("dict", "setdefault")}


@R.rule("C50-R5", floor=30, template="T-MODEL",
        desc="small-scope model check of the association-proxy collections by abstract execution of their own source (and of every "
             "helper / inherited method they call) over a model of the underlying collection, creator, getter and setter: for "
             "every mutator of the builtin set / list / dict that the proxy defines, every small proxy content and every argument "
             "the builtin accepts -- single values, int indexes in and out of range, slices with negative bounds and steps, "
             "arbitrary iterables up to length 3 WITH repeated elements, several iterables, sets for the operators, mappings / "
             "pair lists / keywords for update -- the proxied values afterwards are exactly what the builtin collection holds "
             "after the same call (no value missing, none left over, none twice, same order for lists), the same exception is "
             "raised, value-returning mutators return the same value and in-place operators return the proxy")
def r5(ctx):
    done = 0
    for kind in ("set", "list", "dict"):
        cname = _PROXY_OF[kind]
        cls = ctx.index.cls(f"{AP}::{cname}")
        members, order_only = python_mutators(kind)
        for m in members + order_only:
            key = f"{AP}::{cname}.{m}:{kind}-model"
            if m not in COLL_ARGS[kind]:
                continue
            f = ctx.index.resolve_method(cls, m)
            if f is None or f.type_only:
                ctx.ok(key, "not defined inside the package (collections.abc mixin or unavailable: C50-R2's business)", nontrivial=False)
                continue
            ctx.functions_analysed.add(f.key)
            worst, runs, bad, unavailable = None, 0, 0, True
            for initial in _INITIAL[kind]:
                for shape in COLL_ARGS[kind][m]:
                    if shape.startswith("slice") and len(set(initial)) != len(initial) and not ctx.thorough:
                        continue            # (quick tier: slices on duplicate-free contents only -- the time budget)
                    for label, args, kwargs in _model_inputs(shape, len(initial)):
                        model = ProxyExec(ctx, cls, kind, initial)
                        ref = _BUILTIN[kind](initial)
                        raised = ref_raised = None
                        ret = ref_ret = None
                        try:
                            ret = model.call_proxy(m, [_copy_arg(a) for a in args], dict(kwargs))
                        except _MRaise as ex:
                            raised = etype_of(ex)
                        except _MUnsupported as ex:
                            ctx.require(False, f"{key}: `{m}({label})` on a proxy over {initial!r} uses a construct outside the "
                                               f"modelled subset: {ex}")
                        try:
                            ref_ret = getattr(ref, m)(*[_copy_arg(a) for a in args], **kwargs)
                        except Exception as ex:        # the builtin's own verdict on this input (KeyError, IndexError, ...)
                            ref_raised = type(ex).__name__
                        runs += 1
                        if raised != "NotImplementedError":
                            unavailable = False
                        vals = model.values()
                        shown = sorted(vals) if kind == "set" else vals
                        what = None
                        if model.raw_members():
                            what = "stores something in the underlying collection that was not built by the creator"
                        elif raised != ref_raised:
                            what = (f"raises {raised}" if raised else "returns normally") + f" but the builtin {kind} " + \
                                   (f"raises {ref_raised}" if ref_raised else "returns normally")
                            if raised is None or ref_raised is None:
                                what += f" (proxy: {shown}, builtin: {sorted(ref) if kind == 'set' else ref})"
                        elif kind == "set" and m == "pop" and raised is None:
                            if ret not in initial or sorted(vals) != sorted(set(initial) - {ret}):
                                what = f"returns {ret!r} and leaves {shown}: not 'remove and return one member'"
                        elif kind == "set" and len(vals) != len(set(vals)):
                            what = f"leaves the proxied values {shown}: a value occurs twice (two association rows for one member)"
                        elif (set(vals) != ref) if kind == "set" else (vals != ref):
                            what = f"leaves the proxied values {shown} but the builtin {kind} holds {sorted(ref) if kind == 'set' else ref}"
                        elif m.startswith("__i") and raised is None and ret is not model.proxy:
                            what = "does not return the proxy itself (the attribute would be rebound)"
                        elif (kind, m) in _RETURNS_VALUE and raised is None and ret != ref_ret:
                            what = f"returns {ret!r} but the builtin {kind} returns {ref_ret!r}"
                        if what:
                            bad += 1
                            size = sum(len(a) if hasattr(a, "__len__") else 1 for a in args)
                            cand = (len(initial) + size, f"on a proxy over {initial!r}, `{m}({label})` {what}")
                            if worst is None or cand[0] < worst[0]:
                                worst = cand
            if unavailable and runs:
                ctx.ok(key, "loudly unavailable (always raises NotImplementedError)", nontrivial=False)
                continue
            ctx.check(worst is None, key,
                      (f"differs from the builtin {kind} on {bad} of {runs} modelled calls, e.g. " + worst[1] if worst else "")
                      + "; the intermediary objects created / removed -- and with them the persisted association rows -- differ "
                      f"from the {kind} the proxy stands for",
                      f"{runs} modelled calls agree with the builtin {kind}", f.loc)
            done += 1
    ctx.require(done > 0, "no mutator of the association-proxy collections could be modelled")


# ------------------------------------------------------------------------------------- self-test
R.mutant("ol-insert-no-reorder", OL,
         sub("        super().insert(index, entity)\n        self._reorder()\n", "        super().insert(index, entity)\n"), "C50-R1")
R.mutant("ol-pop-override-removed", OL,
         sub("    def pop(self, index: SupportsIndex = -1) -> _T:\n        entity = super().pop(index)\n        self._reorder()\n        return entity\n\n", ""),
         "C50-R1")
R.mutant("ol-delitem-reorder-conditional", OL,
         sub("        super().__delitem__(index)\n        self._reorder()\n", "        super().__delitem__(index)\n        if isinstance(index, slice):\n            self._reorder()\n"),
         "C50-R1")
R.mutant("ol-append-override-removed", OL,
         sub("    def append(self, entity: _T) -> None:\n        super().append(entity)\n        self._order_entity(len(self) - 1, entity, self.reorder_on_append)\n\n", ""),
         "C50-R1")
R.mutant("aplist-append-raw-value", AP,
         sub("        col = self.col\n        item = self._create(value)\n        col.append(item)\n", "        col = self.col\n        col.append(value)\n"),
         "C50-R2")
R.mutant("apset-discard-noop", AP,
         sub("            if self._get(member) == __element:\n                self.col.discard(member)\n                break\n",
             "            if self._get(member) == __element:\n                break\n"),
         "C50-R2")
R.mutant("aplist-iadd-no-return", AP,
         sub("        self.extend(iterable)\n        return self\n", "        self.extend(iterable)\n"), "C50-R2")
R.mutant("apdict-clear-on-copy", AP,
         sub("    def clear(self) -> None:\n        self.col.clear()\n\n    def __eq__(self, other: object) -> bool:\n        return dict(self) == other\n",
             "    def clear(self) -> None:\n        dict(self.col).clear()\n\n    def __eq__(self, other: object) -> bool:\n        return dict(self) == other\n"),
         "C50-R2")
R.mutant("apdict-setdefault-raw", AP,
         sub("            self.col[key] = self._create(key, default)\n            return default", "            self.col[key] = default\n            return default"),
         "C50-R2")
# benign
R.mutant("benign-ol-rename-local", OL,
         sub("        entity = super().pop(index)\n        self._reorder()\n        return entity\n", "        popped = super().pop(index)\n        self._reorder()\n        return popped\n"),
         None)
R.mutant("benign-ol-sort-override", OL,
         sub("    def __reduce__(self) -> Any:\n",
             "    def sort(self, **kw: Any) -> None:\n        super().sort(**kw)\n        self._reorder()\n\n    def reverse(self) -> None:\n        super().reverse()\n        self._reorder()\n\n    def __reduce__(self) -> Any:\n"),
         None)
R.mutant("benign-ap-append-inline", AP,
         sub("        col = self.col\n        item = self._create(value)\n        col.append(item)\n", "        self.col.append(self._create(value))\n"),
         None)

# ---- adversarial seeds (str-s)
INS = "        super().insert(index, entity)\n        self._reorder()\n"
R.mutant("seed1-ol-insert-renumbers-tail-from-post-insert-length", OL,
         sub(INS, "        super().insert(index, entity)\n        start = int(index)\n        if start < 0:\n            start = max(start + len(self), 0)\n"
                  "        for i in range(min(start, len(self) - 1), len(self)):\n            self._order_entity(i, self[i], True)\n"), "C50-R3")
R.mutant("ol-insert-numbers-new-entity-only", OL,
         sub(INS, "        super().insert(index, entity)\n        self._order_entity(int(index), entity, True)\n"), "C50-R1")
R.mutant("ol-pop-renumbers-tail-from-raw-index", OL,
         sub("        entity = super().pop(index)\n        self._reorder()\n",
             "        entity = super().pop(index)\n        for i in range(int(index), len(self)):\n            self._order_entity(i, self[i], True)\n"), "C50-R3")
R.mutant("ol-order-entity-keeps-stale-when-reorder", OL,
         sub("        if have is not None and not reorder:\n            return\n", "        if have is not None and reorder:\n            return\n"), "C50-R3")
R.mutant("ol-reorder-counts-from-one", OL,
         sub("        for index, entity in enumerate(self):\n            self._order_entity(index, entity, True)\n",
             "        for index, entity in enumerate(self, 1):\n            self._order_entity(index, entity, True)\n"), "C50-R3")
R.mutant("ol-delitem-reorder-before-delete", OL,
         sub("        super().__delitem__(index)\n        self._reorder()\n", "        self._reorder()\n        super().__delitem__(index)\n"), "C50-R3")
# the same optimisation done right: the start is normalised against the PRE-insert length
R.mutant("benign-ol-insert-renumbers-tail-correctly", OL,
         sub(INS, "        before = len(self)\n        super().insert(index, entity)\n        start = int(index)\n        if start < 0:\n            start = max(start + before, 0)\n"
                  "        for i in range(min(start, before), len(self)):\n            self._order_entity(i, self[i], True)\n"), None)
R.mutant("benign-ol-insert-inlines-reorder", OL,
         sub(INS, "        super().insert(index, entity)\n        for i, member in enumerate(self):\n            self._order_entity(i, member, True)\n"), None)
# the repair of the C50-R3 finding must be accepted
_SETPOS = ("            position = int(index)  # type: ignore[arg-type]\n"
           "            if position < 0:\n"
           "                # plain-list semantics: a negative index counts from the end\n"
           "                position += len(self)\n"
           "            self._order_entity(position, entity, True)\n")
R.mutant("benign-ol-setitem-normalises-negative-index", OL,
         sub(_SETPOS, "            position = int(index)  # type: ignore[arg-type]\n"
                      "            position = position + len(self) if position < 0 else position\n"
                      "            self._order_entity(position, entity, True)\n"), None)
# (what the tree had before the repair)
R.mutant("ol-setitem-negative-index-not-normalised", OL,
         sub(_SETPOS, "            self._order_entity(int(index), entity, True)  # type: ignore[arg-type] # noqa: E501\n"), "C50-R3")
DCONST = "            elif key in constants:\n                self[key] = member\n"
SCONST = "            elif member in constants:\n                appender(member)\n"
R.mutant("seed2-apdict-bulk-replace-skips-kept-keys", AP, chain(sub(DCONST, ""), sub(SCONST, "")), "C50-R4")
R.mutant("apdict-bulk-replace-skips-kept-keys", AP, sub(DCONST, ""), "C50-R4")
R.mutant("apset-bulk-replace-never-removes", AP,
         sub("        for member in removals:\n            remover(member)\n", ""), "C50-R4")
R.mutant("apdict-bulk-replace-removes-kept-keys-too", AP,
         sub("        removals = existing.difference(constants)\n\n        for key, member in values.items() or ():",
             "        removals = existing\n\n        for key, member in values.items() or ():"), "C50-R4")
R.mutant("apset-bulk-replace-adds-only-kept", AP,
         sub("            if member in additions:\n                appender(member)\n            elif member in constants:\n                appender(member)\n",
             "            if member in constants:\n                appender(member)\n"), "C50-R4")
R.mutant("orm-bulk-replace-skips-kept-members", "orm/collections.py",
         sub("        elif member in constants:\n            appender(member, _sa_initiator=False)\n", ""), "C50-R4")
R.mutant("ap-set-dispatch-list-drops-values", AP,
         sub("            cast(\"_AssociationList[Any]\", proxy).extend(values)\n", "            cast(\"_AssociationList[Any]\", proxy).extend(())\n"), "C50-R4")
# for the SET proxy re-adding a member that stays is a no-op: dropping that branch alone changes nothing
R.mutant("benign-apset-bulk-replace-skips-kept-members", AP, sub(SCONST, ""), None)
R.mutant("benign-apdict-additions-as-difference-with-existing", AP,
         sub("        removals = existing.difference(constants)\n\n        for key, member in values.items() or ():",
             "        removals = existing - constants\n\n        for key, member in values.items() or ():"), None)
R.mutant("benign-apdict-bulk-replace-assigns-every-value", AP,
         sub("            if key in additions:\n                self[key] = member\n" + DCONST, "            self[key] = member\n"), None)

# ---- robustify (rob-H1): behaviour-preserving refactorings that must stay silent, and the same shapes broken
_OE_OLD = ("        have = self._get_order_value(entity)\n\n        # Don't disturb existing ordering if reorder is False\n"
           "        if have is not None and not reorder:\n            return\n\n"
           "        should_be = self.ordering_func(index, self)\n        if have != should_be:\n"
           "            self._set_order_value(entity, should_be)\n")


def _oe_new(guard):
    return ("        current = self._get_order_value(entity)\n\n"
            f"        if {guard}:\n            ordering_func = self.ordering_func\n"
            "            expected = ordering_func(index, self)\n            if current != expected:\n"
            "                self._set_order_value(entity, expected)\n")


_RM_OLD = "        if adapter and adapter._referenced_by_owner:\n            self._reorder()\n"
_RM_FULL = ("    def remove(self, entity: _T) -> None:\n        super().remove(entity)\n\n"
            "        adapter = collection_adapter(self)\n" + _RM_OLD)
# rfH_1: renamed locals, early return -> positive guard, bound-method alias for ordering_func; compound `and` split
R.mutant("benign-rob-order-entity-positive-guard-func-alias", OL, sub(_OE_OLD, _oe_new("reorder or current is None")), None)
R.mutant("benign-rob-remove-owner-test-nested", OL,
         sub(_RM_OLD, "        if adapter:\n            if adapter._referenced_by_owner:\n                self._reorder()\n"), None)
R.mutant("benign-rob-remove-owner-test-early-return", OL,
         sub(_RM_OLD, "        if not adapter or not adapter._referenced_by_owner:\n            return\n        self._reorder()\n"), None)
R.mutant("benign-rob-remove-owner-test-boolean-local", OL,
         sub(_RM_OLD, "        attached = adapter is not None and adapter._referenced_by_owner\n        if attached:\n            self._reorder()\n"), None)
R.mutant("benign-rob-remove-renumbering-in-helper", OL,
         sub(_RM_FULL, "    def remove(self, entity: _T) -> None:\n        super().remove(entity)\n        self._renumber_if_owned()\n\n"
                       "    def _renumber_if_owned(self) -> None:\n        adapter = collection_adapter(self)\n" + _RM_OLD), None)
R.mutant("benign-rob-reorder-while-loop-keyword-argument", OL,
         sub("        for index, entity in enumerate(self):\n            self._order_entity(index, entity, True)\n",
             "        index = 0\n        while index < len(self):\n            self._order_entity(index, self[index], reorder=True)\n            index += 1\n"), None)
R.mutant("benign-rob-pop-renumbers-in-finally-of-success", OL,
         sub("        entity = super().pop(index)\n        self._reorder()\n        return entity\n",
             "        entity = super().pop(index)\n        try:\n            return entity\n        finally:\n            self._reorder()\n"), None)
# ... and the same shapes with the property broken
R.mutant("rob-order-entity-positive-guard-wrong-connective", OL, sub(_OE_OLD, _oe_new("reorder and current is None")), "C50-R3")
R.mutant("rob-remove-nested-owner-test-inverted", OL,
         sub(_RM_OLD, "        if adapter:\n            if not adapter._referenced_by_owner:\n                self._reorder()\n"), "C50-R1")
R.mutant("rob-remove-helper-renumbers-only-when-not-owned", OL,
         sub(_RM_FULL, "    def remove(self, entity: _T) -> None:\n        super().remove(entity)\n        self._renumber_if_owned()\n\n"
                       "    def _renumber_if_owned(self) -> None:\n        adapter = collection_adapter(self)\n"
                       "        if adapter and adapter._referenced_by_owner:\n            return\n        self._reorder()\n"), "C50-R1")
R.mutant("rob-reorder-while-loop-skips-first", OL,
         sub("        for index, entity in enumerate(self):\n            self._order_entity(index, entity, True)\n",
             "        index = 1\n        while index < len(self):\n            self._order_entity(index, self[index], reorder=True)\n            index += 1\n"), "C50-R3")
# rfH_2: the triplicated remove/add delta block of _AssociationSet extracted into one helper
_DELTA = ("remove, add = have - want, want - have\n\n{i}for value in remove:\n{i}    self.remove(value)\n"
          "{i}for value in add:\n{i}    self.add(value)\n")
_DELTA_DEF = ("    def _apply_delta(self, want: Set[Any], have: Set[Any]) -> None:\n        remove, add = have - want, want - have\n\n"
              "        for value in remove:\n            self.remove(value)\n{add}\n")
_DELTA_ADD = "        for value in add:\n            self.add(value)\n"
_IU = "    def intersection_update(self, *s: Iterable[Any]) -> None:\n"


def _delta_refactor(helper_def, call8="self._apply_delta(want, have)\n", call12=None):
    return chain(sub("        " + _DELTA.format(i="        "), "        " + call8, count=2),
                 sub("            " + _DELTA.format(i="            "), "            " + (call12 or call8)),
                 sub(_IU, helper_def + _IU))


R.mutant("benign-rob-apset-delta-block-in-helper", AP, _delta_refactor(_DELTA_DEF.format(add=_DELTA_ADD)), None)
R.mutant("benign-rob-apset-delta-block-in-module-function", AP,
         chain(_delta_refactor("", "_apply_set_delta(self, want, have)\n"),
               sub("class _AssociationSet(", "def _apply_set_delta(proxy: Any, want: Set[Any], have: Set[Any]) -> None:\n"
                                              "    for value in have - want:\n        proxy.remove(value)\n"
                                              "    for value in want - have:\n        proxy.add(value)\n\n\nclass _AssociationSet(")), None)
R.mutant("rob-apset-delta-helper-never-adds", AP, _delta_refactor(_DELTA_DEF.format(add="")), "C50-R2")


# ---- round-2 adversarial seeds (str2-u)
# seed 3: __delitem__ renumbers only "the tail" -- right for ints and ascending slices, wrong for a NEGATIVE-step slice
# (slice.indices()[0] is then the highest deleted index).  Caught by the slice inputs of the C50-R3 model.
_DEL = "        super().__delitem__(index)\n        self._reorder()\n"
_DEL_INT = ("            first = int(index)  # type: ignore[arg-type]\n"
            "            if first < 0:\n"
            "                first += len(self)\n")
_DEL_TAIL = ("        super().__delitem__(index)\n"
             "        for position in range(first, len(self)):\n"
             "            self._order_entity(position, self[position], True)\n")
_DEL_LOWEST = ("            hit = range(*index.indices(len(self)))\n"
               "            first = min(hit) if hit else len(self)\n")
R.mutant("seed3-ol-delitem-renumbers-tail-from-slice-start", OL,
         sub(_DEL, "        if isinstance(index, slice):\n            first = index.indices(len(self))[0]\n        else:\n" + _DEL_INT + _DEL_TAIL), "C50-R3")
R.mutant("ol-delitem-renumbers-tail-from-slice-start-helper-inverted", OL, chain(
    sub(_DEL, "        if not isinstance(index, slice):\n" + _DEL_INT + "        else:\n            bounds = index.indices(len(self))\n            first = bounds[0]\n"
              "        super().__delitem__(index)\n        self._renumber_from(first)\n"),
    sub("    def sort(self, **kw: Any) -> None:\n",
        "    def _renumber_from(self, first: int) -> None:\n        for position in range(first, len(self)):\n"
        "            self._order_entity(position, self[position], True)\n\n    def sort(self, **kw: Any) -> None:\n")), "C50-R3")
R.mutant("ol-delitem-slice-renumbers-from-raw-start", OL,
         sub(_DEL, "        if isinstance(index, slice):\n            first = index.start or 0\n        else:\n" + _DEL_INT + _DEL_TAIL), "C50-R3")
# the same optimisation done right: the tail starts at the LOWEST deleted index
R.mutant("benign-ol-delitem-renumbers-tail-from-lowest-deleted-index", OL,
         sub(_DEL, "        if isinstance(index, slice):\n" + _DEL_LOWEST + "        else:\n" + _DEL_INT + _DEL_TAIL), None)
R.mutant("benign-ol-delitem-tail-helper-inverted-while-loop", OL, chain(
    sub(_DEL, "        if not isinstance(index, slice):\n" + _DEL_INT + "        else:\n" + _DEL_LOWEST
              + "        super().__delitem__(index)\n        self._renumber_from(first)\n"),
    sub("    def sort(self, **kw: Any) -> None:\n",
        "    def _renumber_from(self, first: int) -> None:\n        position = first\n        while position < len(self):\n"
        "            self._order_entity(position, self[position], True)\n            position += 1\n\n    def sort(self, **kw: Any) -> None:\n")), None)
R.mutant("benign-ol-delitem-literal-slice-delegation", OL,
         sub(_DEL, "        if isinstance(index, slice):\n            super().__delitem__(index)\n        else:\n"
                   "            super().__delitem__(int(index))  # type: ignore[arg-type]\n        self._reorder()\n"), None)
# seed 4: symmetric_difference_update as a per-element "toggle" -- right for a set argument, wrong for an iterable that repeats
# a value (added, then removed again).  Caught by the C50-R5 model (arbitrary iterables with repeats).
_SDU = ("        want, have = self.symmetric_difference(other), set(self)\n\n"
        "        remove, add = have - want, want - have\n\n"
        "        for value in remove:\n            self.remove(value)\n"
        "        for value in add:\n            self.add(value)\n\n"
        "    def __ixor__(")


def _toggle(src):
    return ("        for value in " + src + ":\n            if value in self:\n                self.remove(value)\n"
            "            else:\n                self.add(value)\n\n    def __ixor__(")


R.mutant("seed4-apset-symmetric-difference-update-toggles-each-element", AP, sub(_SDU, _toggle("list(other)")), "C50-R5")
R.mutant("apset-symmetric-difference-update-toggle-through-helper", AP, sub(
    _SDU, "        for value in other:\n            self._toggle(value)\n\n"
          "    def _toggle(self, value: Any) -> None:\n        present = value in self\n        if not present:\n            self.add(value)\n"
          "            return\n        self.remove(value)\n\n    def __ixor__("), "C50-R5")
R.mutant("apset-add-creates-duplicate-intermediary", AP,
         sub("        if __element not in self:\n            self.col.add(self._create(__element))\n",
             "        self.col.add(self._create(__element))\n"), "C50-R5")
R.mutant("apset-isub-removes-instead-of-discards", AP,
         sub("        for value in s:\n            self.discard(value)\n        return self\n",
             "        for value in s:\n            self.remove(value)\n        return self\n"), "C50-R5")
R.mutant("apset-intersection-update-keeps-last-iterable-only", AP,
         sub("        for other in s:\n            want, have = self.intersection(other), set(self)\n",
             "        for other in s[-1:]:\n            want, have = self.intersection(other), set(self)\n"), "C50-R5")
# the same single pass done right: over the SET of the incoming values
R.mutant("benign-apset-symmetric-difference-update-toggles-over-a-set", AP, sub(_SDU, _toggle("set(other)")), None)
R.mutant("benign-apset-symmetric-difference-update-inverted-dedup-local", AP, sub(
    _SDU, "        incoming = frozenset(other)\n        for value in incoming:\n            if value not in self:\n                self.add(value)\n"
          "            else:\n                self.discard(value)\n\n    def __ixor__("), None)
R.mutant("benign-apset-difference-update-through-set-algebra", AP,
         sub("        for other in s:\n            for value in other:\n                self.discard(value)\n",
             "        for other in s:\n            for value in set(self).intersection(other):\n                self.remove(value)\n"), None)
# C50-R5 on the list / dict proxies
R.mutant("aplist-pop-defaults-to-first-element", AP,
         sub("    def pop(self, index: int = -1) -> _T:\n        return self.getter(self.col.pop(index))\n",
             "    def pop(self, index: int = 0) -> _T:\n        return self.getter(self.col.pop(index))\n"), "C50-R5")
R.mutant("aplist-remove-deletes-every-occurrence", AP,
         sub("        for i, val in enumerate(self):\n            if val == value:\n                del self.col[i]\n                return\n        raise ValueError(\"value not in list\")\n",
             "        found = False\n        for i, val in reversed(list(enumerate(self))):\n            if val == value:\n                del self.col[i]\n                found = True\n"
             "        if not found:\n            raise ValueError(\"value not in list\")\n"), "C50-R5")
R.mutant("apdict-setdefault-overwrites-present-key", AP,
         sub("        if key not in self.col:\n            self.col[key] = self._create(key, default)\n            return default  # type: ignore[return-value]\n        else:\n            return self[key]\n",
             "        self[key] = default  # type: ignore[assignment]\n        return default  # type: ignore[return-value]\n"), "C50-R5")
R.mutant("apdict-update-skips-present-keys", AP,
         sub("        for key, value in up.items():\n            self[key] = value\n",
             "        for key, value in up.items():\n            if key not in self:\n                self[key] = value\n"), "C50-R5")
R.mutant("benign-aplist-remove-through-index-lookup", AP,
         sub("        for i, val in enumerate(self):\n            if val == value:\n                del self.col[i]\n                return\n        raise ValueError(\"value not in list\")\n",
             "        try:\n            i = list(self).index(value)\n        except ValueError:\n            raise ValueError(\"value not in list\")\n        del self.col[i]\n"), None)
R.mutant("benign-apdict-update-loop-over-keys", AP,
         sub("        for key, value in up.items():\n            self[key] = value\n",
             "        for key in up:\n            self[key] = up[key]\n"), None)
R.mutant("benign-aplist-extend-materialises-and-appends-in-helper", AP, chain(
    sub("    def extend(self, values: Iterable[_T]) -> None:\n        for v in values:\n            self.append(v)\n",
        "    def extend(self, values: Iterable[_T]) -> None:\n        self._append_all(list(values))\n\n"
        "    def _append_all(self, values: List[_T]) -> None:\n        index = 0\n        while index < len(values):\n            self.append(values[index])\n            index += 1\n")), None)
