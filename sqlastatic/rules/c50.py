"""C50 -- Ordering lists and association proxies behave as their collection types (mutator cover + delegation)."""

from __future__ import annotations

import ast
import collections.abc as _abc

from ..astutil import FuncNode, ancestors, call_name, calls_in, dotted, lexical_guards, unparse, walk_local
from ..cfg import no_exc
from ..oracles import load, python_mutators
from ..report import Registry, chain, sub
from .c38 import _decorators as _coll_decorators, _delegations, _interfaces as _coll_interfaces

R = Registry(
    "C50",
    title="Ordering lists and association proxies behave as their collection types",
    decides=(
        "every list mutator either is overridden in OrderingList and (re)numbers positions on every normal "
        "path around the underlying mutation, or reaches an overridden method through the instrumented "
        "list wrapper, or cannot disturb positions; every mutator of list/set/dict on _AssociationList/"
        "_AssociationSet/_AssociationDict creates intermediaries through _create()/creator and inserts/removes "
        "them through the underlying collection self.col (so ORM events fire), or delegates to a sibling that "
        "does, or is loudly unavailable; in-place operators return self; for every overridden OrderingList mutator a "
        "small-scope model (lists of 0..3, every int index in [-(n+2), n+2], both reorder_on_append settings), obtained by "
        "abstract execution of the method's own AST with Python's list semantics, ends with position == index for every "
        "element (negative/out-of-range indexes and partial renumbering included); whole-collection assignment to an "
        "association proxy removes old-only keys, creates new-only keys and keeps -- for dicts re-assigns -- the common ones."
    ),
    not_decided=(
        "persisted rows; index arithmetic of slice assignment (value level); the ordering function itself; "
        "reorder_on_append=False semantics for pre-numbered entities; scalar association proxies; list lengths > 3 "
        "and custom ordering functions in the position model (count_from_0 is modelled; sort is modelled as a reversal; "
        "calls on objects other than the list are assumed effect-free); a construct outside the modelled Python subset "
        "ends the check with exit 2, not with a verdict."
    ),
)

OL = "ext/orderinglist.py"
AP = "ext/associationproxy.py"
ORDER_CALLS = ("_reorder", "reorder", "_order_entity")
LIST_SEM = {k: v for k, v in load("python_list_index_semantics.json").items() if k != "_comment"}

#: list mutators that need no renumbering in OrderingList -- {mutator: reason}
OL_EXEMPT = {
    "clear": "empties the list: no member is left whose position could be stale",
    "__imul__": "duplicates every member (n>1) or empties the list (n<=0): position == index is unsatisfiable for an "
                "entity that occurs twice; the missing collection events of list.__imul__ are C38-R1's finding",
}


def _super_calls(fn, names):
    out = []
    for c in calls_in(fn):
        f = c.func
        if isinstance(f, ast.Attribute) and f.attr in names:
            if isinstance(f.value, ast.Call) and dotted(f.value.func) == "super":
                out.append(c)
            elif isinstance(f.value, ast.Name) and f.value.id == "list" and c.args and unparse(c.args[0]) == "self":
                out.append(c)
    return out


@R.rule("C50-R1", floor=12, template="T-EXHAUST/T-PATH",
        desc="every list mutator is overridden in OrderingList with position (re)numbering on every normal path "
             "around the underlying mutation, or funnels into an overridden method through the instrumented "
             "wrapper, or is exempt with a reason")
def r1(ctx):
    cls = ctx.index.cls(f"{OL}::OrderingList")
    members, order_only = python_mutators("list")
    muts = members + order_only
    facs = _coll_interfaces(ctx)
    decs = _coll_decorators(ctx, facs["list"])
    for m in muts:
        key = f"{OL}::OrderingList.{m}"
        f = cls.methods.get(m)
        if f is not None and not f.type_only:
            g = ctx.cfg(f)
            pm = f.module.parents()
            whole = [i for n in ("_reorder", "reorder") for i in g.find_calls(f"self.{n}")]
            single, loops = [], []
            for c in calls_in(f.node):
                if call_name(c) != "self._order_entity":
                    continue
                lp = next((a for a in ancestors(pm, c) if isinstance(a, (ast.For, FuncNode))), None)
                lp = lp if isinstance(lp, ast.For) else None
                if lp is None:
                    single += g.nodes_containing(c)
                elif not lexical_guards(pm, c, stop=lp):
                    # a renumbering loop does its work at the `for` statement (the zero-iteration path of the CFG is
                    # not a path without renumbering); WHICH indexes it covers is decided by the model check C50-R3
                    loops += g.nodes_for(lp)
            shifts = LIST_SEM.get(m, {}).get("shifts", True)
            order_nodes = whole + loops + ([] if shifts else single)
            sup = _super_calls(f.node, muts)
            dele = [dn for dn, _ in _delegations(f.node) if dn in muts and dn in cls.methods]
            probs = []
            if shifts and single and not (whole or loops):
                probs.append(f"only one element is numbered (`_order_entity` outside a loop) although list.{m} changes the "
                             f"index of the elements behind it as well")
            if not sup and not dele:
                probs.append("override neither performs the underlying list mutation nor delegates to an overridden mutator")
            # the only tolerated way to skip renumbering: the list is no longer the owner's collection
            owner_tests = {n.id for n in g.nodes if n.kind == "test" and "_referenced_by_owner" in unparse(n.stmt.test)}

            def ok_edge(a, b, l):
                return l != "exc" and not (a in owner_tests and l == "false")
            for c in sup:
                for nid in g.nodes_containing(c):
                    after = g.must_pass([nid], [g.exit], order_nodes, edge_ok=ok_edge)
                    before = g.always_preceded(nid, order_nodes, edge_ok=no_exc)
                    # numbering BEFORE the mutation can only be right when no other element moves
                    if after is not None and (shifts or before is not None):
                        probs.append("a normal path performs the list mutation without (re)numbering positions: "
                                     + " -> ".join(after[-3:]))
            how = "renumbers" + (" (skipped only when not referenced by owner)" if owner_tests else "") if sup else \
                  "delegates to " + ",".join(sorted(set(dele)))
            ctx.check(not probs, key, "; ".join(probs), how, f.loc)
            continue
        if m in OL_EXEMPT:
            ctx.ok(key, "exempt: " + OL_EXEMPT[m], nontrivial=False)
            continue
        if m in decs:
            d, w, fnparam = decs[m]
            under = [c for c in calls_in(w) if call_name(c) == fnparam]
            dele = [dn for dn, _ in _delegations(w) if dn in muts]
            if not under and dele and all(dn in cls.methods for dn in dele):
                ctx.ok(key, f"instrumented wrapper funnels into overridden {','.join(sorted(set(dele)))}")
                continue
            ctx.violation(key, f"list.{m} is not overridden and its instrumented wrapper calls the raw list method: "
                               f"positions are not renumbered", cls.loc)
            continue
        what = "reorders the list" if m in order_only else "changes the list"
        ctx.violation(key, f"list.{m} {what} but OrderingList does not override it (and it is not instrumented): afterwards "
                           f"position != index, nothing is flushed and the old order comes back on reload", cls.loc)


# ------------------------------------------------------------------- C50-R3: small-scope model of position == index
class _Unmodelled(Exception):
    pass


class _PyRaise(Exception):
    """the modelled code raised a Python exception (IndexError from list.pop on a bad index, ...)"""


class _Return(Exception):
    def __init__(self, value):
        self.value = value


class _Opaque:
    """a value the model knows nothing about (collection adapter, logger, ...); truthy"""
    def __repr__(self):
        return "<opaque>"


class _Ent:
    __slots__ = ("name",)

    def __init__(self, name):
        self.name = name

    def __repr__(self):
        return self.name


_SELF = object()
_ORDERING_ATTR = object()
_BIN = {ast.Add: lambda a, b: a + b, ast.Sub: lambda a, b: a - b, ast.Mult: lambda a, b: a * b,
        ast.FloorDiv: lambda a, b: a // b, ast.Mod: lambda a, b: a % b}
_CMP = {ast.Lt: lambda a, b: a < b, ast.LtE: lambda a, b: a <= b, ast.Gt: lambda a, b: a > b, ast.GtE: lambda a, b: a >= b,
        ast.Eq: lambda a, b: a == b, ast.NotEq: lambda a, b: a != b, ast.Is: lambda a, b: a is b,
        ast.IsNot: lambda a, b: a is not b, ast.In: lambda a, b: a in b, ast.NotIn: lambda a, b: a not in b}


class _OLModel:
    """Abstract execution of OrderingList's own source (AST) against a model list: `items` are entities, `pos` their
    ordering attribute; the underlying list operations have Python's semantics, `ordering_func` is count_from_0.
    Nothing of /repo is imported or run: the statements are interpreted here, over a deliberately tiny subset of
    Python -- anything outside it raises _Unmodelled (the check then ends with exit 2, never with a verdict)."""

    def __init__(self, cls, n, reorder_on_append):
        self.cls = cls
        self.items = [_Ent(f"e{i}") for i in range(n)]
        self.pos = {e: i for i, e in enumerate(self.items)}
        self.roa = reorder_on_append
        self.steps = 0
        self.mutated = False

    # ---- methods
    def method_node(self, name):
        f = self.cls.methods.get(name)
        if f is not None and not f.type_only:
            return f.node
        for v in self.cls.assigns.get(name, []):       # `_reorder = reorder`
            if isinstance(v, ast.Name) and v.id != name:
                return self.method_node(v.id)
        return None

    def call_method(self, name, args, depth=0):
        fn = self.method_node(name)
        if fn is None:
            raise _Unmodelled(f"self.{name}() is not a method of OrderingList")
        if depth > 6:
            raise _Unmodelled("call depth")
        a = fn.args
        if a.vararg or a.posonlyargs:
            raise _Unmodelled(f"signature of {name}")
        params = [x.arg for x in a.args][1:]
        env = {"self": _SELF}
        defaults = dict(zip(params[len(params) - len(a.defaults):], a.defaults))
        for i, pn in enumerate(params):
            if i < len(args):
                env[pn] = args[i]
            elif pn in defaults:
                env[pn] = self.ev(defaults[pn], env, depth)
            else:
                raise _Unmodelled(f"{name}(): missing argument {pn}")
        if a.kwarg:
            env[a.kwarg.arg] = {}
        try:
            self.block(fn.body, env, depth)
        except _Return as r:
            return r.value
        return None

    # ---- statements
    def block(self, body, env, depth):
        for st in body:
            self.steps += 1
            if self.steps > 5000:
                raise _Unmodelled("step budget")
            if isinstance(st, ast.Expr):
                if isinstance(st.value, ast.Constant):
                    continue
                self.ev(st.value, env, depth)
            elif isinstance(st, (ast.Assign, ast.AnnAssign)):
                if isinstance(st, ast.AnnAssign) and st.value is None:
                    continue
                v = self.ev(st.value, env, depth)
                for tg in (st.targets if isinstance(st, ast.Assign) else [st.target]):
                    self.bind(tg, v, env)
            elif isinstance(st, ast.AugAssign) and isinstance(st.target, ast.Name) and type(st.op) in _BIN:
                env[st.target.id] = self.arith(_BIN[type(st.op)], env[st.target.id], self.ev(st.value, env, depth))
            elif isinstance(st, ast.If):
                self.block(st.body if self.truth(self.ev(st.test, env, depth)) else st.orelse, env, depth)
            elif isinstance(st, ast.For) and not st.orelse:
                it = self.ev(st.iter, env, depth)
                if not isinstance(it, (list, range, tuple)):
                    raise _Unmodelled(f"iteration over `{unparse(st.iter)}`")
                for v in list(it):
                    self.bind(st.target, v, env)
                    self.block(st.body, env, depth)
            elif isinstance(st, ast.Return):
                raise _Return(self.ev(st.value, env, depth) if st.value is not None else None)
            elif isinstance(st, ast.Pass):
                pass
            elif isinstance(st, ast.Raise):
                raise _PyRaise(unparse(st)[:60])
            else:
                raise _Unmodelled(f"statement `{unparse(st)[:50]}`")

    def bind(self, tg, v, env):
        if isinstance(tg, ast.Name):
            env[tg.id] = v
        elif isinstance(tg, ast.Tuple) and isinstance(v, (tuple, list)) and len(v) == len(tg.elts):
            for t1, v1 in zip(tg.elts, v):
                self.bind(t1, v1, env)
        else:
            raise _Unmodelled(f"assignment target `{unparse(tg)}`")

    # ---- expressions
    @staticmethod
    def truth(v):
        return True if isinstance(v, _Opaque) else bool(v)

    @staticmethod
    def arith(op, a, b):
        if isinstance(a, bool) or isinstance(b, bool) or not isinstance(a, int) or not isinstance(b, int):
            raise _Unmodelled("arithmetic on a non-integer")
        try:
            return op(a, b)
        except ZeroDivisionError:
            raise _PyRaise("ZeroDivisionError")

    def ev(self, e, env, depth):
        if isinstance(e, ast.Constant):
            return e.value
        if isinstance(e, ast.Name):
            if e.id in env:
                return env[e.id]
            raise _Unmodelled(f"name `{e.id}`")
        if isinstance(e, ast.Tuple):
            return tuple(self.ev(x, env, depth) for x in e.elts)
        if isinstance(e, ast.BinOp) and type(e.op) in _BIN:
            return self.arith(_BIN[type(e.op)], self.ev(e.left, env, depth), self.ev(e.right, env, depth))
        if isinstance(e, ast.UnaryOp):
            v = self.ev(e.operand, env, depth)
            if isinstance(e.op, ast.Not):
                return not self.truth(v)
            if isinstance(e.op, ast.USub) and isinstance(v, int):
                return -v
            raise _Unmodelled(f"`{unparse(e)}`")
        if isinstance(e, ast.BoolOp):
            v = None
            for x in e.values:
                v = self.ev(x, env, depth)
                if isinstance(e.op, ast.And) and not self.truth(v):
                    return v
                if isinstance(e.op, ast.Or) and self.truth(v):
                    return v
            return v
        if isinstance(e, ast.IfExp):
            return self.ev(e.body if self.truth(self.ev(e.test, env, depth)) else e.orelse, env, depth)
        if isinstance(e, ast.Compare):
            left = self.ev(e.left, env, depth)
            for op, c in zip(e.ops, e.comparators):
                right = self.ev(c, env, depth)
                if type(op) not in _CMP:
                    raise _Unmodelled(f"`{unparse(e)}`")
                if isinstance(left, _Opaque) or isinstance(right, _Opaque):
                    raise _Unmodelled(f"comparison with an unknown value `{unparse(e)}`")
                if right is _SELF:
                    right = self.items
                try:
                    if not _CMP[type(op)](left, right):
                        return False
                except TypeError:
                    raise _Unmodelled(f"`{unparse(e)}` compares {left!r} with {right!r}")
                left = right
            return True
        if isinstance(e, ast.Attribute):
            v = self.ev(e.value, env, depth)
            if v is _SELF:
                if e.attr == "reorder_on_append":
                    return self.roa
                if e.attr == "ordering_attr":
                    return _ORDERING_ATTR
                raise _Unmodelled(f"attribute self.{e.attr}")
            if isinstance(v, _Opaque):
                # `adapter._referenced_by_owner`: the model is a collection in use by its owner
                return True if e.attr == "_referenced_by_owner" else _Opaque()
            raise _Unmodelled(f"`{unparse(e)}`")
        if isinstance(e, ast.Subscript):
            v = self.ev(e.value, env, depth)
            if isinstance(e.slice, ast.Slice):
                raise _Unmodelled("slice")
            i = self.ev(e.slice, env, depth)
            seq = self.items if v is _SELF else v
            if isinstance(seq, (list, tuple, range)) and isinstance(i, int) and not isinstance(i, bool):
                try:
                    return seq[i]
                except IndexError:
                    raise _PyRaise("IndexError")
            raise _Unmodelled(f"`{unparse(e)}`")
        if isinstance(e, ast.Call):
            return self.call(e, env, depth)
        raise _Unmodelled(f"expression `{unparse(e)[:50]}`")

    def listop(self, name, args):
        """Python's own list semantics, on the model list"""
        L = self.items
        try:
            if name == "sort":
                # an arbitrary permutation may result (the key is the caller's): reversal stands for it
                name, args = "reverse", []
            if name in ("insert", "append", "pop", "remove", "__setitem__", "__delitem__", "reverse", "clear", "extend", "index", "count"):
                before = list(L)
                r = getattr(L, name)(*args)
                self.mutated = self.mutated or before != L
                return r
        except (IndexError, ValueError, TypeError) as ex:
            raise _PyRaise(type(ex).__name__)
        raise _Unmodelled(f"list.{name}")

    def call(self, c, env, depth):
        f = c.func
        if any(isinstance(a, ast.Starred) for a in c.args):
            raise _Unmodelled("star-args")
        if isinstance(f, ast.Name) and f.id == "isinstance" and f.id not in env and len(c.args) == 2:
            v = self.ev(c.args[0], env, depth)
            tn = c.args[1].id if isinstance(c.args[1], ast.Name) else None
            if isinstance(v, int) and not isinstance(v, bool) and tn in ("slice", "int"):
                return tn == "int"
            raise _Unmodelled(f"`{unparse(c)}`")
        args = [self.ev(a, env, depth) for a in c.args]
        if isinstance(f, ast.Attribute):
            # super().m(...) / list.m(self, ...): the underlying list operation
            if isinstance(f.value, ast.Call) and dotted(f.value.func) == "super":
                return self.listop(f.attr, args)
            if isinstance(f.value, ast.Name) and f.value.id == "list" and args and args[0] is _SELF:
                return self.listop(f.attr, args[1:])
            if isinstance(f.value, ast.Name) and f.value.id == "self" and env.get("self") is _SELF:
                if f.attr == "ordering_func":
                    if len(args) != 2 or args[1] is not _SELF or not isinstance(args[0], int):
                        raise _Unmodelled("ordering_func arguments")
                    return args[0]                               # count_from_0
                return self.call_method(f.attr, args, depth + 1)
            recv = self.ev(f.value, env, depth) if not isinstance(f.value, ast.Name) or f.value.id in env else _Opaque()
            if recv is _SELF or isinstance(recv, (list, _Ent)):
                raise _Unmodelled(f"`{unparse(c)[:50]}`")
            return _Opaque()          # a call on something that is not the list (logger, adapter): assumed effect-free
        if isinstance(f, ast.Name):
            n = f.id
            if n in env:
                raise _Unmodelled(f"call of local `{n}`")
            ints = all(isinstance(a, int) and not isinstance(a, bool) for a in args)
            if n == "int" and len(args) == 1 and ints:
                return args[0]
            if n == "len" and len(args) == 1:
                if args[0] is _SELF:
                    return len(self.items)
                if isinstance(args[0], (list, tuple, range)):
                    return len(args[0])
            if n in ("min", "max", "abs") and args and ints:
                return {"min": min, "max": max, "abs": abs}[n](*args)
            if n == "range" and args and ints:
                return range(*args)
            if n == "enumerate" and len(args) in (1, 2) and (len(args) == 1 or isinstance(args[1], int)):
                seq = self.items if args[0] is _SELF else args[0]
                if isinstance(seq, (list, tuple, range)):
                    return list(enumerate(seq, *args[1:]))
            if n in ("list", "tuple", "reversed") and len(args) == 1:
                seq = self.items if args[0] is _SELF else args[0]
                if isinstance(seq, (list, tuple, range)):
                    return list(reversed(seq)) if n == "reversed" else list(seq)
            if n == "getattr" and len(args) >= 2 and isinstance(args[0], _Ent) and args[1] is _ORDERING_ATTR:
                return self.pos.get(args[0])
            if n == "setattr" and len(args) == 3 and isinstance(args[0], _Ent) and args[1] is _ORDERING_ATTR:
                self.pos[args[0]] = args[2]
                return None
            if n in ("int", "len", "min", "max", "abs", "range", "enumerate", "list", "tuple", "reversed", "getattr", "setattr"):
                raise _Unmodelled(f"`{unparse(c)[:50]}`")
            return _Opaque()          # module-level helper (collection_adapter(self), util.warn ...): assumed effect-free
        raise _Unmodelled(f"call `{unparse(c)[:50]}`")

    # ---- verdict
    def mismatch(self):
        for i, e in enumerate(self.items):
            if self.pos.get(e) != i:
                return i, e
        return None


def _ol_inputs(kinds, n):
    """argument tuples for one list-API shape, as (label, maker(model) -> args)"""
    rng = range(-(n + 2), n + 3)
    if kinds == ["new"]:
        return [("new", lambda m: [_Ent("new")])]
    if kinds == ["index", "new"]:
        return [(f"{i}, new", lambda m, i=i: [i, _Ent("new")]) for i in rng]
    if kinds == ["index?"]:
        return [("", lambda m: [])] + [(f"{i}", lambda m, i=i: [i]) for i in rng]
    if kinds == ["index"]:
        return [(f"{i}", lambda m, i=i: [i]) for i in rng]
    if kinds == ["member"]:
        return [(f"e{i}", lambda m, i=i: [m.items[i]]) for i in range(n)] + [("absent", lambda m: [_Ent("absent")])]
    if kinds == []:
        return [("", lambda m: [])]
    raise _Unmodelled(f"argument shape {kinds}")


@R.rule("C50-R3", floor=8, template="T-MODEL",
        desc="small-scope model check by abstract execution of OrderingList's source: for every overridden list mutator, "
             "every list length 0..3, every int index in [-(n+2), n+2] (Python semantics: negative counts from the end, "
             "insert clamps) and both reorder_on_append settings, the operation ends -- normally or by the builtin's "
             "IndexError/ValueError -- with position == index for EVERY element of the list, the new one included")
def r3(ctx):
    cls = ctx.index.cls(f"{OL}::OrderingList")
    members, order_only = python_mutators("list")
    done = 0
    for m in members + order_only:
        f = cls.methods.get(m)
        if m not in LIST_SEM:
            continue
        if f is None or f.type_only:
            ctx.ok(f"{OL}::OrderingList.{m}:position==index", "no override to model (cover is C50-R1's business)", nontrivial=False)
            continue
        ctx.functions_analysed.add(f.key)
        key = f"{f.key}:position==index"
        worst = None
        runs = 0
        for n in range(0, 4):
            for roa in (False, True):
                for label, mk in _ol_inputs(LIST_SEM[m]["args"], n):
                    model = _OLModel(cls, n, roa)
                    args = mk(model)
                    start = [repr(e) for e in model.items]
                    raised = None
                    try:
                        model.call_method(m, args)
                    except _PyRaise as ex:
                        raised = str(ex)
                    except _Unmodelled as ex:
                        ctx.require(False, f"{key}: OrderingList.{m}({label}) uses a construct outside the modelled subset: {ex}")
                    runs += 1
                    bad = model.mismatch()
                    if bad is not None:
                        i, e = bad
                        cand = (n, len(label), f"on a list of {n} ({', '.join(start) or 'empty'}; positions 0..{n - 1} correct), "
                                f"`{m}({label})`" + (f" [reorder_on_append={roa}]" if m == "append" else "")
                                + (f" raises {raised} after the list was changed and" if raised else "")
                                + f" leaves {[repr(x) for x in model.items]} with positions {[model.pos.get(x) for x in model.items]}: "
                                f"{e!r} at index {i} has position {model.pos.get(e)}")
                        if worst is None or cand[:2] < worst[:2]:
                            worst = cand
        ctx.check(worst is None, key,
                  "position != index after the operation: " + (worst[2] if worst else "")
                  + "; the wrong number is flushed and `order_by position` returns another order on reload",
                  f"{runs} modelled runs end with position == index", f.loc)
        done += 1
    ctx.require(done > 0, "no overridden list mutator of OrderingList could be modelled")


APC = {"list": ("_AssociationList", "MutableSequence"), "set": ("_AssociationSet", "MutableSet"),
       "dict": ("_AssociationDict", "MutableMapping")}
COL_ADD = {"append", "add", "insert", "extend", "update", "setdefault"}
COL_REMOVE = {"pop", "remove", "discard", "clear", "popitem"}


def _col_aliases(fn):
    al = {"self.col"}
    for n in walk_local(fn):
        if isinstance(n, ast.Assign) and unparse(n.value) == "self.col":
            for t in n.targets:
                if isinstance(t, ast.Name):
                    al.add(t.id)
    return al


def _is_col(e, al):
    return (dotted(e) or "") in al


@R.rule("C50-R2", floor=33, template="T-SIBLING",
        desc="each list/set/dict mutator of the association-proxy collections creates intermediaries via "
             "_create()/creator and inserts/removes them through self.col, or delegates to a sibling that does, "
             "or is loudly unavailable; in-place operators return self")
def r2(ctx):
    effects = load("python_mutator_effects.json")
    for t, (cname, abcname) in APC.items():
        cls = ctx.index.cls(f"{AP}::{cname}")
        ctx.require(abcname in cls.base_exprs, f"{cname} no longer derives from collections.abc.{abcname}: {cls.base_exprs}")
        abc_cls = getattr(_abc, abcname)
        members, order_only = python_mutators(t)
        muts = members + order_only
        eff = dict(effects[t])
        for m in order_only:
            eff[m] = "order"

        def resolved(name):
            f = ctx.index.resolve_method(cls, name)
            return f if f is not None and not f.type_only else None
        unsupported = []
        for m in muts:
            key = f"{AP}::{cname}.{m}"
            f = resolved(m)
            if f is None:
                mix = getattr(abc_cls, m, None)
                if mix is None:
                    unsupported.append(m)
                    ctx.ok(key, f"unavailable: neither defined nor an {abcname} mixin method -> the operation raises "
                                f"TypeError/AttributeError and changes nothing", nontrivial=False)
                elif getattr(mix, "__isabstractmethod__", False):
                    ctx.violation(key, f"{abcname}.{m} is an abstract primitive that {cname} does not implement", cls.loc)
                else:
                    ctx.ok(key, f"{abcname} mixin method (funnels into the overridden primitives)", nontrivial=False)
                continue
            ctx.functions_analysed.add(f.key)
            g = ctx.cfg(f)
            if g.exit not in g.reachable([g.entry]):
                unsupported.append(m)
                ctx.ok(key, "unsupported: always raises", nontrivial=False)
                continue
            al = _col_aliases(f.node)
            creates = [c for c in calls_in(f.node) if call_name(c) in ("self._create", "self.creator")]
            col_adds, col_removes, sets = [], [], []
            for n in walk_local(f.node):
                if isinstance(n, ast.Call) and isinstance(n.func, ast.Attribute) and _is_col(n.func.value, al):
                    if n.func.attr in COL_ADD:
                        col_adds.append(n)
                    elif n.func.attr in COL_REMOVE:
                        col_removes.append(n)
                elif isinstance(n, ast.Assign):
                    for tg in n.targets:
                        if isinstance(tg, ast.Subscript) and _is_col(tg.value, al):
                            col_adds.append(n)
                elif isinstance(n, ast.Delete):
                    for tg in n.targets:
                        if isinstance(tg, ast.Subscript) and _is_col(tg.value, al):
                            col_removes.append(n)
                if isinstance(n, ast.Call) and call_name(n) in ("self._set", "self.setter") and n.args \
                        and isinstance(n.args[0], ast.Subscript) and _is_col(n.args[0].value, al):
                    sets.append(n)
            dele = [dn for dn, _ in _delegations(f.node) if dn in muts and dn != m or (dn == m and dn in ("__setitem__",))]
            dele = [dn for dn in dele if resolved(dn) is not None]
            probs = []
            # raw values must never be stored: every insertion into col carries a created intermediary
            for ins in col_adds:
                created_names = set()
                for n in walk_local(f.node):
                    if isinstance(n, ast.Assign) and isinstance(n.value, ast.Call) and call_name(n.value) in ("self._create", "self.creator"):
                        created_names |= {x.id for x in n.targets if isinstance(x, ast.Name)}
                txt_has_create = any(isinstance(x, ast.Call) and call_name(x) in ("self._create", "self.creator") for x in ast.walk(ins))
                uses_created = any(isinstance(x, ast.Name) and x.id in created_names for x in ast.walk(ins))
                if not (txt_has_create or uses_created):
                    probs.append(f"`{unparse(ins)[:60]}` inserts into the underlying collection something that was not built by "
                                 f"_create()/creator (a proxied value instead of an intermediary object)")
            e = eff[m]
            can_add = bool(creates and col_adds) or bool(sets) or any(eff.get(dn) in ("add", "both") for dn in dele)
            can_rem = bool(col_removes) or bool(sets) or any(eff.get(dn) in ("remove", "both") for dn in dele)
            if e in ("add", "both") and not can_add:
                probs.append(f"{t}.{m} adds members but the proxy neither creates an intermediary into self.col nor delegates to a sibling that does")
            if e in ("remove", "both") and not can_rem:
                probs.append(f"{t}.{m} removes members but the proxy neither removes from self.col nor delegates to a sibling that does")
            if m.startswith("__i") and m.endswith("__"):
                rets = [r for r in walk_local(f.node) if isinstance(r, ast.Return)]
                real = [r for r in rets if not (isinstance(r.value, ast.Name) and r.value.id == "NotImplemented")]
                falls = g.exit in g.reachable([g.entry], avoid=[i for r in rets for i in g.nodes_for(r)], edge_ok=no_exc)
                if falls or not real or not all(isinstance(r.value, ast.Name) and r.value.id == "self" for r in real):
                    probs.append("in-place operator does not return self (the parent attribute would be rebound / set to None)")
            how = []
            if creates and col_adds:
                how.append("create->col")
            if sets:
                how.append("setter on existing intermediary")
            if col_removes:
                how.append("col removal")
            if dele:
                how.append("delegates:" + ",".join(sorted(set(dele))))
            ctx.check(not probs, key, "; ".join(probs), " ".join(how), f.loc)
        if unsupported:
            ctx.note(f"{cname}: operations that are loudly unavailable (raise): {unsupported}")


# ------------------------------------------------------- C50-R4: whole-collection assignment = three-way partition
#: the Venn regions of (existing collection, assigned values)
_E, _B, _V = "only-existing", "in-both", "only-new"
_SETLIKE = {"set", "frozenset", "list", "tuple", "IdentitySet", "OrderedSet", "OrderedIdentitySet", "idset", "dict"}
_ADD_CALLS = {"add", "append", "appender"}
_REM_CALLS = {"remove", "discard", "remover", "pop"}
_BULK_ADD = {"update", "extend", "_set"}


class _Venn:
    """Evaluates the set algebra of a bulk-replace routine over the three regions of (existing, values) and replays,
    region by region, what the routine does to a key of that region."""

    def __init__(self, fn, existing_names, values_name):
        self.fn = fn
        self.env = {n: frozenset({_E, _B}) for n in existing_names}
        self.env[values_name] = frozenset({_B, _V})
        self.alias = {}      # local -> dotted callee (appender = self.add)
        # per region: is a key of that region in the resulting collection, and was its value (re)assigned?
        self.present = {_E: True, _B: True, _V: False}
        self.fresh = {_E: False, _B: False, _V: False}
        self.unknown = []

    def regions(self, e):
        if isinstance(e, ast.Name):
            return self.env.get(e.id)
        if isinstance(e, ast.BoolOp) and isinstance(e.op, ast.Or):
            return self.regions(e.values[0])                       # `values or ()`
        if isinstance(e, (ast.Tuple, ast.List, ast.Set)) and not e.elts:
            return frozenset()
        if isinstance(e, ast.BinOp):
            a, b = self.regions(e.left), self.regions(e.right)
            if a is None or b is None:
                return None
            return {ast.BitAnd: a & b, ast.Sub: a - b, ast.BitOr: a | b, ast.BitXor: a ^ b}.get(type(e.op))
        if isinstance(e, ast.Call):
            f = e.func
            if isinstance(f, ast.Attribute):
                recv = self.regions(f.value)
                if recv is not None:
                    if f.attr in ("items", "keys", "copy") and not e.args:
                        return recv
                    if f.attr in ("intersection", "difference", "union", "symmetric_difference") and len(e.args) == 1:
                        b = self.regions(e.args[0])
                        if b is None:
                            return None
                        return {"intersection": recv & b, "difference": recv - b, "union": recv | b,
                                "symmetric_difference": recv ^ b}[f.attr]
                    return None
            nm = (call_name(e) or "").split(".")[-1]
            nm = self.alias.get(nm, nm).split(".")[-1]
            if nm in _SETLIKE and len(e.args) == 1:
                return self.regions(e.args[0])
        return None

    def callee(self, c):
        nm = call_name(c) or ""
        if isinstance(c.func, ast.Name) and c.func.id in self.alias:
            nm = self.alias[c.func.id]
        return nm

    def effect(self, regs, kind):
        for r in regs:
            if kind == "remove":
                self.present[r], self.fresh[r] = False, False
            elif kind == "assign":
                self.present[r], self.fresh[r] = True, True
            elif kind == "add":                 # set.add / list.append of a member: a no-op for a present set member
                if not self.present[r]:
                    self.present[r], self.fresh[r] = True, True

    def run(self, body, key=None, region=None):
        for st in body:
            if isinstance(st, (ast.Assign, ast.AnnAssign)) and getattr(st, "value", None) is not None:
                tgs = st.targets if isinstance(st, ast.Assign) else [st.target]
                tg = tgs[0]
                if isinstance(tg, ast.Name):
                    r = self.regions(st.value)
                    if r is not None:
                        self.env[tg.id] = r
                        continue
                    if isinstance(st.value, ast.Call) and (call_name(st.value) or "").endswith("bulk_appender"):
                        self.alias[tg.id] = "appender"
                    elif isinstance(st.value, (ast.Name, ast.Attribute)) and dotted(st.value):
                        self.alias[tg.id] = dotted(st.value)
                    continue
                if isinstance(tg, ast.Subscript) and dotted(tg.value) == "self" and key is not None \
                        and isinstance(tg.slice, ast.Name) and tg.slice.id == key:
                    self.effect([region], "assign")
                    continue
                self.unknown.append(unparse(st)[:60])
            elif isinstance(st, ast.Delete):
                for tg in st.targets:
                    if isinstance(tg, ast.Subscript) and dotted(tg.value) == "self" and key is not None \
                            and isinstance(tg.slice, ast.Name) and tg.slice.id == key:
                        self.effect([region], "remove")
                    else:
                        self.unknown.append(unparse(st)[:60])
            elif isinstance(st, ast.Expr) and isinstance(st.value, ast.Call):
                self.call(st.value, key, region)
            elif isinstance(st, ast.Expr):
                continue
            elif isinstance(st, ast.If):
                t = self.test(st.test, key, region)
                if t is None:
                    self.unknown.append("if " + unparse(st.test)[:60])
                    # existence checks on the old collection (`if existing_adapter:`) guard event firing only
                    self.run(st.body, key, region)
                else:
                    self.run(st.body if t else st.orelse, key, region)
            elif isinstance(st, ast.For):
                regs = self.regions(st.iter)
                if regs is None or key is not None:
                    self.unknown.append("for ... in " + unparse(st.iter)[:60])
                    continue
                tg = st.target
                k = tg.id if isinstance(tg, ast.Name) else (tg.elts[0].id if isinstance(tg, ast.Tuple) and tg.elts and isinstance(tg.elts[0], ast.Name) else None)
                if k is None:
                    self.unknown.append("for target " + unparse(tg))
                    continue
                for r in sorted(regs):
                    self.run(st.body, k, r)
            elif isinstance(st, (ast.Assert, ast.Pass)):
                continue
            else:
                self.unknown.append(unparse(st)[:60])

    def test(self, t, key, region):
        if isinstance(t, ast.UnaryOp) and isinstance(t.op, ast.Not):
            v = self.test(t.operand, key, region)
            return None if v is None else not v
        if isinstance(t, ast.BoolOp):
            vs = [self.test(v, key, region) for v in t.values]
            if any(v is None for v in vs):
                return None
            return all(vs) if isinstance(t.op, ast.And) else any(vs)
        if isinstance(t, ast.Compare) and len(t.ops) == 1 and isinstance(t.ops[0], (ast.In, ast.NotIn)) \
                and isinstance(t.left, ast.Name) and t.left.id == key:
            regs = self.regions(t.comparators[0])
            if regs is None:
                return None
            return (region in regs) == isinstance(t.ops[0], ast.In)
        return None

    def call(self, c, key, region):
        nm = self.callee(c)
        last = nm.split(".")[-1]
        a0 = c.args[0] if c.args else None
        if key is not None and isinstance(a0, ast.Name) and a0.id == key:
            if last in _ADD_CALLS:
                return self.effect([region], "add")
            if last in _REM_CALLS:
                return self.effect([region], "remove")
        if key is None:
            if nm == "self.clear" and not c.args:
                return self.effect([_E, _B], "remove")
            for a in c.args:
                regs = self.regions(a)
                if regs is not None and not (isinstance(a, ast.Name) and a.id == "self"):
                    if last in _BULK_ADD:
                        return self.effect(sorted(regs), "assign")
                    if "remove" in last:
                        return self.effect(sorted(regs), "remove")
                    if "append" in last:
                        return None            # event-only helper for members that stay
        self.unknown.append(unparse(c)[:60])


@R.rule("C50-R4", floor=5, template="T-SIBLING",
        desc="whole-collection assignment: every _bulk_replace of the association-proxy collections (and "
             "orm.collections.bulk_replace) treats all three regions of (existing, new) -- keys only in the old collection "
             "are removed, keys only in the new one are created, and keys in BOTH stay present; for the dict proxy the "
             "kept keys are re-assigned (their value may differ) -- decided by evaluating the routine's set algebra over "
             "the Venn regions and replaying its loops per region")
def r4(ctx):
    ix = ctx.index
    m = ix.module(AP)
    fam = [f for f in ix.all_functions(m) if f.name == "_bulk_replace" and f.cls is not None and not f.type_only]
    ctx.require(len(fam) >= 3, f"only {len(fam)} _bulk_replace implementations found in {AP}")
    jobs = [(f, ["self"], f.params[-1], "dict" if ix.is_subclass(f.cls, ix.cls(f"{AP}::_AssociationDict")) else "members") for f in fam]
    ob = ix.func("orm/collections.py::bulk_replace")
    ctx.require(len(ob.params) >= 3, "orm.collections.bulk_replace signature not understood")
    jobs.append((ob, [ob.params[1]], ob.params[0], "fresh"))
    # the list proxy's routine is clear() + AssociationProxyInstance._set(proxy, values): _set has to hand ALL the values to
    # the proxy's bulk adder for each builtin collection type
    sf = ix.func(f"{AP}::AssociationProxyInstance._set")
    ctx.functions_analysed.add(sf.key)
    vals = sf.params[-1]
    branches = [n for n in ast.walk(sf.node) if isinstance(n, ast.If) and "collection_class is" in unparse(n.test)]
    ctx.require(branches, f"{sf.key}: dispatch on collection_class not found")
    bad = [unparse(b.test) for b in branches
           if not any(isinstance(c.func, ast.Attribute) and c.func.attr in ("extend", "update") and len(c.args) == 1
                      and isinstance(c.args[0], ast.Name) and c.args[0].id == vals for st in b.body for c in calls_in(st))]
    ctx.check(not bad, f"{sf.key}:bulk-add", f"branch `{'`, `'.join(bad)}` does not pass the assigned values to the proxy's extend()/update()",
              f"{len(branches)} collection types -> proxy.extend/update({vals})", sf.loc)
    for f, existing, values, mode in jobs:
        ctx.functions_analysed.add(f.key)
        v = _Venn(f.node, existing, values)
        if mode == "fresh":
            # the new adapter starts empty: every assigned value has to be appended to it
            v.present = {_E: False, _B: False, _V: False}
        v.run(f.node.body)
        probs = []
        if v.present[_E] and mode != "fresh":
            probs.append("a key/member that is only in the OLD collection is never removed")
        if not v.present[_V]:
            probs.append("a key/member that is only in the NEW value is never created")
        if not v.present[_B]:
            probs.append("a key/member that is in both the old collection and the new value is missing afterwards")
        elif mode == "dict" and not v.fresh[_B]:
            probs.append("a key that is in both the old dict and the new value is not re-assigned: it keeps its OLD value although "
                         "the assigned mapping may give it another one (`obj.proxy = {k: new}` leaves proxy[k] == old, and the "
                         "association row keeps the stale value)")
        if probs:
            ctx.violation(f"{f.key}:partition", "; ".join(probs), f.loc)
        else:
            # a verdict needs the routine to be understood; constructs we skipped matter only when nothing fired
            hard = [u for u in v.unknown if not u.startswith("if ")]
            ctx.require(not hard, f"{f.key}: bulk replace uses constructs the region replay does not understand: {hard}")
            ctx.ok(f"{f.key}:partition", f"old-only removed, new-only created, kept {'re-assigned' if v.fresh[_B] else 'present'}")


# ------------------------------------------------------------------------------------- self-test
R.mutant("ol-insert-no-reorder", OL,
         sub("        super().insert(index, entity)\n        self._reorder()\n", "        super().insert(index, entity)\n"), "C50-R1")
R.mutant("ol-pop-override-removed", OL,
         sub("    def pop(self, index: SupportsIndex = -1) -> _T:\n        entity = super().pop(index)\n        self._reorder()\n        return entity\n\n", ""),
         "C50-R1")
R.mutant("ol-delitem-reorder-conditional", OL,
         sub("        super().__delitem__(index)\n        self._reorder()\n", "        super().__delitem__(index)\n        if isinstance(index, slice):\n            self._reorder()\n"),
         "C50-R1")
R.mutant("ol-append-override-removed", OL,
         sub("    def append(self, entity: _T) -> None:\n        super().append(entity)\n        self._order_entity(len(self) - 1, entity, self.reorder_on_append)\n\n", ""),
         "C50-R1")
R.mutant("aplist-append-raw-value", AP,
         sub("        col = self.col\n        item = self._create(value)\n        col.append(item)\n", "        col = self.col\n        col.append(value)\n"),
         "C50-R2")
R.mutant("apset-discard-noop", AP,
         sub("            if self._get(member) == __element:\n                self.col.discard(member)\n                break\n",
             "            if self._get(member) == __element:\n                break\n"),
         "C50-R2")
R.mutant("aplist-iadd-no-return", AP,
         sub("        self.extend(iterable)\n        return self\n", "        self.extend(iterable)\n"), "C50-R2")
R.mutant("apdict-clear-on-copy", AP,
         sub("    def clear(self) -> None:\n        self.col.clear()\n\n    def __eq__(self, other: object) -> bool:\n        return dict(self) == other\n",
             "    def clear(self) -> None:\n        dict(self.col).clear()\n\n    def __eq__(self, other: object) -> bool:\n        return dict(self) == other\n"),
         "C50-R2")
R.mutant("apdict-setdefault-raw", AP,
         sub("            self.col[key] = self._create(key, default)\n            return default", "            self.col[key] = default\n            return default"),
         "C50-R2")
# benign
R.mutant("benign-ol-rename-local", OL,
         sub("        entity = super().pop(index)\n        self._reorder()\n        return entity\n", "        popped = super().pop(index)\n        self._reorder()\n        return popped\n"),
         None)
R.mutant("benign-ol-sort-override", OL,
         sub("    def __reduce__(self) -> Any:\n",
             "    def sort(self, **kw: Any) -> None:\n        super().sort(**kw)\n        self._reorder()\n\n    def reverse(self) -> None:\n        super().reverse()\n        self._reorder()\n\n    def __reduce__(self) -> Any:\n"),
         None)
R.mutant("benign-ap-append-inline", AP,
         sub("        col = self.col\n        item = self._create(value)\n        col.append(item)\n", "        self.col.append(self._create(value))\n"),
         None)

# ---- adversarial seeds (str-s)
INS = "        super().insert(index, entity)\n        self._reorder()\n"
R.mutant("seed1-ol-insert-renumbers-tail-from-post-insert-length", OL,
         sub(INS, "        super().insert(index, entity)\n        start = int(index)\n        if start < 0:\n            start = max(start + len(self), 0)\n"
                  "        for i in range(min(start, len(self) - 1), len(self)):\n            self._order_entity(i, self[i], True)\n"), "C50-R3")
R.mutant("ol-insert-numbers-new-entity-only", OL,
         sub(INS, "        super().insert(index, entity)\n        self._order_entity(int(index), entity, True)\n"), "C50-R1")
R.mutant("ol-pop-renumbers-tail-from-raw-index", OL,
         sub("        entity = super().pop(index)\n        self._reorder()\n",
             "        entity = super().pop(index)\n        for i in range(int(index), len(self)):\n            self._order_entity(i, self[i], True)\n"), "C50-R3")
R.mutant("ol-order-entity-keeps-stale-when-reorder", OL,
         sub("        if have is not None and not reorder:\n            return\n", "        if have is not None and reorder:\n            return\n"), "C50-R3")
R.mutant("ol-reorder-counts-from-one", OL,
         sub("        for index, entity in enumerate(self):\n            self._order_entity(index, entity, True)\n",
             "        for index, entity in enumerate(self, 1):\n            self._order_entity(index, entity, True)\n"), "C50-R3")
R.mutant("ol-delitem-reorder-before-delete", OL,
         sub("        super().__delitem__(index)\n        self._reorder()\n", "        self._reorder()\n        super().__delitem__(index)\n"), "C50-R3")
# the same optimisation done right: the start is normalised against the PRE-insert length
R.mutant("benign-ol-insert-renumbers-tail-correctly", OL,
         sub(INS, "        before = len(self)\n        super().insert(index, entity)\n        start = int(index)\n        if start < 0:\n            start = max(start + before, 0)\n"
                  "        for i in range(min(start, before), len(self)):\n            self._order_entity(i, self[i], True)\n"), None)
R.mutant("benign-ol-insert-inlines-reorder", OL,
         sub(INS, "        super().insert(index, entity)\n        for i, member in enumerate(self):\n            self._order_entity(i, member, True)\n"), None)
# the repair of the C50-R3 finding must be accepted
R.mutant("benign-ol-setitem-normalises-negative-index", OL,
         sub("            self._order_entity(int(index), entity, True)  # type: ignore[arg-type] # noqa: E501\n",
             "            position = int(index)\n            if position < 0:\n                position += len(self)\n            self._order_entity(position, entity, True)\n"), None)
DCONST = "            elif key in constants:\n                self[key] = member\n"
SCONST = "            elif member in constants:\n                appender(member)\n"
R.mutant("seed2-apdict-bulk-replace-skips-kept-keys", AP, chain(sub(DCONST, ""), sub(SCONST, "")), "C50-R4")
R.mutant("apdict-bulk-replace-skips-kept-keys", AP, sub(DCONST, ""), "C50-R4")
R.mutant("apset-bulk-replace-never-removes", AP,
         sub("        for member in removals:\n            remover(member)\n", ""), "C50-R4")
R.mutant("apdict-bulk-replace-removes-kept-keys-too", AP,
         sub("        removals = existing.difference(constants)\n\n        for key, member in values.items() or ():",
             "        removals = existing\n\n        for key, member in values.items() or ():"), "C50-R4")
R.mutant("apset-bulk-replace-adds-only-kept", AP,
         sub("            if member in additions:\n                appender(member)\n            elif member in constants:\n                appender(member)\n",
             "            if member in constants:\n                appender(member)\n"), "C50-R4")
R.mutant("orm-bulk-replace-skips-kept-members", "orm/collections.py",
         sub("        elif member in constants:\n            appender(member, _sa_initiator=False)\n", ""), "C50-R4")
R.mutant("ap-set-dispatch-list-drops-values", AP,
         sub("            cast(\"_AssociationList[Any]\", proxy).extend(values)\n", "            cast(\"_AssociationList[Any]\", proxy).extend(())\n"), "C50-R4")
# for the SET proxy re-adding a member that stays is a no-op: dropping that branch alone changes nothing
R.mutant("benign-apset-bulk-replace-skips-kept-members", AP, sub(SCONST, ""), None)
R.mutant("benign-apdict-additions-as-difference-with-existing", AP,
         sub("        removals = existing.difference(constants)\n\n        for key, member in values.items() or ():",
             "        removals = existing - constants\n\n        for key, member in values.items() or ():"), None)
R.mutant("benign-apdict-bulk-replace-assigns-every-value", AP,
         sub("            if key in additions:\n                self[key] = member\n" + DCONST, "            self[key] = member\n"), None)
