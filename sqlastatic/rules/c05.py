"""C05 -- Literal rendering is equivalent to binding and cannot inject SQL (sanitiser discipline)."""

from __future__ import annotations

import ast
import re
from typing import Dict, List, Optional, Tuple

from ..astutil import call_name, calls_in, dotted, name_stores, returns_of, unparse, walk_local, walk_stmts
from ..index import ClassInfo, FuncInfo
from ..report import Registry, sub

R = Registry(
    "C05",
    title="Literal rendering is equivalent to binding and cannot inject SQL",
    decides=(
        "taint discipline of every literal_processor implementation (core types, TypeDecorator, all dialect "
        "overrides): the processed value reaches the returned SQL text only through an enumerated sanitiser "
        "(quote doubling before quote wrapping, int()/float()/Decimal validation, duck-typed date/number "
        "APIs, delegation to another literal processor, selection between constants); dialects that enable "
        "backslash escapes double backslashes after the generic rendering, percent-doubling sites agree; "
        "render_literal_value renders NULL for None and raises CompileError when no processor exists."
    ),
    not_decided="equality of literal-rendered and bound execution results on a backend; DBAPI-level quoting.",
)

# abstract levels, worst to best
RAW, QSAFE, SAFE = 0, 1, 2
NAMES = {RAW: "RAW", QSAFE: "QUOTE-DOUBLED", SAFE: "SAFE"}

DUCK_METHODS = {"isoformat", "strftime", "total_seconds", "timetuple", "toordinal", "utcoffset", "timestamp", "as_integer_ratio", "bit_length"}
DUCK_ATTRS = {"hex", "year", "month", "day", "hour", "minute", "second", "microsecond", "days", "seconds", "microseconds", "int", "real", "numerator"}
PROC_SOURCES = {"literal_processor", "string_literal_processor", "_cached_literal_processor",
                "_literal_processor_date", "_literal_processor_datetime", "_literal_processor_time",
                "_literal_processor_portion"}
# `'%s' % bp(value)` in SQLite date types: the bind processor formats date parts with %d-style fields and raises
# TypeError for anything that is not a date/time object (read and confirmed).
BIND_PROC_AS_SANITISER = {
    "dialects/sqlite/base.py::_DateTimeMixin.literal_processor":
        "SQLite DATE/TIME/DATETIME bind processors accept only date/time objects (TypeError otherwise) and render "
        "integer fields through the storage format",
}
USER_HOOK = {
    "sql/type_api.py::TypeDecorator.literal_processor":
        "process_literal_param is the documented user hook whose return value *is* the rendered literal when the impl "
        "type has no literal processor; its content is the application's responsibility",
}


class _Interp:
    """Tiny abstract interpreter for the inner `process(value)` closures."""

    def __init__(self, ctx, outer: FuncInfo, fn: ast.FunctionDef, procs: Dict[str, str], nonnull: set, hooks: set):
        self.ctx, self.outer, self.fn = ctx, outer, fn
        self.procs, self.nonnull, self.hooks = procs, nonnull, hooks
        self.returns: List[Tuple[int, ast.AST, str]] = []
        self.param = fn.args.args[0].arg if fn.args.args else "value"

    # -- expressions
    def ev(self, e, env) -> int:
        if isinstance(e, ast.Constant):
            return SAFE
        if isinstance(e, ast.Name):
            return env.get(e.id, SAFE)  # closure constants / format strings are not value-derived
        if isinstance(e, ast.Attribute):
            base = self.ev(e.value, env)
            if base == SAFE:
                return SAFE
            return SAFE if e.attr in DUCK_ATTRS else RAW
        if isinstance(e, ast.Subscript):
            return self.ev(e.value, env)
        if isinstance(e, ast.IfExp):
            return min(self.ev(e.body, env), self.ev(e.orelse, env))
        if isinstance(e, ast.BoolOp):
            return min(self.ev(v, env) for v in e.values)
        if isinstance(e, ast.JoinedStr):
            return self._fstring(e, env)
        if isinstance(e, ast.BinOp) and isinstance(e.op, ast.Mod) and isinstance(e.left, ast.Constant) and isinstance(e.left.value, str):
            args = e.right.elts if isinstance(e.right, ast.Tuple) else [e.right]
            return self._format(e.left.value, args, env)
        if isinstance(e, ast.BinOp):
            l, r = self.ev(e.left, env), self.ev(e.right, env)
            m = min(l, r)
            return SAFE if m == SAFE else RAW  # concatenating a merely quote-doubled piece loses the wrapping proof
        if isinstance(e, (ast.ListComp, ast.GeneratorExp)):
            env2 = dict(env)
            for g in e.generators:
                lv = self.ev(g.iter, env)
                for n in ast.walk(g.target):
                    if isinstance(n, ast.Name):
                        env2[n.id] = lv
            return self.ev(e.elt, env2)
        if isinstance(e, ast.Call):
            return self._call(e, env)
        if isinstance(e, (ast.Tuple, ast.List)):
            return min([self.ev(x, env) for x in e.elts] or [SAFE])
        return RAW

    def _call(self, c: ast.Call, env) -> int:
        nm = call_name(c) or ""
        short = nm.rsplit(".", 1)[-1]
        args = [self.ev(a, env) for a in c.args] + [self.ev(k.value, env) for k in c.keywords]
        worst = min(args) if args else SAFE
        if isinstance(c.func, ast.Name):
            if c.func.id in self.procs:
                return SAFE  # delegation to a literal processor: a complete, sanitised literal
            if c.func.id in self.hooks:
                return RAW
            if c.func.id in ("int", "float", "len", "bool", "abs", "round", "ord", "hash"):
                return SAFE
            if c.func.id in ("str", "repr", "bytes", "list", "tuple", "map", "sorted", "format"):
                return worst
            if c.func.id == "Decimal":
                return SAFE
            return SAFE if worst == SAFE else RAW
        if isinstance(c.func, ast.Attribute):
            if nm in ("decimal.Decimal", "dt.datetime", "uuid.UUID", "_python_UUID"):
                return SAFE
            recv = self.ev(c.func.value, env)
            if short == "replace" and len(c.args) == 2 and all(isinstance(a, ast.Constant) and isinstance(a.value, str) for a in c.args):
                a, b = c.args[0].value, c.args[1].value
                if a == "'" and b == "''":
                    return max(recv, QSAFE)
                if "'" not in a and "'" not in b:
                    return recv
                return RAW if recv != SAFE else (SAFE if "'" not in b else RAW)
            if short in DUCK_METHODS:
                return SAFE
            if short == "join":
                return min(recv, worst)
            if short in ("split", "strip", "lstrip", "rstrip", "lower", "upper", "format", "zfill", "ljust", "rjust", "title"):
                lv = min(recv, worst)
                return lv if lv != QSAFE else RAW
            if short in ("decode", "encode"):
                return RAW if recv != SAFE else SAFE
            if short == "_apply_item_processor" and len(c.args) >= 2 and isinstance(c.args[1], ast.Name) and c.args[1].id in self.procs:
                return SAFE
            if recv == SAFE and worst == SAFE:
                return SAFE
            return RAW
        return RAW

    def _placeholders(self, pieces: List[Tuple[str, Optional[ast.AST]]], env) -> int:
        """pieces: (literal text, expr or None) in order; an expr inside single quotes needs >= QSAFE, outside
        needs SAFE.  Result SAFE when every placeholder is fine, else RAW."""
        inside = False
        ok = True
        for text, expr in pieces:
            for ch in text:
                if ch == "'":
                    inside = not inside
            if expr is not None:
                lv = self.ev(expr, env)
                if inside:
                    ok = ok and lv >= QSAFE
                else:
                    ok = ok and lv == SAFE
        return SAFE if ok else RAW

    def _fstring(self, e: ast.JoinedStr, env) -> int:
        pieces, cur = [], ""
        for v in e.values:
            if isinstance(v, ast.Constant):
                cur += str(v.value)
            else:
                pieces.append((cur, v.value))
                cur = ""
        pieces.append((cur, None))
        return self._placeholders(pieces, env)

    def _format(self, fmt: str, args, env) -> int:
        parts = re.split(r"%(?:\([^)]*\))?[-#0 +]*\d*(?:\.\d+)?([sdrfi])", fmt)
        texts, kinds = parts[0::2], parts[1::2]
        if len(kinds) != len(args):
            if len(args) == 1 and isinstance(args[0], ast.Dict):
                return min([self.ev(v, env) for v in args[0].values] or [SAFE]) if False else RAW
            return RAW
        pieces = []
        for t, k, a in zip(texts, kinds, args):
            if k in ("d", "f", "i"):
                pieces.append((t, ast.Constant(value=0)))  # numeric conversion: TypeError for non-numbers
            else:
                pieces.append((t, a))
        pieces.append((texts[-1], None))
        return self._placeholders(pieces, env)

    # -- statements
    def run(self):
        env = {self.param: RAW}
        self._block(self.fn.body, env)

    def _block(self, stmts, env) -> Optional[Dict[str, int]]:
        """Returns the fall-through env or None if every path returned/raised."""
        for i, st in enumerate(stmts):
            if isinstance(st, ast.Return):
                lv = self.ev(st.value, env) if st.value is not None else SAFE
                self.returns.append((lv, st, ""))
                return None
            if isinstance(st, ast.Raise):
                return None
            if isinstance(st, ast.Assign):
                lv = self.ev(st.value, env)
                for t in st.targets:
                    for n in ast.walk(t):
                        if isinstance(n, ast.Name):
                            env[n.id] = lv
            elif isinstance(st, ast.AnnAssign) and st.value is not None and isinstance(st.target, ast.Name):
                env[st.target.id] = self.ev(st.value, env)
            elif isinstance(st, ast.AugAssign) and isinstance(st.target, ast.Name):
                env[st.target.id] = min(env.get(st.target.id, SAFE), self.ev(st.value, env))
            elif isinstance(st, ast.Expr):
                # validating call that raises for anything non-numeric dominates what follows
                v = st.value
                if isinstance(v, ast.Call) and (call_name(v) or "") in ("decimal.Decimal", "Decimal", "int", "float") and v.args \
                        and isinstance(v.args[0], ast.Name):
                    env[v.args[0].id] = SAFE
            elif isinstance(st, ast.If):
                t = st.test
                # `if P:` on a processor that can never be None: only the body is feasible
                always = isinstance(t, ast.Name) and t.id in self.nonnull
                e1 = self._block(st.body, dict(env))
                e2 = None if always else self._block(st.orelse, dict(env)) if st.orelse else dict(env)
                if always and st.orelse:
                    e2 = None
                if e1 is None and e2 is None:
                    return None
                if e1 is None:
                    env = e2
                elif e2 is None:
                    env = e1
                else:
                    env = {k: min(e1.get(k, SAFE), e2.get(k, SAFE)) for k in set(e1) | set(e2)}
            elif isinstance(st, (ast.For, ast.While, ast.With, ast.Try)):
                body_env = self._block(st.body, dict(env))
                if body_env is not None:
                    env = {k: min(env.get(k, SAFE), body_env.get(k, SAFE)) for k in set(env) | set(body_env)}
        return env


def _never_none(ctx, f: FuncInfo) -> bool:
    """Does the literal_processor implementation return a function on every path?"""
    rets = returns_of(f.node)
    if not rets:
        return False
    for r in rets:
        if r.value is None or (isinstance(r.value, ast.Constant) and r.value.value is None):
            return False
    return True


def _string_family_never_none(ctx) -> bool:
    base = ctx.index.cls("sql/sqltypes.py::String")
    for c in [base] + ctx.index.subclasses(base):
        f = ctx.index.resolve_method(c, "literal_processor")
        if f is None or not _never_none(ctx, f):
            if f is not None and f.cls is not None and f.cls.name in ("TypeEngine",):
                return False
            if f is not None and not _never_none(ctx, f):
                return False
    return True


def _analyse_outer(ctx, f: FuncInfo, string_nonnull: bool, int_nonnull: bool, seen=None, param_nonnull=()):
    """Analyse one literal_processor-like function.  Yields (key, ok, msg, loc)."""
    seen = seen if seen is not None else set()
    if f.key in seen:
        return
    seen.add(f.key)
    ctx.functions_analysed.add(f.key)
    procs: Dict[str, str] = {}
    nonnull = set()
    hooks = set()
    stores = sorted(name_stores(f.node, into_nested=False), key=lambda x: (x[2].lineno, x[2].col_offset))
    for n, v, st in stores + stores:
        if v is None:
            continue
        if isinstance(v, ast.Call):
            nm = call_name(v) or ""
            short = nm.rsplit(".", 1)[-1]
            if short in PROC_SOURCES:
                procs[n] = nm
                if short == "string_literal_processor" and string_nonnull:
                    nonnull.add(n)
                if nm.startswith("super().") and f.cls is not None:
                    mro = ctx.index.mro(f.cls)
                    for k in mro[1:]:
                        if short in k.methods:
                            if _never_none(ctx, k.methods[short]):
                                nonnull.add(n)
                            break
                if "_integer." in nm and int_nonnull:
                    nonnull.add(n)
            elif short == "bind_processor" and f.key in BIND_PROC_AS_SANITISER:
                procs[n] = nm
        elif isinstance(v, ast.Name) and v.id in procs:
            procs[n] = procs[v.id]
            if v.id in nonnull:
                nonnull.add(n)
        elif isinstance(v, ast.Name) and v.id in hooks:
            hooks.add(n)
        elif isinstance(v, ast.Attribute) and v.attr in ("process_literal_param", "process_bind_param"):
            hooks.add(n)
    # parameters that are processors (helper functions such as PG JSONPathType._processor(dialect, super_proc))
    for p in f.params:
        if p.endswith("_proc") or p in ("super_proc", "item_proc"):
            procs[p] = "param"
            if p in param_nonnull:
                nonnull.add(p)
    # early `if P is None: return None` makes P non-null afterwards
    for st in f.node.body:
        if isinstance(st, ast.If) and isinstance(st.test, ast.Compare) and isinstance(st.test.left, ast.Name) \
                and isinstance(st.test.ops[0], ast.Is) and isinstance(st.test.comparators[0], ast.Constant) \
                and st.test.comparators[0].value is None and any(isinstance(s, ast.Return) for s in st.body):
            nonnull.add(st.test.left.id)
    inner = [n for n in ast.walk(f.node) if isinstance(n, ast.FunctionDef) and n is not f.node and n.name.startswith("process")]
    for i, fn in enumerate(inner):
        it = _Interp(ctx, f, fn, procs, nonnull, hooks)
        it.run()
        key = f"{f.key}:process#{i}" if len(inner) > 1 else f"{f.key}:process"
        if not it.returns:
            yield key, True, "no return (raises)", f"{f.module.path}:{fn.lineno}"
            continue
        worst = min(it.returns, key=lambda r: r[0])
        lv, node, _ = worst
        if lv == SAFE:
            yield key, True, f"{len(it.returns)} return(s), every value-derived part sanitised", f"{f.module.path}:{fn.lineno}"
        else:
            hooked = f.key in USER_HOOK and any(
                isinstance(n, ast.Call) and isinstance(n.func, ast.Name) and n.func.id in hooks for n in ast.walk(node))
            if hooked:
                yield key, True, "exception: " + USER_HOOK[f.key], f"{f.module.path}:{fn.lineno}"
            else:
                yield key, False, (
                    f"`{unparse(node)[:90]}` returns text in which the processed value is {NAMES[lv]}"
                    + (" but not wrapped in quotes" if lv == QSAFE else
                       ": it reaches the SQL string without quote doubling / numeric conversion / delegation to a literal processor")
                ), f"{f.module.path}:{node.lineno}"
    # delegation in the outer function itself: `return self._literal_processor_x(dialect)` / `self._processor(...)`
    for r in returns_of(f.node):
        v = r.value
        if isinstance(v, ast.Call) and isinstance(v.func, ast.Attribute) and isinstance(v.func.value, ast.Name) \
                and v.func.value.id == "self" and f.cls is not None:
            tgt = ctx.index.resolve_method(f.cls, v.func.attr)
            if tgt is None:
                # mixin helper defined on a sibling base: search subclasses' MROs
                for sc in ctx.index.subclasses(f.cls):
                    tgt = ctx.index.resolve_method(sc, v.func.attr)
                    if tgt is not None:
                        break
            if tgt is not None and tgt.node is not f.node:
                # processor arguments handed to the helper: non-null when they come from the String family
                pn = set()
                tparams = [p for p in tgt.params if p not in ("self", "cls")]
                for i, a in enumerate(v.args):
                    if isinstance(a, ast.Call) and (call_name(a) or "").rsplit(".", 1)[-1] == "string_literal_processor" \
                            and string_nonnull and i < len(tparams):
                        pn.add(tparams[i])
                yield from _analyse_outer(ctx, tgt, string_nonnull, int_nonnull, seen, pn)


@R.rule("C05-R1", floor=30, template="T-FLOW",
        desc="in every literal processor the value reaches the returned SQL only through an enumerated sanitiser")
def r1(ctx):
    string_nonnull = _string_family_never_none(ctx)
    integer = ctx.index.cls("sql/sqltypes.py::Integer")
    int_nonnull = all(
        _never_none(ctx, ctx.index.resolve_method(c, "literal_processor")) for c in [integer] + ctx.index.subclasses(integer)
    )
    ctx.check(string_nonnull, "sql/sqltypes.py::String.literal_processor:never-None",
              "a String literal_processor implementation can return None (guarded delegations `if proc:` would fall "
              "through to the raw value)", "String family always returns a processor")
    seen = set()
    n = 0
    for f in sorted(ctx.index.all_functions(), key=lambda x: x.key):
        if f.name != "literal_processor" or f.module.relpath.startswith("testing") or f.is_overload or f.type_only:
            continue
        for key, ok, msg, loc in _analyse_outer(ctx, f, string_nonnull, int_nonnull, seen):
            n += 1
            ctx.check(ok, key, msg, msg, loc)
    ctx.require(n >= 25, f"only {n} literal processor closures analysed")


@R.rule("C05-R2", floor=6, template="T-SIBLING",
        desc="dialects with backslash escapes double backslashes after the generic literal rendering; the three "
             "percent-doubling sites agree")
def r2(ctx):
    # every dialect class that assigns _backslash_escapes must have a compiler overriding render_literal_value
    for c in ctx.index.all_classes():
        if "_backslash_escapes" in c.assigns and c.module.relpath.startswith("dialects/"):
            comp_cls = None
            for k in ctx.index.mro(c):
                if "statement_compiler" in k.assigns:
                    r = ctx.index.resolve(k.module, unparse(k.assigns["statement_compiler"][-1]))
                    if isinstance(r, ClassInfo):
                        comp_cls = r
                    break
            ctx.require(comp_cls is not None, f"cannot resolve statement_compiler of {c.key}")
            f = comp_cls.methods.get("render_literal_value")
            key = f"{comp_cls.key}.render_literal_value"
            if f is None:
                ctx.violation(key, f"{c.name} supports backslash escapes but its compiler does not override "
                                   f"render_literal_value: a `\\'` in a string literal would end the literal", comp_cls.loc)
                continue
            g = ctx.cfg(f)
            sup = g.find_calls("render_literal_value")
            from ..astutil import own_exprs
            rep = [n.id for n in g.nodes if n.stmt is not None and isinstance(n.stmt, ast.stmt) and n.kind == "stmt" and any(
                (call_name(cc) or "").endswith(".replace") and len(cc.args) == 2 and isinstance(cc.args[0], ast.Constant)
                and cc.args[0].value == "\\" and isinstance(cc.args[1], ast.Constant) and cc.args[1].value == "\\\\"
                for part in own_exprs(n.stmt) for cc in calls_in(part))]
            guards_ok = False
            order_ok = False
            if rep and sup:
                tests = [unparse(t) for t, pol in g.edge_guards(rep[0]) if pol]
                guards_ok = any("_backslash_escapes" in t for t in tests)
                order_ok = g.always_preceded(rep[0], sup) is None
            ctx.check(bool(rep) and guards_ok and order_ok, key,
                      "render_literal_value does not double backslashes under _backslash_escapes after calling super()",
                      "super() then replace('\\\\','\\\\\\\\') under the flag", f.loc)
    # percent doubling sites
    sites = [
        ("sql/sqltypes.py::String.literal_processor", "string literals"),
        ("sql/compiler.py::SQLCompiler.escape_literal_column", "literal columns"),
        ("sql/compiler.py::SQLCompiler.post_process_text", "text()"),
        ("sql/compiler.py::IdentifierPreparer._escape_identifier", "identifiers"),
    ]
    for key, what in sites:
        f = ctx.func(key)
        ok = False
        for n in walk_local(f.node, into_nested=True):
            if isinstance(n, ast.If) and "_double_percents" in unparse(n.test):
                for cc in calls_in(n, into_nested=True):
                    if (call_name(cc) or "").endswith(".replace") and len(cc.args) == 2 and \
                            isinstance(cc.args[0], ast.Constant) and cc.args[0].value == "%" and \
                            isinstance(cc.args[1], ast.Constant) and cc.args[1].value == "%%":
                        ok = True
        ctx.check(ok, key + ":double-percents", f"{what}: `%` is not doubled under _double_percents (pyformat/format "
                                                f"drivers would treat it as a placeholder)", "doubles % under the flag", f.loc)


@R.rule("C05-R3", floor=3, template="T-PATH",
        desc="render_literal_value: NULL keyword for None before any processor; CompileError when no processor")
def r3(ctx):
    f = ctx.func("sql/compiler.py::SQLCompiler.render_literal_value")
    g = ctx.cfg(f)
    proc_calls = [n.id for n in g.nodes if n.stmt is not None and isinstance(n.stmt, ast.Return) and isinstance(n.stmt.value, ast.Call)
                  and isinstance(n.stmt.value.func, ast.Name) and n.stmt.value.func.id == "processor"]
    ctx.require(proc_calls, "render_literal_value no longer returns processor(value)")
    # (a) processor(value) is dominated by the false outcome of a test whose conjuncts are exactly
    #     `value is None` [and `not <type>.should_evaluate_none`] and whose true arm renders NULL
    from ..astutil import test_atoms
    guards = []
    none_guard = False
    for t, pol in g.edge_guards(proc_calls[0]):
        guards.append((unparse(t), pol))
        if pol:
            continue
        atoms = set(test_atoms(t, True))
        has_none = any(a.replace(" ", "") in ("valueisNone", "valueis None") or a == "value is None" for a, p_ in atoms if p_)
        others = {(a, p_) for a, p_ in atoms if a != "value is None"}
        allowed = all((not p_) and a.endswith(".should_evaluate_none") for a, p_ in others)
        if has_none and allowed:
            none_guard = True
    proc_guard = any(t.strip() == "processor" and pol for t, pol in guards)
    ctx.check(none_guard, f.key + ":none-first", "processor(value) is reachable for value None (NULL must be rendered by the "
                                                  "compiler)", "None handled before the processor", f.loc)
    ctx.check(proc_guard, f.key + ":processor-guard", "processor(value) not guarded by `if processor`", "guarded", f.loc)
    # (b) every other return is the Null rendering; no str(value) fallback; missing processor raises CompileError
    bad = []
    for r in returns_of(f.node):
        txt = unparse(r.value) if r.value is not None else "None"
        if "processor(" in txt or "Null" in txt:
            continue
        bad.append(txt)
    raises = [unparse(n.exc)[:40] for n in walk_local(f.node) if isinstance(n, ast.Raise) and n.exc is not None]
    ctx.check(not bad and any("CompileError" in r for r in raises), f.key + ":no-fallback",
              f"render_literal_value has a fall-through rendering {bad} or no CompileError for a missing processor",
              "only processor(value) / NULL are rendered; CompileError otherwise", f.loc)


# ---------------------------------------------------------------------- self-test battery
T = "sql/sqltypes.py"
R.mutant("string-no-quote-doubling", T, sub("    def literal_processor(self, dialect):\n        def process(value):\n            value = value.replace(\"'\", \"''\")\n\n            if dialect.identifier_preparer._double_percents:",
                                            "    def literal_processor(self, dialect):\n        def process(value):\n            if dialect.identifier_preparer._double_percents:"), "C05-R1")
R.mutant("integer-no-int", T, sub("            return str(int(value))", "            return str(value)"), "C05-R1")
R.mutant("numeric-no-validation", T, sub("            decimal.Decimal(value)\n            return str(value)", "            return str(value)"), "C05-R1")
R.mutant("binary-no-quote-doubling", T, sub("            ).replace(\"'\", \"''\")\n            return \"'%s'\" % value", "            )\n            return \"'%s'\" % value"), "C05-R1")
R.mutant("uuid-no-quote-doubling", T, sub("""return f\"\"\"'{value.replace("-", "").replace("'", "''")}'\"\"\"""", """return f\"\"\"'{value.replace("-", "")}'\"\"\""""), "C05-R1")
R.mutant("enum-skips-parent", T, sub("            value = self._db_value_for_elem(value)\n            if parent_processor:\n                value = parent_processor(value)\n            return value",
                                     "            value = self._db_value_for_elem(value)\n            return \"'%s'\" % value"), "C05-R1")
R.mutant("mssql-unicode-no-doubling", "dialects/mssql/base.py", sub("        def process(value):\n            value = value.replace(\"'\", \"''\")\n\n            if dialect.identifier_preparer._double_percents:\n                value = value.replace(\"%\", \"%%\")\n\n            return \"N'%s'\" % value",
                                                                  "        def process(value):\n            if dialect.identifier_preparer._double_percents:\n                value = value.replace(\"%\", \"%%\")\n\n            return \"N'%s'\" % value"), "C05-R1")
R.mutant("mysql-no-backslash-doubling", "dialects/mysql/base.py", sub("        if self.dialect._backslash_escapes:\n            value = value.replace(\"\\\\\", \"\\\\\\\\\")\n        return value\n\n    # override native_boolean",
                                                                      "        return value\n\n    # override native_boolean"), "C05-R2")
R.mutant("pg-backslash-before-super", "dialects/postgresql/base.py", sub("        value = super().render_literal_value(value, type_)\n\n        if self.dialect._backslash_escapes:\n            value = value.replace(\"\\\\\", \"\\\\\\\\\")\n        return value",
                                                                         "        if self.dialect._backslash_escapes:\n            value = value.replace(\"\\\\\", \"\\\\\\\\\")\n        return super().render_literal_value(value, type_)"), "C05-R2")
R.mutant("literal-column-no-percent", "sql/compiler.py", sub("    def escape_literal_column(self, text):\n        if self.preparer._double_percents:\n            text = text.replace(\"%\", \"%%\")\n        return text",
                                                            "    def escape_literal_column(self, text):\n        return text"), "C05-R2")
R.mutant("render-literal-str-fallback", "sql/compiler.py", sub("        else:\n            raise exc.CompileError(\n                f\"No literal value renderer is available for literal value \"",
                                                              "        elif isinstance(value, str):\n            return \"'%s'\" % value\n        else:\n            raise exc.CompileError(\n                f\"No literal value renderer is available for literal value \""), "C05-R3")
R.mutant("render-literal-none-after-processor", "sql/compiler.py", sub("        if value is None and not type_.should_evaluate_none:", "        if False and value is None and not type_.should_evaluate_none:"), "C05-R3")
R.mutant("benign-string-rename", T, sub("    def literal_processor(self, dialect):\n        def process(value):\n            value = value.replace(\"'\", \"''\")\n\n            if dialect.identifier_preparer._double_percents:\n                value = value.replace(\"%\", \"%%\")\n\n            return \"'%s'\" % value",
                                        "    def literal_processor(self, dialect):\n        def process(value):\n            v2 = value.replace(\"'\", \"''\")\n\n            if dialect.identifier_preparer._double_percents:\n                v2 = v2.replace(\"%\", \"%%\")\n\n            return \"'\" \"%s'\" % v2"), None)
R.mutant("benign-integer-local", T, sub("            return str(int(value))", "            n = int(value)\n            return str(n)"), None)
